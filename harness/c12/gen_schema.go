package main

// Schema mode of the expression generator (gen.go): the same condition / arithmetic
// grammar (operator kinds, AND/OR nesting, needed and redundant parentheses, white
// space, keyword case), but the operands are the tag keys and typed fields of a loaded
// measurement and literals taken from the value ranges of the data, so that a real
// server accepts most of the texts and the conditions select some rows but not all.
// Used by the black-box phase cluster-vs-single (cvs_query.go).

import (
	"regexp"
	"strconv"
	"strings"
)

type genSchema struct {
	tagKeys    []string
	tagVals    map[string][]string
	ints       []string
	floats     []string
	bools      []string
	strs       []string
	intRange   map[string][2]int64
	floatRange map[string][2]float64
	strVals    []string
	tlo, thi   int64   // smallest / largest timestamp of the measurement
	times      []int64 // base timestamps
	where      bool    // inside a WHERE clause: no function calls
	noTime     bool    // no time-bound leaves (the caller adds the bounds itself)
	tagOnly    bool    // only leaves over tag keys
}

var identPlain = regexp.MustCompile(`^[A-Za-z_][A-Za-z0-9_]*$`)

// w records an operator class of the WHERE clause / field list (signature + evidence).
func (g *gen) w(class string) { g.feat["w:"+class] = true }

// qid writes an identifier: quoted when it must be, sometimes when it need not.
func (g *gen) qid(name string) string {
	if !identPlain.MatchString(name) {
		g.f("ident:quoted")
		g.w("quoted-ident")
		return `"` + strings.NewReplacer(`\`, `\\`, `"`, `\"`, "\n", `\n`).Replace(name) + `"`
	}
	if g.p(0.1) {
		g.f("ident:quoted-plain")
		return `"` + name + `"`
	}
	return name
}

// qstr writes a string literal with the escapes of the language.
func (g *gen) qstr(v string) string {
	if strings.ContainsAny(v, `'\`+"\n") {
		g.w("string-escape")
		if strings.Contains(v, `'`) {
			g.f("string:escaped-quote")
		}
		if strings.Contains(v, `\`) {
			g.f("string:backslash")
		}
	}
	for _, c := range v {
		if c > 127 {
			g.f("string:unicode")
			break
		}
	}
	return `'` + strings.NewReplacer(`\`, `\\`, `'`, `\'`, "\n", `\n`).Replace(v) + `'`
}

func (g *gen) sField(names []string) string { return names[g.r.IntN(len(names))] }

// sNumRef: a reference to a numeric field, sometimes with a type cast.
func (g *gen) sNumRef() (string, byte, string) {
	s := g.sch
	var name string
	var k byte
	if len(s.floats) == 0 || (len(s.ints) > 0 && g.p(0.5)) {
		name, k = g.sField(s.ints), 'i'
	} else {
		name, k = g.sField(s.floats), 'f'
	}
	text := g.qid(name)
	if g.p(0.08) {
		g.f("varref:typed")
		g.w("cast")
		if k == 'i' {
			text += "::" + g.pick("integer", "field")
		} else {
			text += "::" + g.pick("float", "field")
		}
	}
	return text, k, name
}

// sIntLit: an integer literal near the values of field fld ("" = small).
func (g *gen) sIntLit(fld string) string {
	lo, hi := int64(-20), int64(20)
	if rg, ok := g.sch.intRange[fld]; ok {
		lo, hi = rg[0], rg[1]
	} else if rg, ok := g.sch.floatRange[fld]; ok {
		lo, hi = int64(rg[0]), int64(rg[1])
	}
	if hi <= lo {
		hi = lo + 1
	}
	v := lo + g.r.Int64N(hi-lo+1)
	switch g.r.IntN(12) {
	case 0:
		v = 0
		g.f("int:zero")
	case 1:
		v = lo - 1 - g.r.Int64N(5) // below every value
	case 2:
		v = hi + 1 + g.r.Int64N(5) // above every value
	}
	if v < 0 {
		g.f("int:negative")
		g.w("negative-literal")
	}
	return strconv.FormatInt(v, 10)
}

// sFloatLit: a float literal (eighths, like the data) near the values of fld, in the
// spellings the scanner knows: integral-valued 3.0, leading dot, trailing dot, negative.
func (g *gen) sFloatLit(fld string) string {
	lo, hi := -10.0, 10.0
	if rg, ok := g.sch.floatRange[fld]; ok {
		lo, hi = rg[0], rg[1]
	} else if rg, ok := g.sch.intRange[fld]; ok {
		lo, hi = float64(rg[0]), float64(rg[1])
	}
	if hi-lo > 1e6 {
		lo, hi = lo/3_000_000_007, hi/3_000_000_007
	}
	n := int64((hi-lo)*8) + 1
	v := lo + float64(g.r.Int64N(n))/8
	switch g.r.IntN(10) {
	case 0, 1, 2:
		g.f("float:integral")
		g.w("integral-float-literal")
		iv := int64(v)
		if iv < 0 {
			g.f("float:negative-integral")
			g.w("negative-literal")
		}
		return strconv.FormatInt(iv, 10) + ".0"
	case 3:
		g.f("float:integral")
		g.w("integral-float-literal")
		return g.pick("2.0", "1.0", "3.0", "8.0", "0.0")
	case 4:
		g.f("float:leading-dot")
		return "." + g.pick("5", "25", "125", "75")
	case 5:
		g.f("float:trailing-dot")
		g.w("integral-float-literal")
		iv := int64(v)
		if iv < 0 {
			iv = -iv
		}
		return strconv.FormatInt(iv, 10) + "."
	}
	if v < 0 {
		g.f("float:negative")
		g.w("negative-literal")
	}
	return strconv.FormatFloat(v, 'f', -1, 64)
}

func (g *gen) sNumParam(k byte, fld string) string {
	name := "p" + strconv.Itoa(len(g.params))
	g.f("boundparam")
	g.w("bound-param")
	if k == 'i' {
		v, _ := strconv.ParseInt(g.sIntLit(fld), 10, 64)
		g.params[name] = v
	} else if g.p(0.4) {
		g.params[name] = float64(g.r.IntN(21) - 10) // integral-valued float parameter
		g.f("boundparam:float-integral")
	} else {
		g.params[name] = float64(g.r.IntN(161)-80) / 8
	}
	return "$" + name
}

// genLit is returned in place of a field name when the operand is a literal (or a bound
// parameter, which the server replaces by a literal).
const genLit = "#literal"

// sAtomK: a numeric operand and its kind.
func (g *gen) sAtomK(d int) (piece, byte, string) {
	switch k := g.r.IntN(100); {
	case k < 55:
		t, kind, name := g.sNumRef()
		return piece{t, precAtom}, kind, name
	case k < 70:
		return piece{g.sIntLit(""), precAtom}, 'i', genLit
	case k < 88:
		return piece{g.sFloatLit(""), precAtom}, 'f', genLit
	case k < 94 && !g.sch.where && d > 0:
		// a scalar function of a numeric expression (field lists only)
		fn := g.pick("abs", "floor", "ceil", "round")
		g.f("call:arity1")
		g.w("math-call")
		x, _, _ := g.sArithK(d - 1)
		return piece{fn + "(" + x.s + ")", precAtom}, 'f', ""
	case k < 97:
		kind := byte('i')
		if g.p(0.5) {
			kind = 'f'
		}
		return piece{g.sNumParam(kind, ""), precAtom}, kind, genLit
	default:
		t, kind, name := g.sNumRef()
		return piece{t, precAtom}, kind, name
	}
}

func (g *gen) sArith(d int) piece {
	p, _, _ := g.sArithK(d)
	return p
}

// sArithK mirrors arith(): atoms, unary minus, binary operators with needed / redundant
// parentheses; bitwise operators only between integer-valued operands.
func (g *gen) sArithK(d int) (piece, byte, string) {
	if d <= 0 || g.p(0.35) {
		a, k, name := g.sAtomK(d)
		if g.p(0.06) {
			g.f("parens:around-atom")
			a.s = g.wrap(a.s)
			if name != genLit { // the planner drops the parentheses: a literal stays a literal
				name = ""
			}
		}
		return a, k, name
	}
	if g.p(0.08) {
		x, k, xname := g.sArithK(d - 1)
		g.f("unary:minus")
		g.w("unary-minus")
		if xname != genLit {
			g.w("literal-left-operand") // -x is planned as -1 * x
		}
		s := x.s
		if x.prec < precAtom || strings.HasPrefix(s, "-") || strings.HasPrefix(s, "+") || strings.HasPrefix(s, ".") || g.p(0.3) {
			s = "(" + s + ")"
			g.f("unary:on-parens")
		}
		return piece{"-" + g.pick("", "", " ") + s, precMul + 1}, k, ""
	}
	l, lk, lname := g.sArithK(d - 1)
	r, rk, rname := g.sArithK(d - 1)
	if lname == genLit && rname != genLit {
		g.w("literal-left-operand")
	}
	bothInt := lk == 'i' && rk == 'i'
	var op string
	var prec int
	if g.p(0.5) {
		op, prec = g.pick("+", "-", "+", "-", "|", "^"), precAdd
	} else {
		op, prec = g.pick("*", "/", "*", "/", "%", "&"), precMul
	}
	if !bothInt {
		switch op {
		case "|", "^":
			op = g.pick("+", "-")
		case "&":
			op = g.pick("*", "/")
		}
	}
	g.f("op:" + op)
	switch op {
	case "|", "^", "&":
		g.w("bitwise")
	case "%":
		g.w("modulo")
	default:
		g.w("arith")
	}
	k := byte('f')
	if bothInt && op != "/" {
		k = 'i'
	}
	if l.prec < precAtom {
		g.f("nest:L" + strconv.Itoa(l.prec) + "-in-" + strconv.Itoa(prec))
	}
	if r.prec < precAtom {
		g.f("nest:R" + strconv.Itoa(r.prec) + "-in-" + strconv.Itoa(prec))
	}
	ls := g.operand(l, l.prec < prec)
	rs := g.operand(r, r.prec <= prec)
	return piece{ls + g.sp() + op + g.sp() + rs, prec}, k, ""
}

// sRegex builds a regular expression from values in use (so that it matches some but
// not all), in the spellings that matter for shipping: escaped slash, quotes, unicode,
// flags, anchors, classes, alternation. No anchored negated or wide class: the parser
// expands an anchored class into one equality per rune (DESIGN C08).
func (g *gen) sRegex(vals []string) string {
	g.f("regex")
	q := func(v string) string { return strings.ReplaceAll(regexp.QuoteMeta(v), "/", `\/`) }
	v1, v2 := vals[g.r.IntN(len(vals))], vals[g.r.IntN(len(vals))]
	var re string
	switch g.r.IntN(14) {
	case 0:
		re = "^" + q(v1) + "$"
	case 1:
		re = q(v1) + "|" + q(v2)
	case 2:
		re = "^(" + q(v1) + "|" + q(v2) + ")$"
	case 3:
		re = g.pick("[a-c]", "[d-f]", "[0-3]", "[a-cx]")
	case 4:
		re = g.pick("^[a-c]$", "^s[0-3]$", "^[xy]$", "^[d-f]")
	case 5:
		re = "(?i)" + strings.ToUpper(q(v1))
	case 6:
		re = g.pick(".", ".*", "^$", "^.*$", ".+", "^.$")
	case 7:
		re = g.pick("^s", "s[0-3]$", "^[a-z][0-9]$", `\s`, `\w+`, `\d`, "^.{2}$", "x{1,2}")
	case 8:
		// a value cut in two with a wildcard between
		if len(v1) >= 2 {
			re = q(v1[:1]) + ".*"
		} else {
			re = q(v1) + ".?"
		}
	case 9:
		re = g.pick(`\/`, `w\/z`, `'`, `"`, `\\`, `é`, ` `, `=`, `,`)
	case 10:
		re = g.pick(regexPool...)
		re = re[1 : len(re)-1]
		g.f("regex:pool")
	default:
		re = q(v1)
	}
	if strings.Contains(re, `\/`) {
		g.f("regex:slash")
		g.w("regex-escaped-slash")
	}
	return "/" + re + "/"
}

// sTimeBound: one comparison of time with a literal, in the spellings of the language.
func (g *gen) sTimeBound() string {
	s := g.sch
	g.f("time-bound")
	g.w("time")
	var t int64
	switch x := g.r.IntN(10); {
	case x < 5 && len(s.times) > 0:
		t = s.times[g.r.IntN(len(s.times))]
	case x < 8 && len(s.times) > 0:
		t = s.times[g.r.IntN(len(s.times))] + int64(1+g.r.IntN(900))*1_000_000
	case x < 9:
		t = s.tlo - int64(1+g.r.IntN(40))*1_000_000_000
	default:
		t = s.thi + int64(1+g.r.IntN(40))*1_000_000_000
	}
	op := g.pick(">", ">=", "<", "<=")
	if t < (s.tlo+s.thi)/2 {
		op = g.pick(">", ">=", ">", ">=", "<", "<=")
	} else {
		op = g.pick("<", "<=", "<", "<=", ">", ">=")
	}
	return "time " + op + " " + g.sTimeLit(t)
}

func (g *gen) sTimeLit(t int64) string {
	switch g.r.IntN(8) {
	case 0:
		g.f("string:time-literal")
		return "'" + cvsRFC3339(t) + "'"
	case 1:
		if t%1_000_000 == 0 {
			g.f("duration")
			return strconv.FormatInt(t/1_000_000, 10) + "ms"
		}
	case 2:
		if t%1_000_000_000 == 0 {
			g.f("duration")
			return strconv.FormatInt(t/1_000_000_000, 10) + "s"
		}
	case 3:
		g.f("duration")
		return strconv.FormatInt(t, 10) + "ns"
	}
	return strconv.FormatInt(t, 10)
}

// sComparison: one leaf of a condition.
func (g *gen) sComparison(d int) piece {
	s := g.sch
	num := []string{"=", "!=", "<>", "<", "<=", ">", ">="}
	for try := 0; try < 20; try++ {
		k := g.r.IntN(100)
		if s.tagOnly {
			k = 40 + g.r.IntN(24)
		}
		switch {
		case k < 40:
			// numeric: field or expression against a literal near the data (or another expression)
			var l piece
			var lk byte
			var lname string
			if g.p(0.55) {
				t, kind, name := g.sNumRef()
				l, lk, lname = piece{t, precAtom}, kind, name
			} else {
				l, lk, lname = g.sArithK(d)
				if lname == genLit {
					lname = ""
				}
			}
			var rs string
			switch x := g.r.IntN(10); {
			case x < 4:
				if lk == 'i' {
					rs = g.sIntLit(lname)
				} else {
					rs = g.sFloatLit(lname)
				}
			case x < 6:
				// the other kind of literal: int field against 2.0 / 1.5, float field against 3
				if lk == 'i' {
					rs = g.sFloatLit(lname)
				} else {
					rs = g.sIntLit(lname)
				}
				g.w("cross-type-literal")
			case x < 7:
				rs = g.sNumParam(lk, lname)
			default:
				rs = g.sArith(d - 1).s
			}
			op := g.pick(num...)
			g.f("op:" + op)
			g.w("cmp-num")
			g.feat["field-filter"] = true
			if g.p(0.12) {
				// literal on the left
				return piece{rs + g.sp() + op + g.sp() + l.s, precCmp}
			}
			return piece{l.s + g.sp() + op + g.sp() + rs, precCmp}
		case k < 54:
			key := s.tagKeys[g.r.IntN(len(s.tagKeys))]
			vals := append([]string{}, s.tagVals[key]...)
			vals = append(vals, "zz")
			op := g.pick("=", "=", "!=", "<>")
			g.f("op:" + op)
			g.w("cmp-tag")
			ref := g.qid(key)
			if g.p(0.1) {
				ref += "::tag"
				g.f("varref:typed")
				g.w("cast")
			}
			return piece{ref + g.sp() + op + g.sp() + g.qstr(vals[g.r.IntN(len(vals))]), precCmp}
		case k < 64:
			key := s.tagKeys[g.r.IntN(len(s.tagKeys))]
			op := g.pick("=~", "!~")
			g.f("op:" + op)
			g.w("regex-tag")
			return piece{g.qid(key) + g.sp() + op + g.pick(" ", "", "  ") + g.sRegex(s.tagVals[key]), precCmp}
		case k < 72:
			if len(s.strs) == 0 {
				continue
			}
			f := g.sField(s.strs)
			g.feat["field-filter"] = true
			if g.p(0.5) {
				op := g.pick("=~", "!~")
				g.f("op:" + op)
				g.w("regex-field")
				return piece{g.qid(f) + g.sp() + op + g.pick(" ", "") + g.sRegex(s.strVals), precCmp}
			}
			op := g.pick("=", "!=", "=", "!=", "<", ">")
			g.f("op:" + op)
			g.w("cmp-string")
			return piece{g.qid(f) + g.sp() + op + g.sp() + g.qstr(s.strVals[g.r.IntN(len(s.strVals))]), precCmp}
		case k < 78:
			if len(s.bools) == 0 {
				continue
			}
			op := g.pick("=", "!=")
			g.f("op:" + op)
			g.f("bool-literal")
			g.w("cmp-bool")
			g.feat["field-filter"] = true
			return piece{g.qid(g.sField(s.bools)) + g.sp() + op + g.sp() + g.pick("true", "false", "TRUE", "False"), precCmp}
		case k < 86:
			g.f("op:IN")
			g.w("in")
			n := 1 + g.r.IntN(4)
			vals := make([]string, n)
			var ref string
			switch g.r.IntN(4) {
			case 0:
				key := s.tagKeys[g.r.IntN(len(s.tagKeys))]
				ref = g.qid(key)
				for i := range vals {
					vals[i] = g.qstr(s.tagVals[key][g.r.IntN(len(s.tagVals[key]))])
				}
			case 1:
				if len(s.strs) == 0 {
					continue
				}
				g.feat["field-filter"] = true
				ref = g.qid(g.sField(s.strs))
				for i := range vals {
					vals[i] = g.qstr(s.strVals[g.r.IntN(len(s.strVals))])
				}
			case 2:
				if len(s.floats) == 0 {
					continue
				}
				f := g.sField(s.floats)
				g.feat["field-filter"] = true
				ref = g.qid(f)
				for i := range vals {
					vals[i] = g.sFloatLit(f)
				}
			default:
				if len(s.ints) == 0 {
					continue
				}
				f := g.sField(s.ints)
				g.feat["field-filter"] = true
				ref = g.qid(f)
				for i := range vals {
					vals[i] = g.sIntLit(f)
				}
			}
			op := g.kw("IN")
			if g.p(0.3) {
				op = g.kw("NOT") + " " + g.kw("IN")
				g.f("op:NOT IN")
			}
			return piece{ref + " " + op + " (" + strings.Join(vals, g.pick(", ", ",")) + ")", precCmp}
		case k < 90:
			if s.noTime {
				continue
			}
			return piece{g.sTimeBound(), precCmp}
		case k < 93 && d > 0:
			g.f("cmp-of-conditions")
			g.w("cmp-of-conditions")
			l, r := g.cond(d-1), g.cond(d-1)
			return piece{"(" + l.s + ") " + g.pick("=", "!=") + " (" + r.s + ")", precCmp}
		case k < 96:
			// field against field
			if len(s.ints) == 0 || len(s.floats) == 0 {
				continue
			}
			op := g.pick(num...)
			g.f("op:" + op)
			g.w("cmp-field-field")
			g.feat["field-filter"] = true
			return piece{g.qid(g.sField(s.ints)) + g.sp() + op + g.sp() + g.qid(g.sField(s.floats)), precCmp}
		default:
			// the log-store predicates of the grammar
			if len(s.strs) == 0 {
				continue
			}
			f := g.sField(s.strs)
			g.feat["field-filter"] = true
			v := s.strVals[g.r.IntN(len(s.strVals))]
			if g.p(0.5) {
				g.f("op:LIKE")
				g.w("like")
				return piece{g.qid(f) + " " + g.kw("LIKE") + " " + g.qstr(v), precCmp}
			}
			fn := g.pick("match", "matchphrase")
			g.f("op:" + fn)
			g.w("match-call")
			return piece{fn + "(" + g.qid(f) + ", " + g.qstr(v) + ")", precCmp}
		}
	}
	t, _, name := g.sNumRef()
	g.w("cmp-num")
	g.feat["field-filter"] = true
	return piece{t + " >= " + g.sIntLit(name), precCmp}
}
