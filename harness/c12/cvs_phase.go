package main

// Phase "cluster-vs-single" (part (b) of the design of C12): the same generated dataset
// is loaded into one single-node ts-server and into a real cluster (3 ts-meta, 3
// ts-store, 1 ts-sql on loopback, database created WITHOUT replication so that the rows
// of a measurement are spread over the partitions of three stores); generated statements
// are sent to both over HTTP and the canonicalised answers must be equal. On the cluster
// every statement is planned on ts-sql and shipped to the stores (conditions, field
// expressions, sources, options, plan, schema), and the stores' chunks come back through
// the chunk codec, so this is the end-to-end check of what part (a) checks codec by codec.

import (
	"fmt"
	"net"
	"os"
	"path/filepath"
	"sort"
	"strings"
	"sync"
	"time"

	"verifharness/kit"
	"verifharness/model"
	"verifharness/proc"
	"verifharness/vf"
)

const (
	partCvsData = 20 // PCG stream parts of this phase
	partCvsLoad = 21
	partCvsStmt = 22
)

type cvsSystems struct {
	single  *proc.Server
	cluster *proc.Cluster
	dir     string
}

// cvsFreeBase picks the 127.22.x prefix of the cluster's three addresses (x >= 100; the
// single node uses proc.IP(12, w) = 127.22.<w+1>.y) and skips prefixes in use.
func cvsFreeBase() string {
	h := os.Getpid()
	for try := 0; try < 60; try++ {
		base := fmt.Sprintf("127.22.%d", 100+h%150)
		busy := false
		for _, hp := range []string{".1:8086", ".1:8091", ".1:8400", ".2:8400", ".3:8400", ".1:8092"} {
			if conn, err := net.DialTimeout("tcp", base+hp, 200*time.Millisecond); err == nil {
				conn.Close()
				busy = true
				break
			}
		}
		if !busy {
			return base
		}
		h += 7
	}
	return fmt.Sprintf("127.22.%d", 100+h%150)
}

func cvsFreeSingleIP() string {
	for w := 0; w < 40; w++ {
		ip := proc.IP(12, w)
		if conn, err := net.DialTimeout("tcp", ip+":8086", 200*time.Millisecond); err == nil {
			conn.Close()
			continue
		}
		return ip
	}
	return proc.IP(12, 41)
}

// cvsPrebuild builds the four server binaries in parallel into the paths proc.Build uses
// (proc.Build serialises; its own builds then find everything up to date).
func cvsPrebuild(c *vf.Ctx) {
	var wg sync.WaitGroup
	for _, name := range []string{"ts-server", "ts-meta", "ts-store", "ts-sql"} {
		wg.Add(1)
		go func(name string) {
			defer wg.Done()
			_, _ = cvsGoBuild(c.RepoDir, filepath.Join(c.Scratch, "bin", name), name)
		}(name)
	}
	wg.Wait()
}

// cvsStart starts both systems. Failure to start is a failure of the machinery.
func cvsStart(c *vf.Ctx) (*cvsSystems, error) {
	cvsPrebuild(c)
	bin, err := proc.Build(c.RepoDir, c.Scratch, "ts-server", false)
	if err != nil {
		return nil, fmt.Errorf("build ts-server: %v", err)
	}
	sys := &cvsSystems{dir: filepath.Join(c.Scratch, "cvs")}
	memtable := map[string][]string{"data.memtable": {`write-cold-duration = "1h"`, `force-snapShot-duration = "1h"`}}
	sys.single = proc.New(proc.Config{BGOff: true, Bin: bin, Dir: filepath.Join(sys.dir, "single"), IP: cvsFreeSingleIP(), PtNum: 3, Extra: memtable})
	// proc's single-node configuration sets ignore-empty-tag = true, the cluster template leaves the
	// default (false): with different settings GROUP BY * over two measurements names different tag sets
	memtable["common"] = []string{"ignore-empty-tag = false"}
	cl, err := proc.NewCluster(c.RepoDir, c.Scratch, filepath.Join(sys.dir, "cluster"), cvsFreeBase(), false, nil)
	if err != nil {
		return nil, fmt.Errorf("cluster: %v", err)
	}
	sys.cluster = cl
	for _, st := range cl.Stores {
		st.Env = append(st.Env, "VERIF_BG_OFF=1")
	}
	errs := make(chan error, 2)
	go func() {
		if err := sys.single.Start(); err != nil {
			errs <- err
			return
		}
		errs <- sys.single.WaitReady(300 * time.Second)
	}()
	go func() { errs <- cl.StartAll(300 * time.Second) }()
	var first error
	for i := 0; i < 2; i++ {
		if err := <-errs; err != nil && first == nil {
			first = err
		}
	}
	if first != nil {
		sys.stop()
		return nil, first
	}
	sys.single.HTTP.Timeout = 90 * time.Second
	cl.Front.HTTP.Timeout = 90 * time.Second
	return sys, nil
}

func (sys *cvsSystems) stop() {
	if sys.single != nil {
		sys.single.Kill()
	}
	if sys.cluster != nil {
		sys.cluster.KillAll()
	}
	if os.Getenv("VERIF_KEEP_SCRATCH") == "" {
		os.RemoveAll(sys.dir)
	}
}

func (sys *cvsSystems) flushAll() error {
	if err := sys.single.Flush(); err != nil {
		return fmt.Errorf("single: %v", err)
	}
	for i := range sys.cluster.Stores {
		if err := sys.cluster.StoreCtl(i, "POST", "/verif/flush", ""); err != nil {
			return fmt.Errorf("store %d: %v", i+1, err)
		}
	}
	return nil
}

var cvsLayouts = []string{"files+memtable", "memtable", "files", "files+memtable"}

// cvsLoad creates the database on both systems and brings both into the layout.
func (sys *cvsSystems) load(c *vf.Ctx, d *cvsDataset, db, layout string) error {
	for _, s := range []*proc.Server{sys.single, sys.cluster.Front} {
		var err error
		for try := 0; try < 20; try++ {
			if _, err = s.Query("", "CREATE DATABASE "+db+" WITH SHARD DURATION 1h", nil); err == nil {
				break
			}
			time.Sleep(500 * time.Millisecond)
		}
		if err != nil {
			return fmt.Errorf("create database on %s: %v", s.URL(), err)
		}
	}
	parts := d.cvsParts(c.Rand(uint64(partCvsLoad)<<40|uint64(d.Index)), 400)
	write := func(part int) error {
		for _, body := range parts[part] {
			for _, s := range []*proc.Server{sys.single, sys.cluster.Front} {
				var wr proc.WriteResult
				// the first writes into a new database of the cluster can be refused while the
				// partitions come online: retried, bounded
				for try := 0; try < 40; try++ {
					if wr = s.Write(db, body, nil); wr.Acked() {
						break
					}
					time.Sleep(500 * time.Millisecond)
				}
				if !wr.Acked() {
					return fmt.Errorf("write to %s not acknowledged: %d %s %v", s.URL(), wr.Status, cvsTrunc(wr.Body, 300), wr.Err)
				}
			}
		}
		return nil
	}
	steps := map[string][]string{
		"memtable":       {"w0", "w1"},
		"files":          {"w0", "w1", "flush"},
		"files+memtable": {"w0", "flush", "w1"},
	}[layout]
	for _, st := range steps {
		var err error
		switch st {
		case "w0":
			err = write(0)
		case "w1":
			err = write(1)
		case "flush":
			err = sys.flushAll()
		}
		if err != nil {
			return fmt.Errorf("%s: %v", st, err)
		}
	}
	return nil
}

// cvsWaitVisible: visibility rule (DESIGN 4.4) on both systems.
func (sys *cvsSystems) waitVisible(d *cvsDataset, db string) error {
	var pts []model.Point
	for _, m := range d.Msts {
		for _, se := range m.Series {
			pts = append(pts, model.Point{Mst: m.Name, Tags: se})
		}
	}
	for _, s := range []*proc.Server{sys.single, sys.cluster.Front} {
		if _, err := kit.WaitSeries(s, db, pts, 180*time.Second); err != nil {
			return fmt.Errorf("%s: %v", s.URL(), err)
		}
	}
	return nil
}

func cvsQuoteIdent(s string) string {
	return `"` + strings.NewReplacer(`\`, `\\`, `"`, `\"`, "\n", `\n`).Replace(s) + `"`
}

// cvsCheckContents: precondition of every judgement — the full contents of each
// measurement read back from a system equal what was written. Returns a description of
// the first difference.
func cvsCheckContents(s *proc.Server, db string, d *cvsDataset) (string, error) {
	for _, m := range d.Msts {
		res, err := s.Query(db, "SELECT * FROM "+cvsQuoteIdent(m.Name)+" GROUP BY *", nil)
		o := cvsDecode(res, err)
		if o.Ans == nil {
			return "", fmt.Errorf("dump of %q: %s%s", m.Name, o.Err, o.Transport)
		}
		want := map[string]map[string]string{} // series key -> time -> row text by column
		for _, row := range m.Rows {
			k := cvsSeriesKey(m.Series[row.Series])
			if want[k] == nil {
				want[k] = map[string]string{}
			}
			names := make([]string, 0, len(row.Vals))
			for n := range row.Vals {
				names = append(names, n)
			}
			sort.Strings(names)
			var b strings.Builder
			for _, n := range names {
				b.WriteString(n + "=" + row.Vals[n].cell() + ";")
			}
			want[k][fmt.Sprint(row.T)] = b.String()
		}
		got := map[string]map[string]string{}
		for _, se := range o.Ans.Series {
			k := cvsSeriesKey(se.Tags)
			if got[k] == nil {
				got[k] = map[string]string{}
			}
			for _, row := range se.Rows {
				type nv struct{ n, v string }
				var cells []nv
				for ci := 1; ci < len(row) && ci < len(se.Cols); ci++ {
					if row[ci] != nil {
						cells = append(cells, nv{se.Cols[ci], cvsCellText(row[ci])})
					}
				}
				sort.Slice(cells, func(i, j int) bool { return cells[i].n < cells[j].n })
				var b strings.Builder
				for _, x := range cells {
					b.WriteString(x.n + "=" + x.v + ";")
				}
				got[k][cvsCellText(row[0])] = b.String()
			}
		}
		for k, rows := range want {
			if got[k] == nil {
				return fmt.Sprintf("%q: series {%s} missing", m.Name, k), nil
			}
			for t, w := range rows {
				if g, ok := got[k][t]; !ok {
					return fmt.Sprintf("%q {%s}: row at %s missing", m.Name, k, t), nil
				} else if g != w {
					return fmt.Sprintf("%q {%s} at %s: wrote %s, read %s", m.Name, k, t, w, g), nil
				}
			}
			if len(got[k]) != len(rows) {
				return fmt.Sprintf("%q {%s}: %d rows written, %d read", m.Name, k, len(rows), len(got[k])), nil
			}
		}
		if len(got) != len(want) {
			return fmt.Sprintf("%q: %d series written, %d read", m.Name, len(want), len(got)), nil
		}
	}
	return "", nil
}

// cvsStableContents applies cvsCheckContents until it passes or stayed the same for a
// while (a freshly written series becomes visible with a lag).
func cvsStableContents(s *proc.Server, db string, d *cvsDataset, wd time.Duration) (string, error) {
	deadline := time.Now().Add(wd)
	for {
		diff, err := cvsCheckContents(s, db, d)
		if err == nil && diff == "" {
			return "", nil
		}
		if time.Now().After(deadline) {
			return diff, err
		}
		time.Sleep(300 * time.Millisecond)
	}
}

// cvsStoresHolding counts, per measurement, the stores of the cluster that hold files of
// it (called after a final flush, so every row sits in a file).
func (sys *cvsSystems) storesHolding(db string, d *cvsDataset) map[string]int {
	out := map[string]int{}
	for _, m := range d.Msts {
		for i := range sys.cluster.Stores {
			ndir := sys.cluster.Stores[i].Dir
			dirs, _ := filepath.Glob(filepath.Join(ndir, "data", "data", db, "*", "*", "*", "tssp", "*"))
			has := false
			for _, dd := range dirs {
				base := filepath.Base(dd)
				if j := strings.LastIndexByte(base, '_'); j > 0 && base[:j] == m.Name {
					if fs, _ := filepath.Glob(filepath.Join(dd, "*.tssp")); len(fs) > 0 {
						has = true
					}
				}
			}
			if has {
				out[m.Name]++
			}
		}
	}
	return out
}

// cvsPhase is the whole black-box phase; it runs concurrently with the in-process workers.
func cvsPhase(c *vf.Ctx) {
	c.Assume("cluster-vs-single: the database is created without replication (plain CREATE DATABASE ... WITH SHARD DURATION 1h) on a 3-store cluster, so every store owns one partition and a measurement's series are hashed over them; the single node runs with ptnum-pernode=3 so that both systems cut the data into the same partitions and the difference under test is the distribution (plan/schema/option/chunk shipping), not the partitioning (C08's subject)")
	c.Assume("cluster-vs-single: a statement whose HTTP call times out or fails in transport on either system is inconclusive; a statement that both systems refuse is counted, not judged")
	nData := c.Pick(1, 4)
	nStmt := c.Pick(150, 400)
	if os.Getenv("VERIF_C12_CVS_DUMP") != "" {
		// debugging aid: print the generated statements, start nothing
		for di := 0; di < nData; di++ {
			d := cvsGenDataset(c.Rand(uint64(partCvsData)<<40|uint64(di)), di)
			for i := 0; i < nStmt; i++ {
				st := cvsGenStmt(c.Rand(uint64(partCvsStmt)<<40|uint64(d.Index)<<24|uint64(i)), d, i)
				fmt.Printf("STMT %d/%d [%s] %s   params=%s\n", di, i, st.shape(), strings.ReplaceAll(st.Text, "\n", "\\n"), st.Params)
			}
		}
		return
	}
	sys, err := cvsStart(c)
	if err != nil {
		c.Broken("cluster-vs-single: %v", err)
		return
	}
	defer sys.stop()
	for di := 0; di < nData; di++ {
		layout := cvsLayouts[di%len(cvsLayouts)]
		if only := os.Getenv("VERIF_C12_ONLY_DATASET"); only != "" && only != fmt.Sprint(di) {
			continue // debugging aid
		}
		cvsRunDataset(c, sys, di, layout, nStmt, nil)
	}
}

// cvsRunDataset loads dataset di and runs its statements (only the one given in `only`
// when replaying).
func cvsRunDataset(c *vf.Ctx, sys *cvsSystems, di int, layout string, nStmt int, only *cvsWitness) bool {
	db := fmt.Sprintf("c12d%d", di)
	d := cvsGenDataset(c.Rand(uint64(partCvsData)<<40|uint64(di)), di)
	t0 := time.Now()
	if err := sys.load(c, d, db, layout); err != nil {
		c.Broken("cluster-vs-single dataset %d: load: %v", di, err)
		return false
	}
	if err := sys.waitVisible(d, db); err != nil {
		c.Inconclusive("cluster-vs-single:series-never-visible", 1)
		fmt.Printf("INCONCLUSIVE C12 cluster-vs-single dataset %d: %v\n", di, err)
		return false
	}
	for name, s := range map[string]*proc.Server{"single": sys.single, "cluster": sys.cluster.Front} {
		diff, err := cvsStableContents(s, db, d, 60*time.Second)
		if err != nil {
			c.Broken("cluster-vs-single dataset %d: dump on %s: %v", di, name, err)
			return false
		}
		if diff != "" {
			c.Violation("cluster-vs-single|load|contents-differ-from-written:"+name, fmt.Sprintf("dataset %d (%s): SELECT * GROUP BY * on the %s differs from what was written and acknowledged: %s", di, layout, name, diff),
				map[string]any{"kind": "cluster-vs-single-load", "seed": c.Seed, "dataset": di, "layout": layout, "system": name, "diff": diff})
			return false
		}
	}
	c.Count("cluster-vs-single:datasets-loaded", 1)
	c.Distinct("cluster-vs-single:layout", layout)
	c.Extra(fmt.Sprintf("cluster-vs-single:dataset-%d", di), d.describe())
	loadDur := time.Since(t0)
	if hold := os.Getenv("VERIF_C12_HOLD"); hold != "" {
		dur, _ := time.ParseDuration(hold)
		fmt.Printf("HOLD: single %s  cluster %s  db %s (load took %s); sleeping %s\n", sys.single.URL(), sys.cluster.Front.URL(), db, loadDur, dur)
		time.Sleep(dur)
	}
	ok := cvsRunStatements(c, sys, d, db, layout, nStmt, only)
	// where do the rows of each measurement live (after a final flush every row is in a file)
	if only == nil {
		if err := sys.flushAll(); err == nil {
			holding := sys.storesHolding(db, d)
			for m, n := range holding {
				c.Distinct("cluster-vs-single:stores-holding-measurement", fmt.Sprintf("dataset %d %q: %d stores", di, m, n))
			}
			cvsSettleNontrivial(c, di, holding)
		} else {
			c.Inconclusive("cluster-vs-single:final-flush-failed", 1)
		}
	}
	return ok
}
