package main

// Text generators following the InfluxQL grammar (sql.y and the hand-written parser).
// A generated case is TEXT; the tree under test is whatever the real parsers build from
// it. Every choice comes from the *rand.Rand handed in (PCG stream of seed, part, index).

import (
	"fmt"
	"math"
	"math/rand/v2"
	"strconv"
	"strings"
)

type gen struct {
	// plain restricts expressions to forms whose text round trip is not affected by the
	// expression-level findings (integral floats, unary minus on non-literals, AND/OR mixed
	// without parentheses, bound parameters); used where the clause structure of statements
	// and sources is the subject and expressions are covered by the expression parts.
	plain bool
	r     *rand.Rand
	// sch != nil: typed expressions over the columns of a loaded measurement (phase
	// cluster-vs-single, gen_schema.go); comparison() and arith() then draw their operands
	// from the schema, the AND/OR/parenthesis structure stays the one generated here
	sch    *genSchema
	params map[string]interface{} // bound parameters used by the text
	feat   map[string]bool        // grammar features the text contains (coverage)
}

func newGen(r *rand.Rand) *gen {
	return &gen{r: r, params: map[string]interface{}{}, feat: map[string]bool{}}
}

func (g *gen) f(name string) { g.feat[name] = true }

func (g *gen) pick(ss ...string) string { return ss[g.r.IntN(len(ss))] }
func (g *gen) p(prob float64) bool      { return g.r.Float64() < prob }

// precedence levels of the documented language (token.go Precedence)
const (
	precOr   = 1
	precAnd  = 2
	precCmp  = 3
	precAdd  = 4
	precMul  = 5
	precAtom = 9
)

type piece struct {
	s    string
	prec int
}

var plainIdents = []string{"a", "b", "c", "f1", "host", "usage_user", "v", "_x", "Region", "value"}

// identifiers that need double quotes (keywords, spaces, dots, leading digit, quotes,
// backslash, newline, unicode, empty)
var quotedIdents = []string{
	`"select"`, `"from"`, `"time zone"`, `"a.b"`, `"1abc"`, `"a-b"`, `"a\"b"`, `"a\\b"`, `"a\nb"`,
	`"héllo"`, `"日本"`, `"a'b"`, `"and"`, `"x y z"`, `"a,b"`, `"a/b"`, `"tag"`, `"field"`, `"all"`, `"In"`,
}

var varTypes = []string{"float", "integer", "string", "boolean", "tag", "field", "unsigned"}

func (g *gen) ident() string {
	if g.p(0.25) {
		g.f("ident:quoted")
		return g.pick(quotedIdents...)
	}
	if g.p(0.1) {
		g.f("ident:quoted-plain") // quotes that are not needed
		return `"` + g.pick(plainIdents...) + `"`
	}
	return g.pick(plainIdents...)
}

func (g *gen) varRef() string {
	s := g.ident()
	if g.p(0.2) {
		g.f("varref:typed")
		s += "::" + g.pick(varTypes...)
	}
	return s
}

var stringPool = []string{
	`''`, `'x'`, `'server01'`, `'it\'s'`, `'say \"hi\"'`, `'back\\slash'`, `'line\nbreak'`, `'tab	in'`,
	`'héllo wörld'`, `'日本語'`, `'emoji 😀'`, `'a"b'`, `'%like%'`, `'/not/regex/'`, `'-- no comment'`,
	`'2020-01-02T03:04:05Z'`, `'2020-01-02'`, `'2020-01-02 03:04:05'`, `'2020-01-02T03:04:05.123456789Z'`,
	`'1'`, `'1.0'`, `'true'`, `'a\\'`, `'\\\''`, `'\\n'`, `' lead and trail '`, `'semi;colon'`, `'$dollar'`,
}

func (g *gen) str() string {
	if g.p(0.3) {
		// random string built from a hostile alphabet
		alpha := []string{"a", "Z", "0", " ", `\'`, `\"`, `\\`, `\n`, "é", "漢", "/", "*", "-", "(", ")", ",", ";", "=", "\t", "%", "."}
		n := g.r.IntN(8)
		var b strings.Builder
		b.WriteByte('\'')
		for i := 0; i < n; i++ {
			b.WriteString(alpha[g.r.IntN(len(alpha))])
		}
		b.WriteByte('\'')
		g.f("string:random")
		return b.String()
	}
	s := g.pick(stringPool...)
	switch {
	case strings.Contains(s, `\'`):
		g.f("string:escaped-quote")
	case strings.Contains(s, `\\`):
		g.f("string:backslash")
	case strings.Contains(s, `\n`):
		g.f("string:newline")
	case strings.HasPrefix(s, "'2020"):
		g.f("string:time-literal")
	}
	for _, c := range s {
		if c > 127 {
			g.f("string:unicode")
			break
		}
	}
	return s
}

func (g *gen) integer() string {
	switch g.r.IntN(10) {
	case 0:
		g.f("int:max64")
		return "9223372036854775807"
	case 1:
		g.f("int:min64")
		return "-9223372036854775808"
	case 2:
		g.f("int:max64+1")
		return "9223372036854775808"
	case 3:
		g.f("int:maxuint64")
		return "18446744073709551615"
	case 4:
		g.f("int:zero")
		return "0"
	case 5:
		g.f("int:negative")
		return "-" + strconv.Itoa(1+g.r.IntN(1000))
	case 6:
		g.f("int:big")
		return strconv.FormatInt(g.r.Int64N(math.MaxInt64), 10)
	default:
		return strconv.Itoa(g.r.IntN(100))
	}
}

func (g *gen) float() string {
	if g.plain {
		return strconv.Itoa(g.r.IntN(1000)) + "." + strconv.Itoa(1+g.r.IntN(8)) + "5"
	}
	switch g.r.IntN(14) {
	case 0:
		g.f("float:integral")
		return strconv.Itoa(g.r.IntN(50)) + ".0"
	case 1:
		g.f("float:integral")
		return "2.0"
	case 2:
		g.f("float:leading-dot")
		return "." + strconv.Itoa(1+g.r.IntN(99))
	case 3:
		g.f("float:trailing-dot")
		return strconv.Itoa(g.r.IntN(50)) + "."
	case 4:
		g.f("float:exponent") // not in the scanner's number syntax: expected to be rejected or cut
		return g.pick("1e5", "1.5e3", "2E-3", "1.0e+10", "6.02e23")
	case 5:
		g.f("float:huge")
		return g.pick("100000000000000000000.0", "9223372036854775808.0", "18446744073709551616.5", "123456789012345678901234567890.0")
	case 6:
		g.f("float:huge-negative")
		return g.pick("-100000000000000000000.0", "-9223372036854775809.0", "-18446744073709551616.0")
	case 7:
		g.f("float:tiny")
		return g.pick("0.000000001", "0.0000000000000000001", "0.1", "0.30000000000000004")
	case 8:
		g.f("float:int64-edge")
		return g.pick("9223372036854775807.0", "-9223372036854775808.0", "9007199254740993.0", "4611686018427387904.0")
	case 9:
		g.f("float:negative")
		return "-" + strconv.FormatFloat(g.r.Float64()*100, 'f', g.r.IntN(6), 64)
	case 10:
		g.f("float:17digits")
		return strconv.FormatFloat(g.r.Float64()*1000, 'f', -1, 64)
	case 11:
		g.f("float:negative-integral")
		return "-" + strconv.Itoa(1+g.r.IntN(50)) + ".0"
	default:
		return strconv.FormatFloat(float64(g.r.IntN(100000))/1000, 'f', -1, 64)
	}
}

func (g *gen) duration() string {
	g.f("duration")
	switch g.r.IntN(8) {
	case 0:
		g.f("duration:multi-unit")
		return g.pick("1h30m", "2d12h", "1m30s", "1s500ms", "1w2d")
	case 1:
		g.f("duration:micro")
		return g.pick("1u", "15µ", "999u")
	case 2:
		return g.pick("1ns", "0s", "1500ms", "90m", "36h", "14d", "52w")
	case 3:
		if g.plain {
			return "7s"
		}
		g.f("duration:negative")
		return "-" + strconv.Itoa(1+g.r.IntN(59)) + g.pick("s", "m", "h")
	default:
		return strconv.Itoa(1+g.r.IntN(500)) + g.pick("ns", "u", "ms", "s", "m", "h", "d", "w")
	}
}

var regexPool = []string{
	`/a/`, `/^server.*$/`, `/a\/b/`, `/\/var\/log\//`, `/[a-z]+\d*/`, `/(?i)Host/`, `/a|b/`, `/\./`, `/\\/`,
	`/héllo/`, `/a b/`, `/^$/`, `/.*/`, `/x{2,3}/`, `/\/\//`, `/a\\\/b/`, `/'quoted'/`, `/"dq"/`, `/\s+/`, `/[^\/]+/`,
}

func (g *gen) regex() string {
	g.f("regex")
	if g.p(0.35) {
		parts := []string{"a", "B", "7", `\/`, `\.`, ".*", "[a-z]", "(?i)", "^", "$", "|", `\d+`, `\\`, "é", " ", "(x)", `\w`, "+", "-", "'"}
		n := 1 + g.r.IntN(6)
		var b strings.Builder
		b.WriteByte('/')
		for i := 0; i < n; i++ {
			b.WriteString(parts[g.r.IntN(len(parts))])
		}
		b.WriteByte('/')
		g.f("regex:random")
		if strings.Contains(b.String(), `\/`) {
			g.f("regex:slash")
		}
		return b.String()
	}
	s := g.pick(regexPool...)
	if strings.Contains(s, `\/`) {
		g.f("regex:slash")
	}
	return s
}

func (g *gen) boundParam() string {
	if g.plain {
		return g.varRef()
	}
	name := "p" + strconv.Itoa(len(g.params))
	g.f("boundparam")
	switch g.r.IntN(7) {
	case 0:
		g.params[name] = int64(g.r.IntN(1000)) - 500
	case 1:
		g.params[name] = g.pick("plain", "it's", `back\slash`, "new\nline", "quote\"d", "ünï")
		g.f("boundparam:string")
	case 2:
		g.params[name] = g.pick("carriage\rreturn", "nul\x00byte", "\r\n")
		g.f("boundparam:string-cr-nul")
	case 3:
		g.params[name] = float64(g.r.IntN(100))
		g.f("boundparam:float-integral")
	case 4:
		g.params[name] = g.r.Float64()*2000 - 1000
	case 5:
		g.params[name] = g.p(0.5)
	default:
		g.params[name] = []float64{1e300, -1e300, 1e-300, -2.5e19, 1e21}[g.r.IntN(5)]
		g.f("boundparam:float-extreme")
	}
	return "$" + name
}

var callNames = []string{"mean", "sum", "count", "max", "min", "first", "last", "abs", "floor", "pow", "percentile", "top", "derivative", "moving_average", "myFunc", "str", "now", "elapsed", "f"}

func (g *gen) call(d int) string {
	name := g.pick(callNames...)
	if g.p(0.15) {
		name = strings.ToUpper(name)
		g.f("call:uppercase-name")
	}
	ar := g.r.IntN(5)
	if name == "now" || name == "NOW" {
		ar = 0
	}
	g.f("call:arity" + strconv.Itoa(ar))
	args := make([]string, 0, ar)
	for i := 0; i < ar; i++ {
		switch {
		case i == 0 && g.p(0.08):
			g.f("call:wildcard-arg")
			args = append(args, g.pick("*", "*::field", "*::tag"))
		case i == 0 && g.p(0.06):
			g.f("call:regex-arg")
			args = append(args, g.regex())
		case i == 0 && g.p(0.06):
			g.f("call:distinct-arg")
			args = append(args, g.pick("distinct(", "DISTINCT(")+g.pick(plainIdents...)+")")
		default:
			a := g.arith(d - 1)
			args = append(args, a.s)
		}
	}
	sep := g.pick(", ", ",", " , ")
	return name + "(" + strings.Join(args, sep) + ")"
}

func (g *gen) atom(d int) piece {
	switch k := g.r.IntN(100); {
	case k < 32:
		return piece{g.varRef(), precAtom}
	case k < 46:
		return piece{g.integer(), precAtom}
	case k < 62:
		return piece{g.float(), precAtom}
	case k < 70:
		return piece{g.str(), precAtom}
	case k < 76:
		return piece{g.duration(), precAtom}
	case k < 88 && d > 0:
		return piece{g.call(d), precAtom}
	case k < 91:
		g.f("bool-literal")
		return piece{g.pick("true", "false", "TRUE", "False"), precAtom}
	case k < 94:
		return piece{g.boundParam(), precAtom}
	default:
		return piece{g.varRef(), precAtom}
	}
}

var addOps = []string{"+", "-", "|", "^"}
var mulOps = []string{"*", "/", "%", "&"}

func (g *gen) sp() string {
	switch g.r.IntN(12) {
	case 0:
		return "  "
	case 1:
		return "\n"
	case 2:
		return "\t"
	case 3:
		return " \n  "
	default:
		return " "
	}
}

// wrap puts s in parentheses (possibly twice).
func (g *gen) wrap(s string) string {
	if g.p(0.1) {
		g.f("parens:double")
		return "((" + s + "))"
	}
	return "(" + s + ")"
}

func (g *gen) operand(x piece, needed bool) string {
	if needed {
		g.f("parens:needed")
		return g.wrap(x.s)
	}
	if g.p(0.12) {
		g.f("parens:redundant")
		return g.wrap(x.s)
	}
	return x.s
}

// arith generates an arithmetic expression (the COLUMN nonterminal).
func (g *gen) arith(d int) piece {
	if g.sch != nil {
		return g.sArith(d)
	}
	if d <= 0 || g.p(0.3) {
		a := g.atom(d)
		if g.p(0.06) {
			g.f("parens:around-atom")
			a.s = g.wrap(a.s)
		}
		return a
	}
	if !g.plain && g.p(0.1) {
		// unary minus / plus on a non-literal
		x := g.arith(d - 1)
		sign := "-"
		if g.p(0.15) {
			sign = "+"
			g.f("unary:plus")
		} else {
			g.f("unary:minus")
		}
		s := x.s
		if x.prec < precAtom || strings.HasPrefix(s, "-") || strings.HasPrefix(s, "+") || g.p(0.3) {
			s = "(" + s + ")"
			g.f("unary:on-parens")
		}
		return piece{sign + g.pick("", "", " ") + s, precMul + 1}
	}
	var op string
	var prec int
	if g.p(0.5) {
		op, prec = g.pick(addOps...), precAdd
	} else {
		op, prec = g.pick(mulOps...), precMul
	}
	g.f("op:" + op)
	l, r := g.arith(d-1), g.arith(d-1)
	if l.prec < precAtom {
		g.f(fmt.Sprintf("nest:L%d-in-%d", l.prec, prec))
	}
	if r.prec < precAtom {
		g.f(fmt.Sprintf("nest:R%d-in-%d", r.prec, prec))
	}
	ls := g.operand(l, l.prec < prec)
	rs := g.operand(r, r.prec <= prec)
	return piece{ls + g.sp() + op + g.sp() + rs, prec}
}

var cmpOps = []string{"=", "!=", "<>", "<", "<=", ">", ">="}

func (g *gen) kw(s string) string {
	switch g.r.IntN(6) {
	case 0:
		return strings.ToLower(s)
	case 1:
		return strings.ToUpper(s[:1]) + strings.ToLower(s[1:])
	default:
		return s
	}
}

func (g *gen) comparison(d int) piece {
	if g.sch != nil {
		return g.sComparison(d)
	}
	switch k := g.r.IntN(100); {
	case k < 62:
		op := g.pick(cmpOps...)
		g.f("op:" + op)
		l, r := g.arith(d-1), g.arith(d-1)
		return piece{l.s + g.sp() + op + g.sp() + r.s, precCmp}
	case k < 76:
		op := g.pick("=~", "!~")
		g.f("op:" + op)
		return piece{g.varRef() + g.sp() + op + g.pick(" ", "", "  ") + g.regex(), precCmp}
	case k < 82:
		g.f("op:IN")
		n := 1 + g.r.IntN(4)
		vals := make([]string, n)
		for i := range vals {
			switch g.r.IntN(3) {
			case 0:
				vals[i] = g.str()
			case 1:
				vals[i] = strconv.Itoa(g.r.IntN(100))
			default:
				vals[i] = g.float()
			}
		}
		op := g.kw("IN")
		if g.p(0.3) {
			op = g.kw("NOT") + " " + g.kw("IN")
			g.f("op:NOT IN")
		}
		return piece{g.pick(plainIdents...) + " " + op + " (" + strings.Join(vals, g.pick(", ", ",")) + ")", precCmp}
	case k < 86:
		g.f("op:LIKE")
		return piece{g.varRef() + " " + g.kw("LIKE") + " " + g.str(), precCmp}
	case k < 90:
		fn := g.pick("match", "matchphrase", "ipinrange")
		g.f("op:" + fn)
		return piece{fn + "(" + g.pick(plainIdents...) + ", " + g.str() + ")", precCmp}
	case k < 95 && d > 0:
		// comparison of two parenthesised conditions: (a > 1) = (b < 2)
		g.f("cmp-of-conditions")
		l, r := g.cond(d-1), g.cond(d-1)
		return piece{"(" + l.s + ") " + g.pick("=", "!=") + " (" + r.s + ")", precCmp}
	default:
		g.f("time-bound")
		rhs := g.pick("now()", "now() - 5m", "'2020-01-02T03:04:05Z'", "'2020-01-02'", "1577934245000000000", "1577934245s", "now() + 1h30m")
		return piece{"time " + g.pick(">", ">=", "<", "<=", "=") + " " + rhs, precCmp}
	}
}

// cond generates a condition (the CONDITION nonterminal), with AND binding tighter than
// OR as the language reference defines it.
func (g *gen) cond(d int) piece {
	if d <= 0 || g.p(0.35) {
		c := g.comparison(d)
		if g.p(0.08) {
			g.f("parens:around-comparison")
			c.s = g.wrap(c.s)
			c.prec = precAtom
		}
		return c
	}
	op, prec := "AND", precAnd
	if g.p(0.5) {
		op, prec = "OR", precOr
	}
	g.f("op:" + op)
	l, r := g.cond(d-1), g.cond(d-1)
	if l.prec < precCmp {
		g.f(fmt.Sprintf("nest:L%d-in-%d", l.prec, prec))
	}
	if r.prec < precCmp {
		g.f(fmt.Sprintf("nest:R%d-in-%d", r.prec, prec))
	}
	// plain: never rely on AND binding tighter than OR (the yacc grammar does not implement it)
	ls := g.operand(l, l.prec < prec || (g.plain && l.prec < precCmp && l.prec != prec))
	rs := g.operand(r, r.prec <= prec || (g.plain && r.prec < precCmp))
	return piece{ls + g.sp() + g.kw(op) + g.sp() + rs, prec}
}

// ---- sources, sort fields, statements

func (g *gen) mstName() string {
	return g.pick("m", "cpu", "mst_1", `"my mst"`, `"m.dot"`, `"select"`, `"m\"q"`, `"日本"`, `"1m"`, `"m-1"`)
}

func (g *gen) measurement() string {
	name := g.mstName()
	if g.p(0.15) {
		g.f("source:regex")
		name = g.regex()
	}
	switch g.r.IntN(6) {
	case 0:
		g.f("source:db.rp.m")
		return g.pick("db0", `"my db"`, `"db.x"`) + "." + g.pick("autogen", `"r p"`, "rp1") + "." + name
	case 1:
		g.f("source:db..m")
		return g.pick("db0", `"my db"`) + ".." + name
	case 2:
		g.f("source:rp.m")
		return g.pick("autogen", `"r p"`) + "." + name
	default:
		return name
	}
}

func (g *gen) source(d int) string {
	if d > 0 && g.p(0.15) {
		g.f("source:subquery")
		s := "(" + g.selectStmt(d-1) + ")"
		if g.p(0.3) {
			g.f("source:alias")
			s += " AS " + g.pick("t1", "sq", `"al ias"`)
		}
		return s
	}
	s := g.measurement()
	if g.p(0.1) && !strings.HasSuffix(s, "/") {
		g.f("source:alias")
		s += " AS " + g.pick("t1", "x", `"al ias"`)
	}
	return s
}

func (g *gen) sortFields() string {
	g.f("orderby")
	n := 1
	if g.p(0.4) {
		n = 1 + g.r.IntN(3)
	}
	parts := make([]string, n)
	for i := range parts {
		name := "time"
		if i > 0 || g.p(0.5) {
			name = g.ident()
		}
		parts[i] = name + g.pick("", " ASC", " DESC", " desc", " asc")
	}
	return strings.Join(parts, g.pick(", ", ","))
}

func (g *gen) field(d int) string {
	switch k := g.r.IntN(20); {
	case k == 0:
		g.f("field:wildcard")
		return g.pick("*", "*::field", "*::tag")
	case k < 4:
		return g.varRef()
	}
	s := g.arith(d).s
	if g.p(0.3) {
		g.f("field:alias")
		s += " " + g.kw("AS") + " " + g.pick("x", "alias1", `"an alias"`, `"select"`, `"a\"q"`)
	}
	return s
}

func (g *gen) dimension() string {
	switch k := g.r.IntN(10); {
	case k < 2:
		g.f("groupby:time")
		return "time(" + g.duration0() + ")"
	case k < 3:
		g.f("groupby:time-offset")
		return "time(" + g.duration0() + ", " + g.pick("1s", "-1s", "30m", "now()") + ")"
	case k < 4:
		g.f("groupby:wildcard")
		return "*"
	case k < 5:
		g.f("groupby:regex")
		return g.regex()
	default:
		return g.ident()
	}
}

func (g *gen) duration0() string {
	return strconv.Itoa(1+g.r.IntN(120)) + g.pick("s", "m", "h", "d", "ms")
}

func (g *gen) fill() string {
	g.f("fill")
	switch g.r.IntN(8) {
	case 0:
		return "fill(null)"
	case 1:
		return "fill(none)"
	case 2:
		return "fill(previous)"
	case 3:
		return "fill(linear)"
	case 4:
		g.f("fill:int")
		return "fill(" + strconv.Itoa(g.r.IntN(100)) + ")"
	case 5:
		g.f("fill:float")
		return "fill(" + strconv.FormatFloat(float64(g.r.IntN(1000))/8, 'f', -1, 64) + ")"
	case 6:
		g.f("fill:negative")
		return "fill(-" + strconv.Itoa(1+g.r.IntN(100)) + ")"
	default:
		g.f("fill:float-integral")
		return "fill(" + strconv.Itoa(g.r.IntN(100)) + ".0)"
	}
}

func (g *gen) selectStmt(d int) string {
	var b strings.Builder
	b.WriteString(g.kw("SELECT") + " ")
	nf := 1 + g.r.IntN(3)
	for i := 0; i < nf; i++ {
		if i > 0 {
			b.WriteString(g.pick(", ", ","))
		}
		b.WriteString(g.field(d))
	}
	b.WriteString(" " + g.kw("FROM") + " ")
	ns := 1
	if g.p(0.15) {
		ns = 2
		g.f("source:multiple")
	}
	for i := 0; i < ns; i++ {
		if i > 0 {
			b.WriteString(", ")
		}
		b.WriteString(g.source(d))
	}
	if g.p(0.7) {
		b.WriteString(" " + g.kw("WHERE") + " " + g.cond(d).s)
	}
	if g.p(0.5) {
		g.f("groupby")
		nd := 1 + g.r.IntN(3)
		dims := make([]string, nd)
		for i := range dims {
			dims[i] = g.dimension()
		}
		b.WriteString(" " + g.kw("GROUP") + " " + g.kw("BY") + " " + strings.Join(dims, ", "))
	}
	if g.p(0.3) {
		b.WriteString(" " + g.fill())
	}
	if g.p(0.35) {
		b.WriteString(" " + g.kw("ORDER") + " " + g.kw("BY") + " " + g.sortFields())
	}
	if g.p(0.3) {
		g.f("limit")
		b.WriteString(" LIMIT " + strconv.Itoa(g.r.IntN(1000)))
	}
	if g.p(0.2) {
		g.f("offset")
		b.WriteString(" OFFSET " + strconv.Itoa(g.r.IntN(1000)))
	}
	if g.p(0.15) {
		g.f("slimit")
		b.WriteString(" SLIMIT " + strconv.Itoa(g.r.IntN(100)))
	}
	if g.p(0.1) {
		g.f("soffset")
		b.WriteString(" SOFFSET " + strconv.Itoa(g.r.IntN(100)))
	}
	if g.p(0.12) {
		g.f("tz")
		b.WriteString(" tz('" + g.pick("UTC", "Asia/Shanghai", "America/New_York", "Europe/Berlin") + "')")
	}
	return b.String()
}
