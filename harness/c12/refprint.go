package main

// A reference printer owned by the harness. It is used only to EXPLAIN a failed round
// trip of influxql's String(): if the same tree printed with (a) parentheses around
// operands that need them and/or (b) a fraction on integral number literals does round
// trip, then the missing parentheses / the missing fraction are the whole reason, and the
// finding signature says exactly that.

import (
	"strings"

	"github.com/openGemini/openGemini/lib/util/lifted/influx/influxql"
)

type refOpts struct {
	parens bool // parenthesise operands that bind weaker than their parent
	typed  bool // integral NumberLiteral keeps ".0"
	noCR   bool // CR and NUL inside string literals replaced by '?'
}

func isIntText(s string) bool {
	if strings.HasPrefix(s, "-") {
		s = s[1:]
	}
	if s == "" {
		return false
	}
	for _, c := range s {
		if c < '0' || c > '9' {
			return false
		}
	}
	return true
}

func refRender(b *strings.Builder, e influxql.Expr, o refOpts) {
	switch x := e.(type) {
	case *influxql.BinaryExpr:
		refOperand(b, x, x.LHS, false, o)
		b.WriteString(" " + x.Op.String() + " ")
		refOperand(b, x, x.RHS, true, o)
	case *influxql.ParenExpr:
		b.WriteString("(")
		refRender(b, x.Expr, o)
		b.WriteString(")")
	case *influxql.Call:
		b.WriteString(x.Name + "(")
		for i, a := range x.Args {
			if i > 0 {
				b.WriteString(", ")
			}
			refRender(b, a, o)
		}
		b.WriteString(")")
	case *influxql.NumberLiteral:
		s := x.String()
		if o.typed && isIntText(s) {
			s += ".0"
		}
		b.WriteString(s)
	case *influxql.StringLiteral:
		if o.noCR && strings.ContainsAny(x.Val, "\r\x00") {
			v := strings.NewReplacer("\r", "?", "\x00", "?").Replace(x.Val)
			b.WriteString(influxql.QuoteString(v))
			return
		}
		b.WriteString(x.String())
	default:
		b.WriteString(e.String())
	}
}

func refOperand(b *strings.Builder, parent *influxql.BinaryExpr, operand influxql.Expr, right bool, o refOpts) {
	need := false
	if c, ok := operand.(*influxql.BinaryExpr); ok && c != nil && o.parens {
		p, q := parent.Op.Precedence(), c.Op.Precedence()
		need = q < p || (right && q == p)
	}
	if need {
		b.WriteString("(")
	}
	refRender(b, operand, o)
	if need {
		b.WriteString(")")
	}
}

// stripCR returns a copy of the canonical comparison target: e with CR/NUL replaced the
// same way refRender(noCR) prints them.
func canonNoCR(s string) string {
	return strings.NewReplacer(`\r`, "?", `\x00`, "?").Replace(s)
}

// explainString tries the reference printer variants on a tree whose String() failed to
// round trip. It returns the smallest set of repairs under which the tree does round trip
// (modulo paren wrappers), or "" if none does.
func explainString(e influxql.Expr) string {
	type variant struct {
		name string
		o    refOpts
	}
	variants := []variant{
		{"omits-needed-parens", refOpts{parens: true}},
		{"integral-number-printed-as-integer", refOpts{typed: true}},
		{"omits-needed-parens+integral-number-printed-as-integer", refOpts{parens: true, typed: true}},
		{"string-literal-with-cr-or-nul", refOpts{noCR: true}},
		{"string-literal-with-cr-or-nul+omits-needed-parens", refOpts{noCR: true, parens: true}},
		{"string-literal-with-cr-or-nul+integral-number-printed-as-integer", refOpts{noCR: true, typed: true}},
		{"string-literal-with-cr-or-nul+omits-needed-parens+integral-number-printed-as-integer", refOpts{noCR: true, parens: true, typed: true}},
	}
	// a repair can only be the reason if the tree has what it repairs: an operand that
	// needs parentheses and is not a ParenExpr, an integral number literal, a string with
	// CR/NUL. (Otherwise e.g. a printer that drops the parentheses of ParenExpr nodes would
	// be "explained" by the reference printer writing them.)
	has := map[string]bool{}
	for _, cse := range causes(e) {
		switch cse {
		case "binary-child-needs-parens-but-has-none":
			has["omits-needed-parens"] = true
		case "numlit-integral", "numlit-integral-below-minint64":
			has["integral-number-printed-as-integer"] = true
		case "string-with-cr-or-nul":
			has["string-literal-with-cr-or-nul"] = true
		}
	}
	want := canon(e, canonOpts{stripParens: true, timeAsString: true})
	for _, v := range variants {
		applicable := true
		for _, part := range strings.Split(v.name, "+") {
			if !has[part] {
				applicable = false
			}
		}
		if !applicable {
			continue
		}
		var b strings.Builder
		refRender(&b, e, v.o)
		got, err := rdParseExpr(b.String(), nil)
		if err != nil || got == nil {
			continue
		}
		w := want
		if v.o.noCR {
			w = canonNoCR(want)
		}
		if canon(got, canonOpts{stripParens: true, timeAsString: true}) == w {
			return v.name
		}
	}
	return ""
}
