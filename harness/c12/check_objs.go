package main

// Part 2: the shipping codecs themselves. Objects are built from generated SELECTs the
// way the sql node builds them (yacc parser -> query.NewProcessorOptionsStmt ->
// influxql.ConditionExpr for the condition and the time range), every other field that
// has a slot in the wire message is randomised, and the object goes through the real
// Marshal/Unmarshal pair, framed by rpc.Message as on the wire.

import (
	"fmt"
	"math"
	"math/rand/v2"
	"regexp"
	"strconv"
	"strings"
	"time"

	"verifharness/vf"

	"github.com/openGemini/openGemini/engine/executor"
	"github.com/openGemini/openGemini/engine/hybridqp"
	"github.com/openGemini/openGemini/lib/config"
	"github.com/openGemini/openGemini/lib/obs"
	"github.com/openGemini/openGemini/lib/spdy/rpc"
	"github.com/openGemini/openGemini/lib/util/lifted/influx/influxql"
	"github.com/openGemini/openGemini/lib/util/lifted/influx/query"
	internal "github.com/openGemini/openGemini/lib/util/lifted/influx/query/proto"
	"google.golang.org/protobuf/proto"
)

// ---------------------------------------------------------------- ProcessorOptions

var locNames = []string{"UTC", "Asia/Shanghai", "America/New_York", "Europe/Berlin", "Local"}

func randMeasurement(r *rand.Rand, g *gen) *influxql.Measurement {
	m := &influxql.Measurement{
		Database:        []string{"", "db0", "my db", "d.b"}[r.IntN(4)],
		RetentionPolicy: []string{"", "autogen", "r p"}[r.IntN(3)],
		Name:            []string{"m", "cpu", "my mst", "m.dot", "日本", "select"}[r.IntN(6)],
		SystemIterator:  []string{"", "", "", "_series"}[r.IntN(4)],
		IsTarget:        r.IntN(4) == 0,
		EngineType:      config.EngineType(r.IntN(3)),
		IsTimeSorted:    r.IntN(2) == 0,
	}
	if r.IntN(5) == 0 {
		m.Name = ""
		src := strings.Trim(g.regex(), "/")
		src = strings.ReplaceAll(src, `\/`, "/")
		if re, err := regexp.Compile(src); err == nil {
			m.Regex = &influxql.RegexLiteral{Val: re}
		} else {
			m.Name = "m"
		}
	}
	if r.IntN(3) == 0 {
		n := r.IntN(3)
		ir := &influxql.IndexRelation{Rid: r.Uint32(), Oids: []uint32{}, IndexNames: []string{}}
		for i := 0; i < n; i++ {
			ir.Oids = append(ir.Oids, r.Uint32N(10))
			ir.IndexNames = append(ir.IndexNames, []string{"bloomfilter", "text", "field", "timecluster"}[r.IntN(4)])
			ir.IndexList = append(ir.IndexList, &influxql.IndexList{IList: []string{"c" + strconv.Itoa(i), "héllo"}[:1+r.IntN(2)]})
			opts := &influxql.IndexOptions{}
			for j := 0; j < r.IntN(3); j++ {
				opts.Options = append(opts.Options, &influxql.IndexOption{
					Tokens: []string{"", ",;: ", "/-"}[r.IntN(3)], Tokenizers: []string{"", "standard"}[r.IntN(2)],
					TimeClusterDuration: time.Duration(r.Int64N(1e12)),
				})
			}
			ir.IndexOptions = append(ir.IndexOptions, opts)
		}
		m.IndexRelation = ir
	}
	if r.IntN(4) == 0 {
		m.ObsOptions = &obs.ObsOptions{Enabled: r.IntN(2) == 0, BucketName: "bkt", Ak: "ak\x00", Sk: "s k", Endpoint: "https://e/p?x=1", BasePath: "a/b/ü"}
	}
	return m
}

// buildOptions makes the options object of case i. ok=false: the real parser or planner
// rejected the generated statement (outside the quantifier).
func buildOptions(c *vf.Ctx, part, i int) (opt *query.ProcessorOptions, text string, feats map[string]bool, why string) {
	r := caseRand(c, part, i)
	g := newGen(r)
	var st *influxql.SelectStatement
	var err error
	for try := 0; try < 4; try++ {
		text = g.selectStmt(1)
		if st, err = yaccSelect(text, g.params); err == nil {
			break
		}
	}
	if err != nil {
		return nil, text, g.feat, "rejected-by-yacc"
	}
	var o query.ProcessorOptions
	if p := catchW(func() {
		o, err = query.NewProcessorOptionsStmt(st, query.SelectOptions{
			MaxSeriesN: r.IntN(1000), ChunkSize: r.IntN(10000), MaxQueryParallel: r.IntN(64),
		})
	}); p != nil {
		return nil, text, g.feat, "planner-panic:NewProcessorOptionsStmt"
	}
	if err != nil {
		return nil, text, g.feat, "rejected-by-planner"
	}
	// query.compiledStatement.preprocess
	if st.Condition != nil {
		var cond influxql.Expr
		var tr influxql.TimeRange
		if p := catchW(func() {
			valuer := influxql.NowValuer{Now: fixedNow, Location: st.Location}
			cond, tr, err = influxql.ConditionExpr(st.Condition, &valuer)
		}); p != nil {
			return nil, text, g.feat, "planner-panic:ConditionExpr"
		}
		if err != nil {
			return nil, text, g.feat, "rejected-by-planner"
		}
		o.Condition = cond
		if !tr.Min.IsZero() {
			o.StartTime = tr.MinTimeNano()
		}
		if !tr.Max.IsZero() {
			o.EndTime = tr.MaxTimeNano()
		}
	}
	// the statement's fields, reduced, as opt.Expr (any expression may sit there)
	if len(st.Fields) > 0 && r.IntN(2) == 0 {
		catchW(func() {
			valuer := influxql.NowValuer{Now: fixedNow}
			o.Expr = influxql.Reduce(st.Fields[0].Expr, &valuer)
		})
		if _, isWild := o.Expr.(*influxql.Wildcard); isWild {
			o.Expr = nil
		}
	}
	if r.IntN(3) == 0 {
		vc := newGen(r)
		if e, err := rdParseExpr(vc.cond(1).s, nil); err == nil {
			o.ValueCondition = e
		}
	}
	o.SortFields = st.SortFields
	for _, s := range st.Sources {
		if m, ok := s.(*influxql.Measurement); ok {
			o.Sources = append(o.Sources, m)
		}
	}
	for n := r.IntN(3); n > 0; n-- {
		o.Sources = append(o.Sources, randMeasurement(r, g))
	}
	o.Name = []string{"", "m", "my mst", "日本"}[r.IntN(4)]
	for n := r.IntN(4); n > 0; n-- {
		o.Aux = append(o.Aux, influxql.VarRef{Val: strings.Trim(g.ident(), `"`), Type: influxql.DataType(r.IntN(10))})
	}
	if r.IntN(2) == 0 && o.Location == nil {
		if loc, err := time.LoadLocation(locNames[r.IntN(len(locNames))]); err == nil {
			o.Location = loc
		}
	}
	if r.IntN(3) == 0 {
		o.StartTime, o.EndTime = r.Int64N(1<<62)-(1<<61), r.Int64N(1<<62)
	}
	if r.IntN(8) == 0 {
		o.StartTime, o.EndTime = influxql.MinTime, influxql.MaxTime
	}
	o.Ascending = o.Ascending != (r.IntN(4) == 0)
	o.StripName, o.Dedupe, o.Ordered = r.IntN(2) == 0, r.IntN(2) == 0, r.IntN(2) == 0
	o.Query = text
	o.HintType = hybridqp.HintType(r.IntN(6))
	o.EnableBinaryTreeMerge = r.Int64N(3)
	o.QueryId = r.Uint64()
	if r.IntN(3) == 0 {
		o.SeriesKey = []byte("cpu,host=a\x00b,region=ü")
	}
	o.LogQueryCurrId = []string{"", "q-1/2"}[r.IntN(2)]
	o.IncQuery, o.IterID = r.IntN(4) == 0, r.Int32N(100)
	o.PromQuery, o.PromRemoteRead, o.Without = r.IntN(4) == 0, r.IntN(8) == 0, o.Without || r.IntN(8) == 0
	o.Step, o.Range = time.Duration(r.Int64N(1e12)), time.Duration(r.Int64N(1e13))
	o.LookBackDelta, o.QueryOffset = time.Duration(r.Int64N(1e12)), time.Duration(r.Int64N(1e12)-5e11)
	if r.IntN(6) == 0 {
		o.Interval.Offset = time.Duration(r.Int64N(1e10) - 5e9)
	}
	if r.IntN(10) == 0 {
		o.Limit, o.Offset, o.SLimit, o.SOffset = math.MaxInt32+r.IntN(1000), r.IntN(1<<40), r.IntN(1<<33), r.IntN(9)
	}
	return &o, text, g.feat, ""
}

// optsView lists the fields that have a slot in internal.ProcessorOptions (read from
// encodeProcessorOptions); fields without one (channels, Authorizer, LowerOpt, StmtId,
// CompareOffset, Exprs, ...) are local to a node by construction and are not compared.
func optsView(o *query.ProcessorOptions) map[string]any {
	v := map[string]any{
		"Name": o.Name, "Aux": o.Aux, "Interval": o.Interval, "Dimensions": o.Dimensions, "GroupBy": o.GroupBy,
		"Fill": o.Fill, "StartTime": o.StartTime, "EndTime": o.EndTime, "Ascending": o.Ascending,
		"Limit": o.Limit, "Offset": o.Offset, "SLimit": o.SLimit, "SOffset": o.SOffset, "StripName": o.StripName,
		"Dedupe": o.Dedupe, "MaxSeriesN": o.MaxSeriesN, "Ordered": o.Ordered, "ChunkSize": o.ChunkSize,
		"MaxParallel": o.MaxParallel, "Query": o.Query, "HintType": o.HintType, "EnableBinaryTreeMerge": o.EnableBinaryTreeMerge,
		"QueryId": o.QueryId, "SeriesKey": o.SeriesKey, "GroupByAllDims": o.GroupByAllDims, "HasFieldWildcard": o.HasFieldWildcard,
		"LogQueryCurrId": o.LogQueryCurrId, "IncQuery": o.IncQuery, "IterID": o.IterID, "PromQuery": o.PromQuery,
		"PromRemoteRead": o.PromRemoteRead, "Without": o.Without, "Step": o.Step, "Range": o.Range,
		"LookBackDelta": o.LookBackDelta, "QueryOffset": o.QueryOffset, "SortFields": o.SortFields,
	}
	if o.Location != nil {
		v["Location"] = o.Location.String()
	} else {
		v["Location"] = ""
	}
	// the fill value means something only for fill(<number>); both parsers keep the integer
	// of fill(5) as int64, the wire carries a double
	if o.Fill == influxql.NumberFill {
		switch f := o.FillValue.(type) {
		case int64:
			v["FillValue"] = float64(f)
		case float64:
			v["FillValue"] = f
		default:
			v["FillValue"] = fmt.Sprintf("%T", o.FillValue)
		}
	}
	var ms []map[string]any
	for _, s := range o.Sources {
		m, ok := s.(*influxql.Measurement)
		if !ok {
			continue // the encoder ships measurements only (sub-queries travel inside the plan)
		}
		mv := map[string]any{
			"Database": m.Database, "RetentionPolicy": m.RetentionPolicy, "Name": m.Name, "SystemIterator": m.SystemIterator,
			"IsTarget": m.IsTarget, "EngineType": m.EngineType, "IsTimeSorted": m.IsTimeSorted, "ObsOptions": m.ObsOptions,
		}
		if m.Regex != nil && m.Regex.Val != nil {
			mv["Regex"] = m.Regex.Val.String()
		}
		if ir := m.IndexRelation; ir != nil {
			iv := map[string]any{"Rid": ir.Rid, "Oids": ir.Oids, "IndexNames": ir.IndexNames, "IndexList": ir.IndexList}
			var ios [][]map[string]any
			for _, io := range ir.IndexOptions {
				var one []map[string]any
				if io != nil {
					for _, x := range io.Options {
						one = append(one, map[string]any{"Tokens": x.Tokens, "Tokenizers": x.Tokenizers, "TimeClusterDuration": x.TimeClusterDuration})
					}
				}
				ios = append(ios, one)
			}
			iv["IndexOptions"] = ios
			mv["IndexRelation"] = iv
		}
		ms = append(ms, mv)
	}
	v["Sources"] = ms
	return v
}

// compareOptions reports every shipped field of want that differs in got.
func (r *reporter) compareOptions(stage string, want, got *query.ProcessorOptions, oc objCase) bool {
	ok := true
	a, b := optsView(want), optsView(got)
	for k, av := range a {
		if canon(av, canonOpts{}) != canon(b[k], canonOpts{}) {
			ok = false
			xa, xb, _, _ := firstDiff(canon(av, canonOpts{}), canon(b[k], canonOpts{}))
			r.violation("opts-codec:field="+k, fmt.Sprintf("%s: ProcessorOptions.%s differs after Marshal/Unmarshal: ...%s... vs ...%s...", stage, k, xa, xb), oc)
		}
	}
	type ef struct {
		name string
		a, b influxql.Expr
	}
	for _, f := range []ef{{"Condition", want.Condition, got.Condition}, {"Expr", want.Expr, got.Expr}, {"ValueCondition", want.ValueCondition, got.ValueCondition}} {
		if f.a == nil && f.b == nil {
			continue
		}
		if f.a == nil || f.b == nil {
			ok = false
			r.violation("opts-codec:field="+f.name+":presence", fmt.Sprintf("%s: ProcessorOptions.%s present=%v before, present=%v after", stage, f.name, f.a != nil, f.b != nil), oc)
			continue
		}
		if v := classifyExpr(f.a, f.b); !v.Equal && !v.Tolerated {
			ok = false
			tc := textCase{Kind: "cond", Text: oc.Text, Stage: stage}
			_ = tc
			r.judgeObjExpr("codec", stage+" "+f.name, f.a, f.b, oc)
		}
	}
	return ok
}

// judgeObjExpr is judgeExpr for expressions inside generated objects.
func (r *reporter) judgeObjExpr(prefix, stage string, e, e2 influxql.Expr, oc objCase) {
	v := classifyExpr(e, e2)
	if v.Equal || v.Tolerated {
		return
	}
	if why := explainShipped(e, shipCondition); why != "" {
		for _, w := range strings.Split(why, "+") {
			r.violation(prefix+":"+w, fmt.Sprintf("%s: expression %q comes back different (...%s... vs ...%s...); it round-trips once the text %s",
				stage, clip(e.String()), v.CtxA, v.CtxB, whyText(w)), oc)
		}
		return
	}
	r.violation(prefix+":"+v.Class, fmt.Sprintf("%s: expression %q comes back different: ...%s... vs ...%s...", stage, clip(e.String()), v.CtxA, v.CtxB), oc)
}

func (r *reporter) checkOpts(i int) {
	c := r.c
	c.Eval(1)
	oc := objCase{Kind: "opts", Seed: c.Seed, Index: i}
	opt, text, feats, why := buildOptions(c, partOpts, i)
	oc.Text = text
	c.LogInput(oc)
	if opt == nil {
		c.Count("opts:"+why, 1)
		return
	}
	r.noteFeatures("yacc", feats)
	c.Count("opts:built", 1)
	if i < 2 {
		c.Sample(map[string]any{"part": "opts", "select": text})
	}
	switch {
	case opt.Condition != nil:
		c.Distinct("opts-shape", "with-condition")
	default:
		c.Distinct("opts-shape", "no-condition")
	}
	if opt.Interval.Duration > 0 {
		c.Distinct("opts-shape", "interval")
	}
	if len(opt.Dimensions) > 0 {
		c.Distinct("opts-shape", "dimensions")
	}
	if len(opt.SortFields) > 0 {
		c.Distinct("opts-shape", "sortfields")
	}
	if opt.Fill == influxql.NumberFill {
		c.Distinct("opts-shape", fmt.Sprintf("fill-number-%T", opt.FillValue))
	} else {
		c.Distinct("opts-shape", "fill-"+strconv.Itoa(int(opt.Fill)))
	}
	if opt.Location != nil {
		c.Distinct("opts-shape", "location")
	}
	if !opt.Ascending {
		c.Distinct("opts-shape", "descending")
	}
	if opt.Limit > 0 || opt.Offset > 0 {
		c.Distinct("opts-shape", "limit-offset")
	}
	if opt.StartTime != influxql.MinTime || opt.EndTime != influxql.MaxTime {
		c.Distinct("opts-shape", "time-range")
	}
	for _, s := range opt.Sources {
		if m, ok := s.(*influxql.Measurement); ok {
			if m.Regex != nil {
				c.Distinct("opts-shape", "source-regex")
			}
			if m.IndexRelation != nil {
				c.Distinct("opts-shape", "source-index-relation")
			}
			if m.ObsOptions != nil {
				c.Distinct("opts-shape", "source-obs-options")
			}
		}
	}
	c.Nontrivial("opts:" + strconv.Itoa(i))

	// (1) the bare options codec
	rb := &recvBuf{}
	var got query.ProcessorOptions
	var err error
	if p := catchW(func() {
		var buf []byte
		if buf, err = opt.MarshalBinary(); err == nil {
			err = rb.deliver(buf, func(payload []byte) error { return got.UnmarshalBinary(payload) })
		}
	}); p != nil {
		r.violation("opts-codec:panic", fmt.Sprintf("ProcessorOptions codec panicked: %v", p), oc)
		return
	}
	c.Count("roundtrips:opts-codec", 1)
	if err != nil {
		r.optsError("opts-codec", opt, err, oc)
		return
	}
	if r.aliases("opts-codec", rb, func() any { return optsAliasView(&got) }, nil, oc) {
		return
	}
	if r.compareOptions("ProcessorOptions", opt, &got, oc) {
		c.Count("equal:opts-codec", 1)
	}

	// (2) the RemoteQuery message as framed on the wire (sql -> store)
	rr := caseRand(c, partOpts, i+1<<30)
	rq := &executor.RemoteQuery{
		Database: []string{"db0", "my db", ""}[rr.IntN(3)], PtID: rr.Uint32(), NodeID: rr.Uint64(),
		Opt: *opt, Analyze: rr.IntN(2) == 0,
	}
	for n := rr.IntN(5); n > 0; n-- {
		rq.ShardIDs = append(rq.ShardIDs, rr.Uint64())
	}
	for n := rr.IntN(3); n > 0; n-- {
		pq := executor.PtQuery{PtID: rr.Uint32()}
		for k := rr.IntN(3); k > 0; k-- {
			pq.ShardInfos = append(pq.ShardInfos, executor.ShardInfo{ID: rr.Uint64(), Path: "/data/ü/" + strconv.Itoa(k), Version: rr.Uint32N(4)})
		}
		rq.PtQuerys = append(rq.PtQuerys, pq)
	}
	if rr.IntN(2) == 0 {
		rq.Node = make([]byte, rr.IntN(64))
		for k := range rq.Node {
			rq.Node[k] = byte(rr.IntN(256))
		}
	}
	for n := rr.IntN(3); n > 0; n-- {
		rq.MstInfos = append(rq.MstInfos, &executor.MultiMstInfo{ShardIds: []uint64{rr.Uint64(), rr.Uint64()}[:1+rr.IntN(2)], Opt: *opt})
	}
	var back *executor.RemoteQuery
	if p := catchW(func() {
		var buf []byte
		msg := rpc.NewMessage(executor.QueryMessage, rq)
		if buf, err = msg.Marshal(nil); err != nil {
			return
		}
		in := rpc.NewMessageWithHandler(executor.NewRPCMessage)
		if err = rb.deliver(buf, in.Unmarshal); err == nil { // Reactor: WarpRequester decodes, then FreeData
			back, _ = in.Data().(*executor.RemoteQuery)
		}
		// the next request on the connection lands in the same pooled buffer
		other := &executor.RemoteQuery{Database: strings.Repeat("Z", 40), ShardIDs: []uint64{1, 2, 3}, Node: []byte(strings.Repeat("N", 200)),
			Opt: query.ProcessorOptions{Name: "other", Query: strings.Repeat("Q", len(buf))}}
		if ob, oerr := rpc.NewMessage(executor.QueryMessage, other).Marshal(nil); oerr == nil {
			_ = rb.deliver(ob, rpc.NewMessageWithHandler(executor.NewRPCMessage).Unmarshal)
		}
	}); p != nil {
		r.violation("remotequery-codec:panic", fmt.Sprintf("RemoteQuery codec panicked: %v", p), oc)
		return
	}
	c.Count("roundtrips:remotequery-codec", 1)
	if err != nil || back == nil {
		r.optsError("remotequery-codec", opt, err, oc)
		return
	}
	hdr := func(q *executor.RemoteQuery) map[string]any {
		shards := make([][]uint64, 0, len(q.MstInfos))
		for _, m := range q.MstInfos {
			shards = append(shards, m.ShardIds)
		}
		return map[string]any{"Database": q.Database, "PtID": q.PtID, "NodeID": q.NodeID, "ShardIDs": q.ShardIDs,
			"PtQuerys": q.PtQuerys, "Analyze": q.Analyze, "Node": q.Node, "MstShards": shards}
	}
	if r.aliases("remotequery-codec", rb, func() any {
		v := []any{hdr(back), optsAliasView(&back.Opt)}
		for _, m := range back.MstInfos {
			v = append(v, optsAliasView(&m.Opt))
		}
		return v
	}, nil, oc) {
		return
	}
	ok := true
	if ca, cb := canon(hdr(rq), canonOpts{}), canon(hdr(back), canonOpts{}); ca != cb {
		ok = false
		xa, xb, _, _ := firstDiff(ca, cb)
		r.violation("remotequery-codec:header", fmt.Sprintf("RemoteQuery header differs after Marshal/Unmarshal: ...%s... vs ...%s...", xa, xb), oc)
	}
	if !r.compareOptions("RemoteQuery.Opt", &rq.Opt, &back.Opt, oc) {
		ok = false
	}
	for k := range rq.MstInfos {
		if k < len(back.MstInfos) && !r.compareOptions("RemoteQuery.MstInfos.Opt", &rq.MstInfos[k].Opt, &back.MstInfos[k].Opt, oc) {
			ok = false
		}
	}
	if ok {
		c.Count("equal:remotequery-codec", 1)
	}
}

// optsError classifies a decode error of an options message by the expression that caused it.
func (r *reporter) optsError(prefix string, opt *query.ProcessorOptions, err error, oc objCase) {
	for _, e := range []influxql.Expr{opt.Condition, opt.Expr, opt.ValueCondition} {
		if e == nil {
			continue
		}
		if _, serr := shipCondition(e); serr != nil {
			if sc := specialClass(e, serr); sc != "" {
				r.violation("codec:"+sc, fmt.Sprintf("%s: the store cannot decode the options (%v): expression %q", prefix, err, clip(e.String())), oc)
				return
			}
			if why := explainShipped(e, shipCondition); why != "" {
				for _, w := range strings.Split(why, "+") {
					r.violation("codec:"+w, fmt.Sprintf("%s: the store cannot decode the options (%v): expression %q; it round-trips once the text %s", prefix, err, clip(e.String()), whyText(w)), oc)
				}
				return
			}
		}
	}
	r.violation(prefix+":decode-error:"+normErr(err), fmt.Sprintf("%s: Marshal/Unmarshal failed: %v", prefix, err), oc)
}

// ---------------------------------------------------------------- QuerySchema and plan

type planStep struct {
	Kind  string
	EType int
	Prod  bool
	Limit executor.LimitTransformParameters
}

var planKinds = []string{"tagsubset", "aggregate", "merge", "sortmerge", "limit", "distinct", "interval", "fill", "align", "project", "filter",
	"slidingwindow", "hashmerge", "hashagg", "orderby", "groupby", "countdistinct", "tagsetagg"}

func buildPlan(schema hybridqp.Catalog, steps []planStep) hybridqp.QueryNode {
	var node hybridqp.QueryNode = executor.NewLogicalSeries(schema)
	node = executor.NewLogicalIndexScan(node, schema)
	node = executor.NewLogicalReader(node, schema)
	for _, s := range steps {
		switch s.Kind {
		case "tagsubset":
			node = executor.NewLogicalTagSubset(node, schema)
		case "aggregate":
			node = executor.NewLogicalAggregate(node, schema)
		case "countdistinct":
			node = executor.NewCountDistinctAggregate(node, schema)
		case "tagsetagg":
			node = executor.NewLogicalTagSetAggregate(node, schema)
		case "merge":
			node = executor.NewLogicalMerge([]hybridqp.QueryNode{node}, schema)
		case "sortmerge":
			node = executor.NewLogicalSortMerge([]hybridqp.QueryNode{node}, schema)
		case "limit":
			node = executor.NewLogicalLimit(node, schema, s.Limit)
		case "distinct":
			node = executor.NewLogicalDistinct(node, schema)
		case "interval":
			node = executor.NewLogicalInterval(node, schema)
		case "fill":
			node = executor.NewLogicalFill(node, schema)
		case "align":
			node = executor.NewLogicalAlign(node, schema)
		case "project":
			node = executor.NewLogicalProject(node, schema)
		case "filter":
			node = executor.NewLogicalFilter(node, schema)
		case "slidingwindow":
			node = executor.NewLogicalSlidingWindow(node, schema)
		case "hashmerge":
			n := executor.NewLogicalHashMerge(node, schema, executor.ExchangeType(s.EType), nil)
			if s.Prod {
				n.ToProducer()
			}
			node = n
		case "hashagg":
			n := executor.NewLogicalHashAgg(node, schema, executor.ExchangeType(s.EType), nil)
			if s.Prod {
				n.ToProducer()
			}
			node = n
		case "orderby":
			node = executor.NewLogicalOrderBy(node, schema)
		case "groupby":
			node = executor.NewLogicalGroupBy(node, schema)
		}
	}
	ex := executor.NewLogicalExchange(node, executor.ExchangeType(steps[len(steps)-1].EType), nil, schema)
	if steps[len(steps)-1].Prod {
		ex.ToProducer()
	}
	return ex
}

// planShape describes a plan by what its wire form carries.
func planShape(n hybridqp.QueryNode) string {
	var b strings.Builder
	var walk func(n hybridqp.QueryNode)
	walk = func(n hybridqp.QueryNode) {
		if n == nil {
			b.WriteString("nil")
			return
		}
		b.WriteString(n.String())
		switch x := n.(type) {
		case *executor.LogicalExchange:
			fmt.Fprintf(&b, "[e=%d r=%d]", x.EType(), x.ERole())
		case *executor.LogicalLimit:
			fmt.Fprintf(&b, "[%+v]", x.LimitPara)
		}
		b.WriteString("(")
		for i, ch := range n.Children() {
			if i > 0 {
				b.WriteString(",")
			}
			walk(ch)
		}
		b.WriteString(")")
	}
	walk(n)
	return b.String()
}

func (r *reporter) checkPlan(i int) {
	c := r.c
	c.Eval(1)
	oc := objCase{Kind: "plan", Seed: c.Seed, Index: i}
	rr := caseRand(c, partPlan, i)
	g := newGen(rr)
	// fields as the planner leaves them: parsed by yacc, reduced, references typed
	nf := 1 + rr.IntN(4)
	var fields influxql.Fields
	var names []string
	var texts []string
	for k := 0; k < nf; k++ {
		txt := g.arith(1 + rr.IntN(3)).s
		st, err := yaccSelect("SELECT "+txt+" FROM m", g.params)
		if err != nil || len(st.Fields) != 1 {
			continue
		}
		var e influxql.Expr
		if p := catchW(func() { valuer := influxql.NowValuer{Now: fixedNow}; e = influxql.Reduce(st.Fields[0].Expr, &valuer) }); p != nil || e == nil {
			continue
		}
		influxql.WalkFunc(e, func(n influxql.Node) {
			if v, ok := n.(*influxql.VarRef); ok && v != nil && v.Type == influxql.Unknown && rr.IntN(2) == 0 {
				v.Type = []influxql.DataType{influxql.Float, influxql.Integer, influxql.String, influxql.Boolean, influxql.Tag}[rr.IntN(5)]
			}
		})
		alias := []string{"", "x" + strconv.Itoa(k), "an alias", "select"}[rr.IntN(4)]
		fields = append(fields, &influxql.Field{Expr: e, Alias: alias})
		names = append(names, "col"+strconv.Itoa(k))
		texts = append(texts, txt)
	}
	oc.Text = strings.Join(texts, " , ")
	c.LogInput(oc)
	if len(fields) == 0 {
		c.Count("plan:rejected-by-yacc", 1)
		return
	}
	r.noteFeatures("yacc", g.feat)

	// (1) QuerySchema message: Encode -> proto bytes -> ParseFields (first step of DecodeQuerySchema)
	rb := &recvBuf{}
	var backSchema internal.QuerySchema
	var gotFields influxql.Fields
	var gotNames []string
	var err error
	if p := catchW(func() {
		pb := query.EncodeQuerySchema(&stubCatalog{fields: fields, names: names})
		var buf []byte
		if buf, err = proto.Marshal(pb); err != nil {
			return
		}
		if err = rb.deliver(buf, func(payload []byte) error { return proto.Unmarshal(payload, &backSchema) }); err != nil {
			return
		}
	}); p != nil {
		r.violation("schema-codec:panic", fmt.Sprintf("QuerySchema codec panicked: %v", p), oc)
		return
	}
	if err == nil && r.aliases("schema-codec", rb, func() any { return []any{backSchema.ColumnNames, backSchema.QueryFields} }, nil, oc) {
		return
	}
	if p := catchW(func() {
		if err != nil {
			return
		}
		gotNames = backSchema.ColumnNames
		gotFields, err = hybridqp.ParseFields(backSchema.QueryFields)
	}); p != nil {
		r.violation("schema-codec:panic", fmt.Sprintf("QuerySchema codec panicked: %v", p), oc)
		return
	}
	c.Count("roundtrips:schema-codec", 1)
	c.Nontrivial("plan:" + strconv.Itoa(i))
	schemaOK := true
	if err != nil {
		schemaOK = false
		explained := false
		for _, f := range fields {
			if _, serr := shipField(f.Expr); serr != nil {
				if sc := specialClass(f.Expr, serr); sc != "" {
					r.violation("codec:"+sc, fmt.Sprintf("QuerySchema.QueryFields: the store cannot parse the shipped fields (%v): field %q", err, clip(f.Expr.String())), oc)
					explained = true
					break
				}
				if why := explainShipped(f.Expr, shipField); why != "" {
					for _, w := range strings.Split(why, "+") {
						r.violation("codec:"+w, fmt.Sprintf("QuerySchema.QueryFields: the store cannot parse the shipped fields (%v): field %q; it round-trips once the text %s", err, clip(f.Expr.String()), whyText(w)), oc)
					}
					explained = true
					break
				}
			}
		}
		if !explained {
			r.violation("schema-codec:decode-error:"+normErr(err), fmt.Sprintf("QuerySchema.QueryFields cannot be parsed back: %v", err), oc)
		}
	} else {
		if canon(names, canonOpts{}) != canon(gotNames, canonOpts{}) {
			schemaOK = false
			r.violation("schema-codec:ColumnNames", fmt.Sprintf("column names %v come back as %v", names, gotNames), oc)
		}
		if len(gotFields) != len(fields) {
			schemaOK = false
			r.violation("schema-codec:field-count", fmt.Sprintf("%d fields come back as %d", len(fields), len(gotFields)), oc)
		} else {
			for k := range fields {
				if fields[k].Alias != gotFields[k].Alias {
					schemaOK = false
					r.violation("schema-codec:alias", fmt.Sprintf("alias %q comes back as %q", fields[k].Alias, gotFields[k].Alias), oc)
				}
				if v := classifyExpr(fields[k].Expr, gotFields[k].Expr); !v.Equal && !v.Tolerated {
					schemaOK = false
					r.judgeObjFieldExpr("QuerySchema.QueryFields", fields[k].Expr, gotFields[k].Expr, oc)
				}
			}
		}
	}
	if schemaOK {
		c.Count("equal:schema-codec", 1)
	}

	// (1b) hybridqp.ExprOptions (expression + reference) and join cases (two sources + condition)
	for k, f := range fields {
		ref := influxql.VarRef{Val: names[k], Type: []influxql.DataType{influxql.Float, influxql.Integer, influxql.String, influxql.Boolean, influxql.Tag, influxql.Unsigned}[rr.IntN(6)]}
		eo := hybridqp.ExprOptions{Expr: f.Expr, Ref: ref}
		var back hybridqp.ExprOptions
		var eerr error
		if p := catchW(func() {
			var wire []byte
			if wire, eerr = proto.Marshal(eo.Marshal()); eerr != nil {
				return
			}
			var pb internal.ExprOptions
			if eerr = rb.deliver(wire, func(payload []byte) error { return proto.Unmarshal(payload, &pb) }); eerr != nil {
				return
			}
			rb.overwrite()
			eerr = back.Unmarshal(&pb)
		}); p != nil {
			r.violation("expropts-codec:panic", fmt.Sprintf("ExprOptions codec panicked: %v", p), oc)
			continue
		}
		c.Count("roundtrips:expropts-codec", 1)
		if eerr != nil {
			_, ferr := shipField(f.Expr)
			if sc := specialClass(f.Expr, ferr); sc != "" {
				r.violation("codec:"+sc, fmt.Sprintf("ExprOptions: %q cannot be decoded (%v)", clip(f.Expr.String()), eerr), oc)
				continue
			}
			if why := explainShipped(f.Expr, shipField); why != "" && ferr != nil {
				for _, w := range strings.Split(why, "+") {
					r.violation("codec:"+w, fmt.Sprintf("ExprOptions: %q cannot be decoded (%v); it round-trips once the text %s", clip(f.Expr.String()), eerr, whyText(w)), oc)
				}
			} else {
				r.violation("expropts-codec:decode-error:"+normErr(eerr), fmt.Sprintf("ExprOptions %q: %v", clip(f.Expr.String()), eerr), oc)
			}
			continue
		}
		if back.Ref != ref {
			r.violation("expropts-codec:Ref", fmt.Sprintf("ExprOptions.Ref %v comes back as %v", ref, back.Ref), oc)
			continue
		}
		if v := classifyExpr(f.Expr, back.Expr); !v.Equal && !v.Tolerated {
			r.judgeObjFieldExpr("ExprOptions.Expr", f.Expr, back.Expr, oc)
			continue
		}
		c.Count("equal:expropts-codec", 1)
	}
	r.checkJoinCase(rr, oc)

	// (2) the operator tree: executor.MarshalBinary -> executor.UnmarshalBinary over a real QuerySchema
	opt := query.ProcessorOptions{Ascending: rr.IntN(2) == 0, ChunkSize: 1 + rr.IntN(1000)}
	var schema *executor.QuerySchema
	simple := influxql.Fields{&influxql.Field{Expr: &influxql.VarRef{Val: "f1", Type: influxql.Float}}, &influxql.Field{Expr: &influxql.Call{Name: "count", Args: []influxql.Expr{&influxql.VarRef{Val: "f2", Type: influxql.Integer}}}}}
	if p := catchW(func() { schema = executor.NewQuerySchema(simple, []string{"f1", "count"}, &opt, nil) }); p != nil || schema == nil {
		c.Count("plan:schema-construction-panic", 1)
		return
	}
	ns := 1 + rr.IntN(6)
	steps := make([]planStep, ns)
	for k := range steps {
		steps[k] = planStep{Kind: planKinds[rr.IntN(len(planKinds))], EType: rr.IntN(8), Prod: rr.IntN(2) == 0,
			Limit: executor.LimitTransformParameters{Limit: rr.IntN(1000), Offset: rr.IntN(1000), LimitType: hybridqp.LimitType(rr.IntN(4))}}
		c.Distinct("plan-node-kinds", steps[k].Kind)
	}
	var planA, planB string
	if p := catchW(func() {
		plan := buildPlan(schema, steps)
		planA = planShape(plan)
		var buf []byte
		if buf, err = executor.MarshalBinary(plan); err != nil {
			return
		}
		var back hybridqp.QueryNode
		err = rb.deliver(buf, func(payload []byte) error {
			var derr error
			back, derr = executor.UnmarshalBinary(payload, schema)
			return derr
		})
		rb.overwrite()
		if err == nil {
			planB = planShape(back)
		}
	}); p != nil {
		r.violation("plan-codec:panic", fmt.Sprintf("plan codec panicked on %v: %v", steps, p), oc)
		return
	}
	c.Count("roundtrips:plan-codec", 1)
	if err != nil {
		r.violation("plan-codec:error", fmt.Sprintf("plan %s: Marshal/Unmarshal failed: %v", planA, err), oc)
		return
	}
	if planA != planB {
		r.violation("plan-codec:shape", fmt.Sprintf("plan %s comes back as %s", planA, planB), oc)
		return
	}
	c.Count("equal:plan-codec", 1)
}

func (r *reporter) judgeObjFieldExpr(stage string, e, e2 influxql.Expr, oc objCase) {
	v := classifyExpr(e, e2)
	if why := explainShipped(e, shipField); why != "" {
		for _, w := range strings.Split(why, "+") {
			r.violation("codec:"+w, fmt.Sprintf("%s: field %q comes back different (...%s... vs ...%s...); it round-trips once the text %s",
				stage, clip(e.String()), v.CtxA, v.CtxB, whyText(w)), oc)
		}
		return
	}
	r.violation("codec:"+v.Class, fmt.Sprintf("%s: field %q comes back different: ...%s... vs ...%s...", stage, clip(e.String()), v.CtxA, v.CtxB), oc)
}

// ---------------------------------------------------------------- Chunk

type colSpec struct {
	typ   influxql.DataType
	nils  []bool // true = value present
	times bool
}

func buildChunk(rr *rand.Rand) (executor.Chunk, hybridqp.RowDataType, string) {
	types := []influxql.DataType{influxql.Float, influxql.Integer, influxql.Boolean, influxql.String, influxql.Tag}
	nc := 1 + rr.IntN(6)
	refs := make([]influxql.VarRef, nc)
	for k := range refs {
		refs[k] = influxql.VarRef{Val: "c" + strconv.Itoa(k), Type: types[rr.IntN(len(types))]}
	}
	rt := hybridqp.NewRowDataTypeImpl(refs...)
	name := []string{"m", "my mst", "日本", "", "m,with=comma"}[rr.IntN(5)]
	ck := executor.NewChunkBuilder(rt).NewChunk(name)
	rows := []int{0, 1, 2, 7, 8, 9, 63, 64, 65, 100, 1 + rr.IntN(300)}[rr.IntN(11)]
	t := rr.Int64N(1 << 60)
	for k := 0; k < rows; k++ {
		t += rr.Int64N(1e9)
		ck.AppendTime(t)
	}
	var shape []string
	// tag groups and intervals: increasing row indexes starting at 0
	if rows > 0 {
		ng := 1 + rr.IntN(4)
		pos := 0
		for gi := 0; gi < ng && pos < rows; gi++ {
			var keys, vals []string
			for k := rr.IntN(4); k > 0; k-- {
				keys = append(keys, []string{"host", "region", "ünï", "k"}[rr.IntN(4)]+strconv.Itoa(k))
				vals = append(vals, []string{"a", "", "b c", "日本", "x=y,z"}[rr.IntN(5)])
			}
			ck.AppendTagsAndIndex(*executor.NewChunkTagsByTagKVs(keys, vals), pos)
			pos += 1 + rr.IntN(rows)
		}
		shape = append(shape, fmt.Sprintf("taggroups=%d", ck.TagLen()))
		pos = 0
		for pos < rows {
			ck.AppendIntervalIndex(pos)
			pos += 1 + rr.IntN(1+rows/2)
		}
	}
	for k := 0; k < nc; k++ {
		col := ck.Column(k)
		mode := rr.IntN(4) // 0 dense, 1 sparse, 2 all nil, 3 half
		withTimes := rr.IntN(4) == 0
		for row := 0; row < rows; row++ {
			present := true
			switch mode {
			case 1:
				present = rr.IntN(8) == 0
			case 2:
				present = false
			case 3:
				present = rr.IntN(2) == 0
			}
			if !present {
				col.AppendNil()
				continue
			}
			col.AppendNotNil()
			switch refs[k].Type {
			case influxql.Float:
				col.AppendFloatValue([]float64{0, math.Copysign(0, -1), 1.5, -2.25, math.MaxFloat64, math.SmallestNonzeroFloat64, math.Inf(1), math.Inf(-1), math.NaN(), rr.NormFloat64() * 1e6}[rr.IntN(10)])
			case influxql.Integer:
				col.AppendIntegerValue([]int64{0, 1, -1, math.MaxInt64, math.MinInt64, rr.Int64()}[rr.IntN(6)])
			case influxql.Boolean:
				col.AppendBooleanValue(rr.IntN(2) == 0)
			default:
				col.AppendStringValue([]string{"", "a", "héllo wörld", "line\nbreak", "nul\x00byte", strings.Repeat("x", rr.IntN(40))}[rr.IntN(6)])
			}
			if withTimes {
				col.AppendColumnTime(rr.Int64N(1 << 60))
			}
		}
		shape = append(shape, fmt.Sprintf("%s/%d", refs[k].Type.String(), mode))
	}
	if rr.IntN(4) == 0 && rows > 0 {
		nd := 1 + rr.IntN(2)
		ck.NewDims(nd)
		for row := 0; row < rows; row++ {
			d := make([]string, nd)
			for k := range d {
				d[k] = []string{"", "d", "dim ü"}[rr.IntN(3)]
			}
			ck.AddDims(d)
		}
		shape = append(shape, "dims")
	}
	return ck, rt, strings.Join(shape, " ")
}

func colView(col executor.Column) map[string]any {
	if col == nil {
		return nil
	}
	n := col.Length()
	nils := make([]bool, n)
	for k := 0; k < n; k++ {
		nils[k] = col.IsNilV2(k)
	}
	return map[string]any{
		"DataType": col.DataType(), "Length": n, "NilCount": col.NilCount(), "Nils": nils,
		"Floats": col.FloatValues(), "Integers": col.IntegerValues(), "Booleans": col.BooleanValues(),
		"Strings": col.StringValuesV2(nil), "Times": col.ColumnTimes(), "FloatTuples": len(col.FloatTuples()),
	}
}

func chunkView(ck executor.Chunk) map[string]any {
	var tags []map[string]any
	for _, t := range ck.Tags() {
		k, v := t.GetChunkTagAndValues()
		tags = append(tags, map[string]any{"subset": t.GetTag(), "keys": k, "vals": v})
	}
	var cols, dims []map[string]any
	for _, col := range ck.Columns() {
		cols = append(cols, colView(col))
	}
	for _, col := range ck.Dims() {
		dims = append(dims, colView(col))
	}
	return map[string]any{
		"Name": ck.Name(), "Tags": tags, "TagIndex": ck.TagIndex(), "Time": ck.Time(), "IntervalIndex": ck.IntervalIndex(),
		"Columns": cols, "Dims": dims, "Rows": ck.NumberOfRows(),
	}
}

func (r *reporter) checkChunk(i int) {
	c := r.c
	c.Eval(1)
	oc := objCase{Kind: "chunk", Seed: c.Seed, Index: i}
	c.LogInput(oc)
	rr := caseRand(c, partChunk, i)
	var ck executor.Chunk
	var rt hybridqp.RowDataType
	var shape string
	if p := catchW(func() { ck, rt, shape = buildChunk(rr) }); p != nil {
		c.Count("chunk:construction-panic", 1)
		return
	}
	oc.Note = shape
	for _, s := range strings.Fields(shape) {
		c.Distinct("chunk-column-shapes", s)
	}
	if i < 2 {
		c.Sample(map[string]any{"part": "chunk", "shape": shape, "rows": ck.NumberOfRows()})
	}
	c.Nontrivial("chunk:" + strconv.Itoa(i))
	rb := &recvBuf{}
	var back, back2, ck2 executor.Chunk
	var rt2 hybridqp.RowDataType
	var err error
	if p := catchW(func() {
		var buf []byte
		msg := executor.NewChunkResponse(ck)
		buf = make([]byte, 0, msg.Size())
		if buf, err = msg.Marshal(buf); err != nil {
			return
		}
		in := rpc.NewMessageWithHandler(executor.NewRPCMessage)
		if err = rb.deliver(buf, in.Unmarshal); err != nil { // BaseResponser.Apply: Decode, then FreeData
			return
		}
		back, _ = in.Data().(executor.Chunk)
		if back != nil {
			back.SetRowDataType(rt) // RPCReaderTransform.chunkResponse
		}
		// the next response frame of the stream (another chunk) is read into the same pooled buffer
		ck2, rt2, _ = buildChunk(caseRand(c, partChunk, i+1<<30))
		msg2 := executor.NewChunkResponse(ck2)
		var buf2 []byte
		if buf2, err = msg2.Marshal(make([]byte, 0, msg2.Size())); err != nil {
			return
		}
		in2 := rpc.NewMessageWithHandler(executor.NewRPCMessage)
		if err = rb.deliver(buf2, in2.Unmarshal); err != nil {
			return
		}
		if back2, _ = in2.Data().(executor.Chunk); back2 != nil {
			back2.SetRowDataType(rt2)
		}
	}); p != nil {
		r.violation("chunk-codec:panic", fmt.Sprintf("chunk codec panicked (%s): %v", shape, p), oc)
		return
	}
	c.Count("roundtrips:chunk-codec", 1)
	if err != nil || back == nil || back2 == nil {
		r.violation("chunk-codec:error", fmt.Sprintf("chunk (%s): Marshal/Unmarshal failed: %v", shape, err), oc)
		return
	}
	// both chunks are still held by the executor (merge / fill / join inputs) when the buffer is reused again
	if r.aliases("chunk-codec", rb, func() any { return []any{chunkView(back), chunkView(back2)} }, func(before, after string) string {
		return chunkAliasWhat(back, back2, before, after)
	}, oc) {
		return
	}
	if ca, cb := canon(chunkView(ck2), canonOpts{}), canon(chunkView(back2), canonOpts{}); ca != cb {
		xa, xb, _, _ := firstDiff(ca, cb)
		r.violation("chunk-codec:second-frame", fmt.Sprintf("the chunk decoded from the reused receive buffer differs from what was sent: ...%s... vs ...%s...", xa, xb), oc)
		return
	}
	a, b := chunkView(ck), chunkView(back)
	ok := true
	for k, av := range a {
		ca, cb := canon(av, canonOpts{}), canon(b[k], canonOpts{})
		if ca != cb {
			ok = false
			xa, xb, _, _ := firstDiff(ca, cb)
			r.violation("chunk-codec:"+k, fmt.Sprintf("chunk (%s): %s differs after Marshal/Unmarshal: ...%s... vs ...%s...", shape, k, xa, xb), oc)
		}
	}
	if ok {
		c.Count("equal:chunk-codec", 1)
	}
}

// checkJoinCase ships a join (two sources and an ON condition) through
// query.EncodeJoinCases / DecodeJoinCases (LogicalJoin nodes of a pushed-down plan).
func (r *reporter) checkJoinCase(rr *rand.Rand, oc objCase) {
	c := r.c
	g := newGen(rr)
	g.plain = true
	mk := func() (influxql.Source, string) {
		txt := g.source(1)
		st, err := yaccSelect("SELECT f FROM "+txt, nil)
		if err != nil || len(st.Sources) != 1 {
			return nil, txt
		}
		return st.Sources[0], txt
	}
	l, lt := mk()
	rs, rt := mk()
	condText := g.cond(1).s
	st, err := yaccSelect("SELECT f FROM m WHERE "+condText, nil)
	if l == nil || rs == nil || err != nil || st.Condition == nil {
		c.Count("join:rejected-by-yacc", 1)
		return
	}
	oc.Note = "join: " + lt + " | " + rt + " ON " + condText
	join := &influxql.Join{LSrc: l, RSrc: rs, Condition: st.Condition, JoinType: influxql.JoinType(rr.IntN(5))}
	var back []*influxql.Join
	var derr error
	rb := &recvBuf{}
	if p := catchW(func() {
		var wire []byte
		if wire, derr = proto.Marshal(&internal.QueryNode{JoinCase: query.EncodeJoinCases([]*influxql.Join{join})}); derr != nil {
			return
		}
		var pb internal.QueryNode
		if derr = rb.deliver(wire, func(payload []byte) error { return proto.Unmarshal(payload, &pb) }); derr != nil {
			return
		}
		rb.overwrite()
		back, derr = query.DecodeJoinCases(pb.GetJoinCase())
	}); p != nil {
		r.violation("join-codec:panic", fmt.Sprintf("join case codec panicked: %v", p), oc)
		return
	}
	c.Count("roundtrips:join-codec", 1)
	strip := func(fill, alias bool) *influxql.Join {
		a, err1 := yaccSelect("SELECT f FROM "+lt, nil)
		b, err2 := yaccSelect("SELECT f FROM "+rt, nil)
		if err1 != nil || err2 != nil {
			return nil
		}
		stripSelect(a, fill, alias)
		stripSelect(b, fill, alias)
		return &influxql.Join{LSrc: a.Sources[0], RSrc: b.Sources[0], Condition: join.Condition, JoinType: join.JoinType}
	}
	same := func(x *influxql.Join, ys []*influxql.Join) bool {
		if len(ys) != 1 {
			return false
		}
		o := canonOpts{selectSyntax: true, stripParens: true}
		return canon(x, o) == canon(ys[0], o)
	}
	if derr == nil && same(join, back) {
		c.Count("equal:join-codec", 1)
		return
	}
	for _, v := range []struct {
		name        string
		fill, alias bool
	}{{"fill-clause", true, false}, {"source-alias", false, true}, {"fill-clause+source-alias", true, true}} {
		j := strip(v.fill, v.alias)
		if j == nil {
			break
		}
		var got []*influxql.Join
		var e2 error
		catchW(func() { got, e2 = query.DecodeJoinCases(query.EncodeJoinCases([]*influxql.Join{j})) })
		if e2 == nil && same(j, got) {
			for _, w := range strings.Split(v.name, "+") {
				r.violation("subquery-text:not-read-back:"+w, fmt.Sprintf("join case (%s) is not read back by DecodeJoinCases (err=%v); it is once the %s is removed", oc.Note, derr, w), oc)
			}
			return
		}
	}
	if derr != nil {
		r.violation("join-codec:decode-error:"+normErr(derr), fmt.Sprintf("join case (%s): %v", oc.Note, derr), oc)
		return
	}
	xa, xb, _, _ := firstDiff(canon(join, canonOpts{selectSyntax: true}), canon(back[0], canonOpts{selectSyntax: true}))
	r.violation("join-codec:differs", fmt.Sprintf("join case (%s) comes back different: ...%s... vs ...%s...", oc.Note, xa, xb), oc)
}

// aliases re-renders view() after the receive buffer has been reused and scribbled over;
// a change means the decoded object still points into the buffer that spdy already gave
// back to the connection pool. Returns true (and reports) in that case.
func (r *reporter) aliases(codec string, rb *recvBuf, view func() any, what func(before, after string) string, oc any) bool {
	var before, after string
	if p := catchW(func() {
		before = canon(view(), canonOpts{})
		rb.overwrite()
		after = canon(view(), canonOpts{})
	}); p != nil {
		r.violation(aliasSig(codec, "panic"), fmt.Sprintf("%s: reading the decoded object after the receive buffer was reused panicked: %v", codec, p), oc)
		return true
	}
	r.c.Count("receive-buffer-reuse-checks:"+codec, 1)
	if before == after {
		return false
	}
	xa, xb, ta, _ := firstDiff(before, after)
	w := ta
	if what != nil {
		w = what(before, after)
	}
	r.violation(aliasSig(codec, w), fmt.Sprintf("%s: the decoded object equals the original right after Unmarshal but changes once spdy's pooled receive buffer is reused for the next frame (BaseResponser.Apply / Reactor free the buffer as soon as Unmarshal returns): ...%s... became ...%s...", codec, xa, xb), oc)
	return true
}

func optsAliasView(o *query.ProcessorOptions) any {
	// the trees themselves (canon sorts set literals; String() prints them in map order)
	return []any{optsView(o), o.Condition, o.Expr, o.ValueCondition}
}

// chunkAliasWhat names which part of a decoded chunk changed when the buffer was reused:
// Name / Tags / Time / ... or "Columns/<data type>" / "Dims/<data type>".
func chunkAliasWhat(a, b executor.Chunk, before, after string) string {
	// recompute per part on the (now scribbled) objects against the canonical text taken before
	_, _, ta, _ := firstDiff(before, after)
	i := 0
	for i < len(before) && i < len(after) && before[i] == after[i] {
		i++
	}
	pre := before[:i]
	part := "?"
	best := -1
	for _, k := range []string{"\"Name\"=>", "\"Tags\"=>", "\"TagIndex\"=>", "\"Time\"=>", "\"IntervalIndex\"=>", "\"Columns\"=>", "\"Dims\"=>", "\"Rows\"=>"} {
		if j := strings.LastIndex(pre, k); j > best {
			best, part = j, strings.Trim(k, "\"=>")
		}
	}
	if part == "Columns" || part == "Dims" {
		if j := strings.LastIndex(pre, "\"DataType\"=>"); j >= 0 {
			rest := pre[j+len("\"DataType\"=>"):]
			if k := strings.IndexAny(rest, ",]"); k > 0 {
				if n, err := strconv.Atoi(rest[:k]); err == nil {
					return part + "/" + influxql.DataType(n).String()
				}
			}
		}
		// the DataType entry sorts before Strings/Floats...; fall back to the map key at the difference
	}
	_ = ta
	return part
}
