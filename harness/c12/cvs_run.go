package main

// Phase "cluster-vs-single", part 4: running the statements on both systems, the
// verdict per statement, evidence, replay.

import (
	"encoding/json"
	"fmt"
	"net/url"
	"sort"
	"strconv"
	"strings"
	"sync"
	"sync/atomic"

	"verifharness/proc"
	"verifharness/vf"
)

// cvsBoundJSON renders bound parameters the way the HTTP API reads them (a number with
// a '.' is a float, without it an integer).
func cvsBoundJSON(p map[string]interface{}) string {
	if len(p) == 0 {
		return ""
	}
	keys := make([]string, 0, len(p))
	for k := range p {
		keys = append(keys, k)
	}
	sort.Strings(keys)
	var b strings.Builder
	b.WriteByte('{')
	for i, k := range keys {
		if i > 0 {
			b.WriteByte(',')
		}
		b.WriteString(strconv.Quote(k) + ":")
		switch v := p[k].(type) {
		case int64:
			b.WriteString(strconv.FormatInt(v, 10))
		case float64:
			s := strconv.FormatFloat(v, 'f', -1, 64)
			if !strings.Contains(s, ".") {
				s += ".0"
			}
			b.WriteString(s)
		case bool:
			b.WriteString(strconv.FormatBool(v))
		case string:
			x, _ := json.Marshal(v)
			b.Write(x)
		}
	}
	b.WriteByte('}')
	return b.String()
}

func (st *cvsStmt) httpParams() url.Values {
	v := url.Values{}
	if st.Inner > 0 {
		v.Set("inner_chunk_size", strconv.Itoa(st.Inner))
	}
	if st.Params != "" {
		v.Set("params", st.Params)
	}
	return v
}

func (st *cvsStmt) curl(base, db string) string {
	v := st.httpParams()
	v.Set("db", db)
	v.Set("epoch", "ns")
	v.Set("q", st.Text)
	return "curl -s '" + base + "/query?" + v.Encode() + "'"
}

// candidates for "non-trivial": judged statements with a non-empty answer, per
// measurement; settled once it is known on how many stores the measurement lives.
type cvsCandidates struct {
	mu      sync.Mutex
	byDM    map[string][]string // "dataset|measurement" -> statement keys
	refused map[string]string   // refusal class -> first statement refused that way by both systems
}

var cvsCand = &cvsCandidates{byDM: map[string][]string{}, refused: map[string]string{}}

func (cc *cvsCandidates) copyRefused() map[string]string {
	out := map[string]string{}
	for k, v := range cc.refused {
		out[k] = v
	}
	return out
}

func cvsSettleNontrivial(c *vf.Ctx, di int, holding map[string]int) {
	cvsCand.mu.Lock()
	defer cvsCand.mu.Unlock()
	for m, n := range holding {
		keys := cvsCand.byDM[fmt.Sprintf("%d|%s", di, m)]
		if n >= 2 {
			for _, k := range keys {
				c.Nontrivial(k)
			}
			c.Count("cluster-vs-single:nontrivial(judged,non-empty,measurement-on>=2-stores)", int64(len(keys)))
			c.Count(fmt.Sprintf("cluster-vs-single:judged-non-empty-answers-over-%d-stores", n), int64(len(keys)))
		} else {
			c.Count("cluster-vs-single:judged-non-empty-answers-on-one-store-only", int64(len(keys)))
		}
	}
}

// cvsRunStatements generates and runs the statements of one dataset.
func cvsRunStatements(c *vf.Ctx, sys *cvsSystems, d *cvsDataset, db, layout string, nStmt int, only *cvsWitness) bool {
	var stmts []*cvsStmt
	if only != nil {
		stmts = []*cvsStmt{only.Stmt}
	} else {
		for i := 0; i < nStmt; i++ {
			stmts = append(stmts, cvsGenStmt(c.Rand(uint64(partCvsStmt)<<40|uint64(d.Index)<<24|uint64(i)), d, i))
		}
	}
	ch := make(chan *cvsStmt)
	var wg sync.WaitGroup
	for w := 0; w < 4; w++ {
		wg.Add(1)
		go func() {
			defer wg.Done()
			for st := range ch {
				cvsRunOne(c, sys, d, db, layout, st)
			}
		}()
	}
	for _, st := range stmts {
		ch <- st
	}
	close(ch)
	wg.Wait()
	// a server that died while answering is a finding of its own
	alive := true
	check := func(name string, ok bool, tail string) {
		if ok {
			return
		}
		alive = false
		c.Violation("cluster-vs-single|process-died:"+name+":"+cvsFirstFatal(tail), fmt.Sprintf("dataset %d (%s): %s died while answering statements", d.Index, layout, name),
			map[string]any{"kind": "cluster-vs-single-died", "seed": c.Seed, "dataset": d.Index, "layout": layout, "process": name, "stdout": cvsTail(tail, 4000)})
	}
	check("ts-server", sys.single.Alive(), sys.single.StdoutTail(1<<20))
	check("ts-sql", sys.cluster.SQL.Alive(), sys.cluster.SQL.StdoutTail(1<<20))
	for _, n := range sys.cluster.Stores {
		check("ts-store", n.Alive(), n.StdoutTail(1<<20))
	}
	for _, n := range sys.cluster.Metas {
		check("ts-meta", n.Alive(), n.StdoutTail(1<<20))
	}
	return alive
}

func cvsTail(s string, n int) string {
	if len(s) > n {
		return s[len(s)-n:]
	}
	return s
}

func cvsFirstFatal(s string) string {
	for _, ln := range strings.Split(s, "\n") {
		if strings.HasPrefix(ln, "panic:") || strings.HasPrefix(ln, "fatal error:") {
			return cvsTrunc(ln, 140)
		}
	}
	return "no panic line"
}

var cvsKnownHits int64 // differences that matched a recorded known finding (replay reports it)

// cvsQuiet: statements run under the read lock; a re-run that must be alone takes the write lock.
var cvsQuiet sync.RWMutex

type cvsVerdict struct {
	kind    string // transport refused-by-both error-on-single-only error-on-cluster-only differ equal equal-modulo-all-null-rows
	sigDiff string // the diff part of the signature
	what    string
	so, co  cvsOutcome
	sa      *cvsAnswer
	diff    *cvsDiff
}

func (v cvsVerdict) violates() bool {
	return v.kind == "error-on-single-only" || v.kind == "error-on-cluster-only" || v.kind == "differ"
}

// cvsExecute runs the statement on both systems and compares.
func cvsExecute(sys *cvsSystems, db string, st *cvsStmt, p url.Values) cvsVerdict {
	so := cvsDecode(sys.single.Query(db, st.Text, p))
	co := cvsDecode(sys.cluster.Front.Query(db, st.Text, p))
	v := cvsVerdict{so: so, co: co}
	switch {
	case so.Transport != "" || co.Transport != "":
		v.kind = "transport"
		return v
	case so.Err != "" && co.Err != "":
		v.kind = "refused-by-both"
		return v
	case so.Err != "":
		v.kind, v.sigDiff = "error-on-single-only", "error-on-single-only:"+cvsFirstWords(so.Err, 6)
		v.what = "the single node refuses (" + cvsTrunc(so.Err, 200) + "), the cluster answers"
		return v
	case co.Err != "":
		v.kind, v.sigDiff = "error-on-cluster-only", "error-on-cluster-only:"+cvsFirstWords(co.Err, 6)
		v.what = "the single node answers, the cluster refuses (" + cvsTrunc(co.Err, 200) + ")"
		return v
	}
	sa, ca := so.Ans.canonical(st.MaskTime), co.Ans.canonical(st.MaskTime)
	v.sa = sa
	diff := cvsCompare(sa, ca, st.tol)
	if diff == nil {
		v.kind = "equal"
		return v
	}
	if st.FieldFilterAgg {
		// An aggregate with a field filter reports an all-null row for a group / window whose
		// passing rows carry no value of the aggregated field (C08-field-filter-aggregate-phantom-window),
		// and whether it does depends on the scheduling of the readers: the single node alone gives
		// both answers for one statement when asked concurrently (reproduced by hand: 40 concurrent
		// requests, two different bodies). Such rows are not part of the comparison when they are
		// the only difference; counted, never silent.
		// (a selector with auxiliary columns shows such a window as a row whose selector is null)
		aux := st.Kind == "selector-aux"
		if cvsCompare(sa.stripAllNull(aux), ca.stripAllNull(aux), st.tol) == nil {
			v.kind, v.sa = "equal-modulo-all-null-rows", sa.stripAllNull(aux)
			return v
		}
	}
	v.kind, v.sigDiff, v.diff = "differ", diff.Kind, diff
	v.what = diff.Kind + ": " + cvsTrunc(diff.First, 400)
	return v
}

func cvsRunOne(c *vf.Ctx, sys *cvsSystems, d *cvsDataset, db, layout string, st *cvsStmt) {
	if layout == "files+memtable" && st.Inner > 0 {
		// a small inner_chunk_size over rows spread on files + out-of-order rows in the memtable makes
		// the single node itself answer wrongly (C08-mixed-layout-small-inner-chunk: GROUP BY time
		// aggregates; seen here also on plain selections with OFFSET, rows shifted), and differently
		// on the two systems: not statements the property can be judged on
		st.Inner = 0
		c.Count("cluster-vs-single:inner_chunk_size-dropped-on-files+memtable(C08-known)", 1)
	}
	c.Eval(1)
	c.Count("cluster-vs-single:statements", 1)
	c.Distinct("cluster-vs-single:shape", st.shape())
	c.Count("cluster-vs-single:kind:"+st.Kind, 1)
	for f := range st.feats {
		if strings.HasPrefix(f, "w:") {
			c.Count("cluster-vs-single:operator-class:"+f[2:], 1)
		} else {
			c.Distinct("cluster-vs-single:grammar-feature", f)
		}
	}
	if st.Inner > 0 {
		c.Count("cluster-vs-single:with-inner_chunk_size", 1)
	}
	if st.Params != "" {
		c.Count("cluster-vs-single:with-bound-parameters", 1)
	}
	p := st.httpParams()
	where := fmt.Sprintf("dataset %d (%s), statement %d: %s", d.Index, layout, st.Index, st.Text)
	cvsQuiet.RLock()
	v := cvsExecute(sys, db, st, p)
	cvsQuiet.RUnlock()
	if v.violates() {
		// The single node does not answer every statement the same way twice when it is asked
		// concurrently (known executor races and the scheduling-dependent all-null rows, C04 / C08:
		// e.g. 'runtime panic: send on closed channel' on one of 40 concurrent requests). A defect of
		// the shipping codecs is deterministic: the statement is shipped wrongly every time. So a
		// difference is reported only when it shows again on both of two re-runs with nothing else
		// in flight; one that does not is counted as inconclusive, never dropped silently.
		first := v
		cvsQuiet.Lock()
		for try := 0; try < 2 && v.violates(); try++ {
			v = cvsExecute(sys, db, st, p)
		}
		cvsQuiet.Unlock()
		if !v.violates() {
			c.Inconclusive("cluster-vs-single:difference-not-reproduced-when-rerun-alone:"+first.kind, 1)
			c.Distinct("cluster-vs-single:not-reproduced", first.kind+": "+cvsTrunc(first.what, 160))
		}
	}
	so, co := v.so, v.co
	wit := func() *cvsWitness {
		w := &cvsWitness{Kind: "cluster-vs-single", Seed: c.Seed, Dataset: d.Index, Layout: layout, DB: db, Stmt: st,
			SErr: so.Err + so.Transport, CErr: co.Err + co.Transport, Curl: st.curl("http://<sql-or-single>:8086", db), Diff: v.diff}
		if so.Ans != nil {
			w.Single = so.Ans.canonical(false).trimmed(6, 12)
		}
		if co.Ans != nil {
			w.Cluster = co.Ans.canonical(false).trimmed(6, 12)
		}
		return w
	}
	switch v.kind {
	case "transport":
		side := "single"
		if co.Transport != "" {
			side = "cluster"
		}
		c.Inconclusive("cluster-vs-single:http-call-failed-or-timed-out:"+side, 1)
		fmt.Printf("INCONCLUSIVE C12 cluster-vs-single %s: %s%s\n", where, so.Transport, co.Transport)
		return
	case "refused-by-both":
		c.Count("cluster-vs-single:refused-by-both(not-judged)", 1)
		c.Distinct("cluster-vs-single:refusal", cvsFirstWords(so.Err, 8))
		cvsCand.mu.Lock()
		if cls := cvsFirstWords(so.Err, 8); cvsCand.refused[cls] == "" {
			cvsCand.refused[cls] = cvsTrunc(st.Text, 240) + "  ==>  " + cvsTrunc(so.Err, 160)
			c.Extra("cluster-vs-single:refusal-samples", cvsCand.copyRefused())
		}
		cvsCand.mu.Unlock()
		if so.Err != co.Err {
			c.Count("cluster-vs-single:refused-by-both-with-different-text", 1)
			c.Distinct("cluster-vs-single:refusal-text-pairs", cvsTrunc(so.Err, 90)+" <> "+cvsTrunc(co.Err, 90))
		}
		return
	case "error-on-single-only", "error-on-cluster-only", "differ":
		sig := st.signature(v.sigDiff)
		if d := v.diff; d != nil && strings.Contains(st.FieldOps, "literal-left-operand") && d.NullForValue+d.ValueForNull > 0 &&
			d.Values+d.Times+d.MissingRows+d.ExtraRows+d.MissingSeries+d.ExtraSeries == 0 {
			// the input class of one executor defect, named exactly (see known_findings.d/c12.json)
			sig = "cluster-vs-single|raw-field-expression-with-literal-left-operand|diff:null-where-the-other-system-has-the-value"
		}
		if st.Kind == "raw" && strings.Contains(st.FieldOps, "literal-left-operand") && v.diff == nil &&
			strings.Contains(v.so.Err+v.co.Err, "NaN or") {
			// same defect: the stale nil flag hides a NaN (x % 0) on one system, the other cannot encode it
			sig = "cluster-vs-single|raw-field-expression-with-literal-left-operand|diff:nan-json-error-on-one-system-only"
		}
		if d := v.diff; d != nil && st.Kind == "selector-aux" && strings.Contains(layout, "memtable") &&
			d.Cols[0]+d.Cols[1] == 0 && len(d.Cols) > 0 && d.MissingRows+d.ExtraRows+d.MissingSeries+d.ExtraSeries == 0 {
			// only auxiliary columns (index >= 2) differ
			sig = "cluster-vs-single|selector-with-auxiliary-columns|layout-with-memtable|diff:auxiliary-columns-only"
		}
		if c.Violation(sig, where+": "+v.what, wit()) {
			atomic.AddInt64(&cvsKnownHits, 1)
		}
		return
	case "equal-modulo-all-null-rows":
		c.Count("cluster-vs-single:equal-modulo-all-null-rows-of-filtered-aggregates(C08-known,scheduling-dependent-on-the-single-node)", 1)
	}
	c.Count("cluster-vs-single:judged", 1)
	sa := v.sa
	if st.MaskTime {
		c.Count("cluster-vs-single:judged-with-time-of-bare-min/max-masked", 1)
	}
	if sa.rows() == 0 {
		c.Count("cluster-vs-single:judged-empty-answers", 1)
		return
	}
	c.Count("cluster-vs-single:judged-non-empty-answers", 1)
	if len(sa.Series) >= 2 {
		c.Count("cluster-vs-single:answers-with>=2-series", 1)
	}
	c.Count("cluster-vs-single:rows-compared", int64(sa.rows()))
	c.Distinct("cluster-vs-single:shape-judged-non-empty", st.shape())
	cvsCand.mu.Lock()
	k := fmt.Sprintf("%d|%s", d.Index, st.Mst)
	cvsCand.byDM[k] = append(cvsCand.byDM[k], fmt.Sprintf("cvs:%d:%d:%s", d.Index, st.Index, st.Text))
	cvsCand.mu.Unlock()
	if st.Index < 3 && d.Index == 0 {
		c.Sample(map[string]any{"part": "cluster-vs-single", "text": st.Text, "rows": sa.rows(), "series": len(sa.Series)})
	}
}

// cvsReplay re-executes the statement of a witness: both systems are started, the
// dataset of the witness is regenerated from its seed and loaded in the same layout.
func cvsReplay(c *vf.Ctx, raw json.RawMessage) {
	var w cvsWitness
	if err := json.Unmarshal(raw, &w); err != nil || w.Stmt == nil {
		c.Broken("cluster-vs-single witness unreadable: %v", err)
		return
	}
	c.Seed = w.Seed
	sys, err := cvsStart(c)
	if err != nil {
		c.Broken("cluster-vs-single: %v", err)
		return
	}
	defer sys.stop()
	cvsRunDataset(c, sys, w.Dataset, w.Layout, 0, &w)
}

var _ = proc.IP
