package main

func (r *reporter) checkOpts(i int)  {}
func (r *reporter) checkPlan(i int)  {}
func (r *reporter) checkChunk(i int) {}
