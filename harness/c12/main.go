// Command c12 checks property C12 of openGemini ("a query shipped to the storage nodes is
// the query that was planned"). Part (a) of the design: in-process round trips of the
// real printers/parsers and of the real shipping codecs. Part (b), files cvs_*.go and
// gen_schema.go: the black-box phase "cluster-vs-single" (one ts-server against a real
// 3-meta/3-store/1-sql cluster on the same data, answers must be equal), run beside (a).
//
//	text --yacc parser / ParseExpr--> e --String()--> text' --ParseExpr--> e'      e == e' ?
//	ProcessorOptions / RemoteQuery / QuerySchema / plan / Chunk --Marshal--> bytes --Unmarshal--> equal ?
//
// The work runs in child processes (vf worker protocol) under the race detector
// (checkptr): the chunk codec converts []byte <-> []float64/[]int64 through unsafe.
package main

import (
	"encoding/json"
	"fmt"
	"math/rand/v2"
	"os"
	"strconv"
	"strings"
	"sync"
	"time"

	"verifharness/vf"
)

const nWorkers = 12

// parts of the case space; the PCG stream of case i of part p is p<<40 | i
const (
	partCond = iota + 1
	partArith
	partSource
	partSort
	partStmt
	partOpts
	partPlan
	partChunk
)

type sizes struct {
	cond, arith, source, sort, stmt, opts, plan, chunk int
}

func tierSizes(c *vf.Ctx) sizes {
	if c.Thorough() {
		return sizes{cond: 200000, arith: 130000, source: 24000, sort: 8000, stmt: 50000, opts: 32000, plan: 20000, chunk: 32000}
	}
	return sizes{cond: 8000, arith: 5000, source: 1200, sort: 600, stmt: 2500, opts: 2000, plan: 1000, chunk: 2000}
}

func caseRand(c *vf.Ctx, part, i int) *rand.Rand {
	return c.Rand(uint64(part)<<40 | uint64(i))
}

func main() {
	c := vf.New("C12", "exploration")
	if vf.IsWorker() {
		worker(c, vf.WorkerArg())
		c.Finish()
	}
	c.SetRule("a case is a text generated from the InfluxQL grammar (or an options / schema / plan / join / chunk object built from one) that a real parser accepted; " +
		"it is non-trivial and distinct when its tree has >= 2 operator/call/paren nodes (expressions; key = text), or it is a source, sort list, SELECT statement, " +
		"options object, plan or chunk (key = text or generator index). Oracle: canonical form over EXPORTED fields (cached depth ignored, floats by bit pattern, regexes by source, " +
		"nil == empty slice/map). Equivalences applied, each counted as equal-modulo-<name> and never silently: (1) ParenExpr wrappers are transparent when that alone explains a difference " +
		"(grouping is explicit in the tree shape that is compared); (2) TimeLiteral == StringLiteral of its RFC3339Nano text (the language has no other spelling of a time; only Reduce/ConditionExpr make TimeLiteral nodes; " +
		"ValuerEval yields 'no match' against the integer `time` for both); (3) ProcessorOptions.FillValue is compared as a number and only when Fill is NumberFill; " +
		"(4) only fields that have a slot in the wire message are compared for ProcessorOptions/Measurement (the rest is node-local by construction of the codec); " +
		"(5) yacc-built vs hand-parsed SELECT statements are compared on the fields that have a spelling in the text (the two parsers fill derived flags differently); " +
		"(6) chunks are compared through the exported Chunk/Column accessors row by row. " +
		"A failed round trip is reported under '<site>:<reason>' where the reason is verified constructively: the same tree does round-trip once exactly that " +
		"(parentheses around weaker-binding operands / a fraction on integral numbers / no CR,NUL in strings / no fill() or alias in shipped sub-queries) is repaired, and the tree has what the repair addresses; " +
		"one violation per necessary repair. PHASE cluster-vs-single: a case is a generated statement (plain selection / aggregates count,sum,mean,min,max,first,last,spread,median / selector with auxiliary columns / string functions / several sources / sub-query / distinct; WHERE and field expressions from the same expression generator in schema mode; GROUP BY tags, time(d[,offset]) with every fill variant, ORDER BY time DESC, LIMIT/OFFSET, bound parameters, inner_chunk_size on plain selections) sent over HTTP to a single-node ts-server and to the ts-sql of a 3-store cluster holding the same generated dataset (3 measurements, 26-49 series, typed fields with nulls, two shard groups, layouts memtable / files / files+memtable); it is non-trivial when both systems answered, the canonical answers (series by name+tags, rows of equal time by text, mean within 1 ulp, time of a tied bare min/max masked) were judged, the answer has rows and the measurement's rows live on >= 2 stores (key = dataset:index:text). A difference must show on the first run and on two re-runs with nothing else in flight; signature cluster-vs-single|<kind>|where:<operator classes>|agg:<calls>|group:<..>|fill|order|limit|fields:<classes>|diff:<kind of difference>. Statements and sources (parts stmt/source/join) use a plain expression profile so that their clause structure is the subject; expressions are attacked in parts cond/arith/opts/plan")
	c.Assume("the store side parses shipped text with influxql.ParseExpr / ParseSource / ParseSortFields / hybridqp.ParseFields and decodes options, plans and chunks with the Unmarshal functions exercised here (read from processor_codec.go, logic_plan_codec.go, rpc_message.go)")
	c.Assume("the sql node parses queries with the yacc parser exactly as httpd.Handler.getSqlQuery does, and the planner's condition is influxql.ConditionExpr(stmt.Condition) / fields are influxql.Reduce(field) (query/compile.go)")
	c.Assume("texts rejected by a parser are outside the property's quantifier and only counted")
	c.Assume("a decoded message must own its bytes: spdy hands Unmarshal a slice of a pooled receive buffer and frees it as soon as Unmarshal returns (BaseResponser.Apply on the client, Reactor after WarpRequester on the server; read from lib/spdy/mux.go, reactor.go, multiplexed_connection.go). Every codec round trip here decodes from such a buffer, which is then reused for a second frame (chunk, RemoteQuery) and filled with 0xA5 before the decoded object is compared; a change that appears only then is reported as <codec>:decoded-object-aliases-the-receive-buffer:<part>")

	if c.ReplayIn != "" {
		replay(c)
		c.Finish()
	}

	wd := time.Duration(c.Pick(12, 45)) * time.Minute
	var wg sync.WaitGroup
	// the black-box phase (cluster vs single node) runs beside the in-process workers
	wg.Add(1)
	go func() {
		defer wg.Done()
		cvsPhase(c)
	}()
	for w := 0; w < nWorkers; w++ {
		wg.Add(1)
		go func(w int) {
			defer wg.Done()
			c.RunWorker(fmt.Sprintf("%d/%d", w, nWorkers), wd)
		}(w)
	}
	wg.Wait()

	// categories the design requires
	for _, f := range requiredFeatures {
		if !hasFeature(c, f) {
			c.Inconclusive("category-not-reached:"+f, 1)
		}
	}
	c.Finish()
}

func hasFeature(c *vf.Ctx, f string) bool {
	// a feature counts when some parser accepted a text containing it
	return c.DistinctCount("reached:"+f) > 0
}

// requiredFeatures are the generator categories the property's quantifier names.
var requiredFeatures = []string{
	"parens:needed", "parens:redundant", "ident:quoted", "string:escaped-quote", "string:backslash", "string:newline",
	"string:unicode", "int:max64", "int:min64", "float:integral", "float:huge", "duration", "string:time-literal",
	"regex:slash", "call:arity0", "call:arity1", "call:arity2", "call:arity3", "call:arity4", "unary:minus",
	"op:+", "op:-", "op:*", "op:/", "op:%", "op:&", "op:|", "op:^", "op:AND", "op:OR", "op:=", "op:!=", "op:<", "op:<=", "op:>", "op:>=", "op:=~", "op:!~",
}

func worker(c *vf.Ctx, arg string) {
	parts := strings.Split(arg, "/")
	w, _ := strconv.Atoi(parts[0])
	n, _ := strconv.Atoi(parts[1])
	if n <= 0 {
		c.Broken("bad worker arg %q", arg)
		return
	}
	sz := tierSizes(c)
	r := &reporter{c: c, seen: map[string]int{}}

	mine := func(i int) bool { return i%n == w }

	// exhaustive operator nestings (independent of the seed)
	ex := exhaustiveTexts()
	for i, tc := range ex {
		if mine(i) {
			r.checkExprText(tc, map[string]bool{"exhaustive-nesting": true})
			c.Count("exhaustive-nesting-texts", 1)
		}
	}
	for i := 0; i < sz.cond; i++ {
		if mine(i) {
			runTextCase(r, partCond, i)
		}
	}
	for i := 0; i < sz.arith; i++ {
		if mine(i) {
			runTextCase(r, partArith, i)
		}
	}
	for i := 0; i < sz.source; i++ {
		if mine(i) {
			runTextCase(r, partSource, i)
		}
	}
	for i := 0; i < sz.sort; i++ {
		if mine(i) {
			runTextCase(r, partSort, i)
		}
	}
	for i := 0; i < sz.stmt; i++ {
		if mine(i) {
			runTextCase(r, partStmt, i)
		}
	}
	for i := 0; i < sz.opts; i++ {
		if mine(i) {
			r.checkOpts(i)
		}
	}
	for i := 0; i < sz.plan; i++ {
		if mine(i) {
			r.checkPlan(i)
		}
	}
	for i := 0; i < sz.chunk; i++ {
		if mine(i) {
			r.checkChunk(i)
		}
	}
	if len(r.panics) > 0 {
		c.Extra("planner-panics-seen-by-worker-"+parts[0], r.panics)
	}
}

// genTextCase builds the text of case i of a part.
func genTextCase(c *vf.Ctx, part, i int) (textCase, map[string]bool) {
	g := newGen(caseRand(c, part, i))
	var tc textCase
	switch part {
	case partCond:
		tc = textCase{Kind: "cond", Text: g.cond(1 + g.r.IntN(4)).s}
	case partArith:
		tc = textCase{Kind: "arith", Text: g.arith(1 + g.r.IntN(4)).s}
	case partSource:
		g.plain = true
		tc = textCase{Kind: "source", Text: g.source(1)}
	case partSort:
		tc = textCase{Kind: "sort", Text: g.sortFields()}
	case partStmt:
		g.plain = true
		tc = textCase{Kind: "stmt", Text: g.selectStmt(2)}
	}
	tc.Params = encodeParams(g.params)
	return tc, g.feat
}

func runTextCase(r *reporter, part, i int) {
	tc, feats := genTextCase(r.c, part, i)
	r.runText(tc, feats)
	if i < 2 {
		r.c.Sample(map[string]any{"part": tc.Kind, "text": tc.Text})
	}
}

func (r *reporter) runText(tc textCase, feats map[string]bool) {
	before := r.c.Violations()
	_ = before
	switch tc.Kind {
	case "cond", "arith":
		r.checkExprText(tc, feats)
	case "source":
		r.checkSourceText(tc, feats)
	case "sort":
		r.checkSortText(tc, feats)
	case "stmt":
		r.checkStmtText(tc, feats)
	}
}

// replay re-executes the single case stored in a witness file.
func replay(c *vf.Ctx) {
	b, err := os.ReadFile(c.ReplayIn)
	if err != nil {
		c.Broken("cannot read witness %s: %v", c.ReplayIn, err)
		return
	}
	var w struct {
		Seed    uint64          `json:"seed"`
		Witness json.RawMessage `json:"witness"`
	}
	if err := json.Unmarshal(b, &w); err != nil {
		c.Broken("witness unreadable: %v", err)
		return
	}
	var kind struct {
		Kind string `json:"kind"`
	}
	_ = json.Unmarshal(w.Witness, &kind)
	r := &reporter{c: c, seen: map[string]int{}}
	switch kind.Kind {
	case "cond", "arith", "source", "sort", "stmt":
		var tc textCase
		if err := json.Unmarshal(w.Witness, &tc); err != nil {
			c.Broken("witness unreadable: %v", err)
			return
		}
		r.runText(tc, map[string]bool{})
	case "cluster-vs-single":
		cvsReplay(c, w.Witness)
		r.known = int(cvsKnownHits)
	case "opts", "plan", "chunk":
		var oc objCase
		if err := json.Unmarshal(w.Witness, &oc); err != nil {
			c.Broken("witness unreadable: %v", err)
			return
		}
		c.Seed = oc.Seed
		switch kind.Kind {
		case "opts":
			r.checkOpts(oc.Index)
		case "plan":
			r.checkPlan(oc.Index)
		case "chunk":
			r.checkChunk(oc.Index)
		}
	default:
		c.Broken("witness of unknown kind %q (worker-fatal witnesses carry last_input; replay that by hand)", kind.Kind)
		return
	}
	switch {
	case c.Violations() > 0:
		fmt.Println("REPLAY: the witness still violates")
	case r.known > 0:
		fmt.Println("REPLAY: the witness reproduces a recorded known finding (no new violation)")
	default:
		fmt.Println("REPLAY: the witness no longer violates")
	}
}

// objCase is the witness of a generated object (regenerated from seed and index).
type objCase struct {
	Kind  string `json:"kind"`
	Seed  uint64 `json:"seed"`
	Index int    `json:"index"`
	Note  string `json:"note,omitempty"`
	Text  string `json:"text,omitempty"`
}
