package main

import (
	"fmt"
	"sort"
	"strings"
	"time"

	"github.com/openGemini/openGemini/lib/util/lifted/influx/meta"

	"verifharness/metacmd"
)

// Issue is one well-formedness violation found by the monitor.
type Issue struct {
	Sig  string
	What string
}

var (
	minTime = time.Unix(0, metacmd.MinNanoTime).UTC()
	maxEnd  = time.Unix(0, metacmd.MaxNanoTime+1).UTC()
)

type birth struct {
	dur  time.Duration // ShardGroupDuration of the policy when the group was first seen
	end  int64         // EndTime when first seen (a later change = shard-merge)
	from string        // command type that created it
}

// Monitor carries what must be remembered across steps: ids ever issued per kind, and the
// shard-group duration in force when each group appeared.
type Monitor struct {
	ever       map[string]map[uint64]bool
	prev       map[string]map[uint64]bool
	birth      map[uint64]birth
	missing    map[string]string // db/default-policy -> command after which it was first missing
	wasDeleted map[uint64]bool   // shard groups that were seen marked deleted
	revived    map[uint64]bool   // ... and later seen live again (DeleteShardGroup with CancelDelete)
	// versioned measurement names (db/rp/name_0001) ever handed out inside the CURRENT incarnation
	// of their policy (forgotten when the policy or its database disappears), and those present
	// in the previous state
	everNames map[string]bool
	prevNames map[string]bool
	// PrunedInLive counts (state, shard) observations of a MarkDelete shard in a live group
	PrunedInLive int64
}

func (m *Monitor) firstMissing(key, cmd string) string {
	if c, ok := m.missing[key]; ok {
		return c
	}
	m.missing[key] = cmd
	return cmd
}

func NewMonitor() *Monitor {
	return &Monitor{ever: map[string]map[uint64]bool{}, prev: map[string]map[uint64]bool{}, birth: map[uint64]birth{}, missing: map[string]string{},
		wasDeleted: map[uint64]bool{}, revived: map[uint64]bool{}, everNames: map[string]bool{}, prevNames: map[string]bool{}}
}

// Fork copies the monitor (for prefix sharing in the exhaustive walk).
func (m *Monitor) Fork() *Monitor {
	n := NewMonitor()
	for k, s := range m.ever {
		c := make(map[uint64]bool, len(s))
		for id := range s {
			c[id] = true
		}
		n.ever[k] = c
	}
	for k, s := range m.prev {
		c := make(map[uint64]bool, len(s))
		for id := range s {
			c[id] = true
		}
		n.prev[k] = c
	}
	for k, b := range m.birth {
		n.birth[k] = b
	}
	for k := range m.everNames {
		n.everNames[k] = true
	}
	for k := range m.prevNames {
		n.prevNames[k] = true
	}
	for k, b := range m.missing {
		n.missing[k] = b
	}
	for k := range m.wasDeleted {
		n.wasDeleted[k] = true
	}
	for k := range m.revived {
		n.revived[k] = true
	}
	return n
}

func sortedKeys[V any](m map[string]V) []string {
	ks := make([]string, 0, len(m))
	for k := range m {
		ks = append(ks, k)
	}
	sort.Strings(ks)
	return ks
}

func aligned(t time.Time, d time.Duration) bool { return d > 0 && t.Truncate(d).Equal(t) }

// Check is CheckCatalogue: the stateless well-formedness rules plus the stateful ones (id
// reuse, alignment to the duration in force at creation). lastCmd is the type name of the
// command that was just applied ("" for the initial state).
func (m *Monitor) Check(d *meta.Data, lastCmd string) []Issue {
	var out []Issue
	add := func(sig, format string, a ...any) {
		out = append(out, Issue{sig, fmt.Sprintf(format, a...)})
	}
	curNames, curScopes := map[string]bool{}, map[string]bool{}
	cur := map[string]map[uint64]bool{"measurement": {}, "shard-group": {}, "shard": {}, "index-group": {}, "index": {}}
	seen := func(kind string, id uint64, where string) {
		if cur[kind][id] {
			add("duplicate-id/"+kind, "%s id %d appears twice (second time at %s)", kind, id, where)
		}
		cur[kind][id] = true
	}
	for _, dbName := range sortedKeys(d.Databases) {
		db := d.Databases[dbName]
		if db.Name != dbName {
			add("name-key-mismatch/database", "database stored under key %q is named %q", dbName, db.Name)
		}
		if db.DefaultRetentionPolicy != "" {
			if _, ok := db.RetentionPolicies[db.DefaultRetentionPolicy]; !ok {
				// the signature names the command after which the default policy was first found missing
				add("default-policy-missing/after-"+m.firstMissing(dbName+"/"+db.DefaultRetentionPolicy, lastCmd), "database %q: default retention policy %q does not exist (policies: %v)", dbName, db.DefaultRetentionPolicy, sortedKeys(db.RetentionPolicies))
			}
		}
		ptn := -1
		if pv, ok := d.PtView[dbName]; ok {
			ptn = len(pv)
			for i := range pv {
				if int(pv[i].PtId) != i {
					add("ptview-index-mismatch", "database %q: partition view slot %d holds partition id %d", dbName, i, pv[i].PtId)
				}
			}
		}
		for _, rpName := range sortedKeys(db.RetentionPolicies) {
			rp := db.RetentionPolicies[rpName]
			where := dbName + "." + rpName
			if rp.Name != rpName {
				add("name-key-mismatch/policy", "policy stored under key %q of %q is named %q", rpName, dbName, rp.Name)
			}
			for _, mn := range sortedKeys(rp.Measurements) {
				ms := rp.Measurements[mn]
				if ms.Name != mn {
					add("name-key-mismatch/measurement", "%s: measurement stored under key %q is named %q", where, mn, ms.Name)
				}
				seen("measurement", ms.ID, where+"."+mn)
				curNames[dbName+"/"+rpName+"/"+mn] = true
			}
			curScopes[dbName+"/"+rpName+"/"] = true
			for _, on := range sortedKeys(rp.MstVersions) {
				if v := rp.MstVersions[on]; rp.Measurements[v.NameWithVersion] == nil {
					// the current version may have been dropped (DROP MEASUREMENT completes); the
					// version entry is kept on purpose so that the next version number is fresh
					continue
				}
			}
			// index ids of the policy
			indexIDs := map[uint64]bool{}
			for i := range rp.IndexGroups {
				ig := &rp.IndexGroups[i]
				seen("index-group", ig.ID, where)
				for j := range ig.Indexes {
					seen("index", ig.Indexes[j].ID, fmt.Sprintf("%s index group %d", where, ig.ID))
					indexIDs[ig.Indexes[j].ID] = true
				}
			}
			// shard groups
			if !sort.IsSorted(meta.ShardGroupInfos(rp.ShardGroups)) {
				add("groups-unsorted", "%s: ShardGroups are not in ShardGroupInfos order: %s", where, groupList(rp.ShardGroups))
			}
			live := map[uint32][]*meta.ShardGroupInfo{}
			for i := range rp.ShardGroups {
				sg := &rp.ShardGroups[i]
				seen("shard-group", sg.ID, where)
				for j := range sg.Shards {
					seen("shard", sg.Shards[j].ID, fmt.Sprintf("%s group %d", where, sg.ID))
				}
				b, known := m.birth[sg.ID]
				if !known {
					b = birth{dur: rp.ShardGroupDuration, end: sg.EndTime.UnixNano(), from: lastCmd}
					m.birth[sg.ID] = b
				}
				if sg.Deleted() {
					m.wasDeleted[sg.ID] = true
					continue // a group marked deleted is on its way out: no obligations
				}
				if m.wasDeleted[sg.ID] {
					m.revived[sg.ID] = true
				}
				if !sg.StartTime.Before(sg.EndTime) {
					add("group-empty-span", "%s: group %d spans [%s, %s)", where, sg.ID, ts(sg.StartTime), ts(sg.EndTime))
				}
				live[uint32(sg.EngineType)] = append(live[uint32(sg.EngineType)], sg)
				// alignment to the duration in force when the group was created
				if b.from != "ReShardingCommand" && b.dur > 0 {
					// after a shard merge (ReplaceMergeShards) the end is the end of another group,
					// created under whatever duration was in force then: only the start is judged
					merged := sg.EndTime.UnixNano() != b.end
					startOK := aligned(sg.StartTime, b.dur) || sg.StartTime.Equal(minTime)
					endOK := merged || aligned(sg.EndTime, b.dur) || sg.EndTime.Equal(maxEnd)
					spanOK := merged || sg.EndTime.Sub(sg.StartTime) == b.dur || sg.StartTime.Equal(minTime) || sg.EndTime.Equal(maxEnd)
					if !startOK || !endOK || !spanOK {
						add("group-misaligned", "%s: group %d [%s, %s) is not aligned to the shard group duration %s in force when it was created by %s (merged=%v)",
							where, sg.ID, ts(sg.StartTime), ts(sg.EndTime), b.dur, b.from, merged)
					}
				}
				// references
				for j := range sg.Shards {
					sh := &sg.Shards[j]
					if sh.MarkDelete {
						m.PrunedInLive++ // observation only: a shard marked deleted inside a group that is not
						continue
					}
					if !indexIDs[sh.IndexID] {
						add("shard-index-missing", "%s: shard %d of live group %d refers to index %d which is in no index group of the policy", where, sh.ID, sg.ID, sh.IndexID)
					}
					if len(sh.Owners) == 0 {
						add("shard-without-owner", "%s: shard %d of live group %d has no owning partition", where, sh.ID, sg.ID)
					}
					for _, o := range sh.Owners {
						if ptn >= 0 && int(o) >= ptn {
							add("shard-owner-missing", "%s: shard %d is owned by partition %d but database %q has %d partitions", where, sh.ID, o, dbName, ptn)
						}
					}
				}
			}
			engs := make([]int, 0, len(live))
			for eng := range live {
				engs = append(engs, int(eng))
			}
			sort.Ints(engs)
			for _, e := range engs {
				eng := uint32(e)
				gs := live[eng]
				overlaps := len(out)
				for i := 0; i < len(gs); i++ {
					for j := i + 1; j < len(gs); j++ {
						a, b := gs[i], gs[j]
						ae, be := a.EndTime, b.EndTime
						if a.Truncated() {
							ae = a.TruncatedAt
						}
						if b.Truncated() {
							be = b.TruncatedAt
						}
						if a.StartTime.Before(be) && b.StartTime.Before(ae) {
							ba, bb := m.birth[a.ID], m.birth[b.ID]
							class := "same-duration"
							if ba.dur != bb.dur {
								class = "created-under-different-durations"
							}
							if m.revived[a.ID] || m.revived[b.ID] {
								class = "revived-by-cancel-delete"
							}
							if class == "same-duration" && (a.EndTime.UnixNano() != ba.end || b.EndTime.UnixNano() != bb.end) {
								class += "+shard-merge" // one of the two was extended by ReplaceMergeShards
							}
							add("groups-overlap/"+class, "%s engine %d: live groups %d [%s, %s) (created under shard duration %s) and %d [%s, %s) (created under %s) overlap",
								where, eng, a.ID, ts(a.StartTime), ts(ae), ba.dur, b.ID, ts(b.StartTime), ts(be), bb.dur)
						}
					}
				}
				if overlaps == len(out) { // disjoint: then the stored order must also be the order of start times
					for i := 1; i < len(gs); i++ {
						if gs[i].StartTime.Before(gs[i-1].StartTime) {
							add("live-groups-unsorted", "%s engine %d: live group %d starts before its predecessor %d", where, eng, gs[i].ID, gs[i-1].ID)
						}
					}
				}
			}
		}
	}
	// versioned measurement names never handed out twice while their policy lives: the version
	// suffix is what tells two incarnations of a measurement name apart on the stores
	for n := range m.everNames {
		if i := strings.LastIndexByte(n, '/'); i >= 0 && !curScopes[n[:i+1]] {
			delete(m.everNames, n) // the policy (or its database) is gone: a new one starts afresh
		}
	}
	for _, n := range sortedKeys(curNames) {
		if !m.prevNames[n] && m.everNames[n] {
			add("id-reissued/measurement-versioned-name", "the versioned measurement name %s was handed out again after the measurement that held it had been dropped", n)
		}
		m.everNames[n] = true
	}
	m.prevNames = curNames
	// ids never handed out twice
	for kind, ids := range cur {
		ever := m.ever[kind]
		if ever == nil {
			ever = map[uint64]bool{}
			m.ever[kind] = ever
		}
		prev := m.prev[kind]
		for id := range ids {
			if !prev[id] && ever[id] {
				add("id-reissued/"+kind, "%s id %d was handed out again after the object that held it had been removed", kind, id)
			}
			ever[id] = true
		}
		m.prev[kind] = ids
	}
	return out
}

func ts(t time.Time) string { return t.UTC().Format("2006-01-02T15:04:05.999999999Z") }

func groupList(gs []meta.ShardGroupInfo) string {
	s := ""
	for i := range gs {
		s += fmt.Sprintf("%d[%s,%s) ", gs[i].ID, ts(gs[i].StartTime), ts(gs[i].EndTime))
	}
	return s
}
