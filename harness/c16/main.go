// C16 — the catalogue stays well-formed: disjoint, aligned, sorted shard groups; unique and
// never re-issued ids; valid references; an existing default policy; failed commands change
// nothing.
//
// Drives the REAL meta state machine (app/ts-meta/meta storeFSM.Apply over meta.Data) and
// runs CheckCatalogue (monitor.go) after EVERY applied command. Two workloads:
//
//	(i)  bounded-exhaustive: every sequence of up to L steps over a fixed alphabet of 16
//	     command templates, from two initial states, with prefix sharing (the catalogue and
//	     the monitor are forked per prefix by a reflection deep copy);
//	(ii) random administrative sequences of length 300 from verifharness/metacmd.
package main

import (
	"encoding/json"
	"fmt"
	"os"
	"strings"
	"sync"
	"time"

	"github.com/hashicorp/raft"
	ms "github.com/openGemini/openGemini/app/ts-meta/meta"
	"github.com/openGemini/openGemini/lib/logger"
	"github.com/openGemini/openGemini/lib/util/lifted/influx/meta"
	mproto "github.com/openGemini/openGemini/lib/util/lifted/influx/meta/proto"
	"github.com/openGemini/openGemini/lib/util/lifted/protobuf/proto"
	"go.uber.org/zap"

	"verifharness/metacmd"
	"verifharness/vf"
)

type Cmd = metacmd.Cmd

const (
	H    = metacmd.Hour
	Base = metacmd.BaseTime
)

// ---- fixed command templates ---------------------------------------------------------

type template struct {
	name string
	fn   func(d *meta.Data) []Cmd
}

func cCreateDataNode(host string) Cmd {
	return metacmd.Mk(mproto.Command_CreateDataNodeCommand, mproto.E_CreateDataNodeCommand_Command,
		&mproto.CreateDataNodeCommand{HTTPAddr: proto.String(host + ":8400"), TCPAddr: proto.String(host + ":8401"), Role: proto.String(""), Az: proto.String("az0")}, "")
}
func cPtView(db string) Cmd {
	return metacmd.Mk(mproto.Command_CreateDbPtViewCommand, mproto.E_CreateDbPtViewCommand_Command, &mproto.CreateDbPtViewCommand{DbName: proto.String(db), ReplicaNum: proto.Uint32(1)}, "")
}
func rpInfo(name string, sgd int64) *mproto.RetentionPolicyInfo {
	return &mproto.RetentionPolicyInfo{Name: proto.String(name), Duration: proto.Int64(0), ShardGroupDuration: proto.Int64(sgd), ReplicaN: proto.Uint32(1),
		HotDuration: proto.Int64(0), WarmDuration: proto.Int64(0), IndexGroupDuration: proto.Int64(0)}
}
func cCreateDB(db string) Cmd {
	return metacmd.Mk(mproto.Command_CreateDatabaseCommand, mproto.E_CreateDatabaseCommand_Command,
		&mproto.CreateDatabaseCommand{Name: proto.String(db), RetentionPolicy: rpInfo("rp0", H), ReplicaNum: proto.Uint32(1)}, "")
}
func cCreateMst(db, rp, m string) Cmd {
	return metacmd.Mk(mproto.Command_CreateMeasurementCommand, mproto.E_CreateMeasurementCommand_Command,
		&mproto.CreateMeasurementCommand{DBName: proto.String(db), RpName: proto.String(rp), Name: proto.String(m), Ski: &mproto.ShardKeyInfo{Type: proto.String("hash")}, EngineType: proto.Uint32(0)}, "")
}
func cCreateSG(db, rp string, t int64) Cmd {
	return metacmd.Mk(mproto.Command_CreateShardGroupCommand, mproto.E_CreateShardGroupCommand_Command,
		&mproto.CreateShardGroupCommand{Database: proto.String(db), Policy: proto.String(rp), Timestamp: proto.Int64(t), ShardTier: proto.Uint64(1), EngineType: proto.Uint32(0), Version: proto.Uint32(0)}, "")
}

func rp0(d *meta.Data) *meta.RetentionPolicyInfo {
	if db := d.Databases["db0"]; db != nil {
		return db.RetentionPolicies["rp0"]
	}
	return nil
}

var alphabet = []template{
	{"joinNode", func(d *meta.Data) []Cmd {
		n := len(d.DataNodes) + 1
		if n > 3 {
			n = 1 // a known node joins again
		}
		return []Cmd{cCreateDataNode(fmt.Sprintf("10.0.0.%d", n))}
	}},
	{"nodeStatusFlip", func(d *meta.Data) []Cmd {
		if len(d.DataNodes) == 0 {
			return nil
		}
		n := d.DataNodes[0]
		st := int32(1) // alive
		if int32(n.Status) == 1 {
			st = 4 // failed
		}
		return []Cmd{metacmd.Mk(mproto.Command_UpdateNodeStatusCommand, mproto.E_UpdateNodeStatusCommand_Command,
			&mproto.UpdateNodeStatusCommand{ID: proto.Uint64(n.ID), Status: proto.Int32(st), Ltime: proto.Uint64(n.LTime + 1), GossipAddr: proto.String("8010")}, "")}
	}},
	{"removeNode", func(d *meta.Data) []Cmd {
		if len(d.DataNodes) == 0 {
			return nil
		}
		id := d.DataNodes[len(d.DataNodes)-1].ID
		return []Cmd{
			metacmd.Mk(mproto.Command_SetNodeSegregateStatusCommand, mproto.E_SetNodeSegregateStatusCommand_Command, &mproto.SetNodeSegregateStatusCommand{Status: []uint64{meta.Segregated}, NodeIds: []uint64{id}}, ""),
			metacmd.Mk(mproto.Command_RemoveNodeCommand, mproto.E_RemoveNodeCommand_Command, &mproto.RemoveNodeCommand{NodeIds: []uint64{id}}, ""),
		}
	}},
	{"createDB", func(d *meta.Data) []Cmd { return []Cmd{cPtView("db0"), cCreateDB("db0")} }},
	{"dropDB", func(d *meta.Data) []Cmd {
		mark := metacmd.Mk(mproto.Command_MarkDatabaseDeleteCommand, mproto.E_MarkDatabaseDeleteCommand_Command, &mproto.MarkDatabaseDeleteCommand{Name: proto.String("db0")}, "")
		if d.Databases["db0"] == nil {
			return []Cmd{mark} // error path: database not found
		}
		return []Cmd{mark, metacmd.Mk(mproto.Command_DropDatabaseCommand, mproto.E_DropDatabaseCommand_Command, &mproto.DropDatabaseCommand{Name: proto.String("db0")}, "")}
	}},
	{"createRP", func(d *meta.Data) []Cmd {
		return []Cmd{metacmd.Mk(mproto.Command_CreateRetentionPolicyCommand, mproto.E_CreateRetentionPolicyCommand_Command,
			&mproto.CreateRetentionPolicyCommand{Database: proto.String("db0"), RetentionPolicy: rpInfo("rp1", 24*H), DefaultRP: proto.Bool(false)}, "")}
	}},
	{"dropRP", func(d *meta.Data) []Cmd {
		target := "rp0"
		if db := d.Databases["db0"]; db != nil && db.RetentionPolicies["rp1"] != nil {
			target = "rp1"
		}
		return []Cmd{
			metacmd.Mk(mproto.Command_MarkRetentionPolicyDeleteCommand, mproto.E_MarkRetentionPolicyDeleteCommand_Command, &mproto.MarkRetentionPolicyDeleteCommand{Database: proto.String("db0"), Name: proto.String(target)}, ""),
			metacmd.Mk(mproto.Command_DropRetentionPolicyCommand, mproto.E_DropRetentionPolicyCommand_Command, &mproto.DropRetentionPolicyCommand{Database: proto.String("db0"), Name: proto.String(target)}, ""),
		}
	}},
	{"alterShardDuration", func(d *meta.Data) []Cmd {
		next := 2 * H
		if r := rp0(d); r != nil {
			switch int64(r.ShardGroupDuration) {
			case H:
				next = 2 * H
			case 2 * H:
				next = 24 * H
			default:
				next = H
			}
		}
		return []Cmd{metacmd.Mk(mproto.Command_UpdateRetentionPolicyCommand, mproto.E_UpdateRetentionPolicyCommand_Command,
			&mproto.UpdateRetentionPolicyCommand{Database: proto.String("db0"), Name: proto.String("rp0"), ShardGroupDuration: proto.Int64(next), MakeDefault: proto.Bool(false)}, "")}
	}},
	{"setDefaultRP1", func(d *meta.Data) []Cmd {
		return []Cmd{metacmd.Mk(mproto.Command_SetDefaultRetentionPolicyCommand, mproto.E_SetDefaultRetentionPolicyCommand_Command,
			&mproto.SetDefaultRetentionPolicyCommand{Database: proto.String("db0"), Name: proto.String("rp1")}, "")}
	}},
	{"createMst", func(d *meta.Data) []Cmd { return []Cmd{cCreateMst("db0", "rp0", "m0")} }},
	{"dropMst", func(d *meta.Data) []Cmd {
		mark := metacmd.Mk(mproto.Command_MarkMeasurementDeleteCommand, mproto.E_MarkMeasurementDeleteCommand_Command,
			&mproto.MarkMeasurementDeleteCommand{Database: proto.String("db0"), Policy: proto.String("rp0"), Measurement: proto.String("m0")}, "")
		r := rp0(d)
		if r == nil {
			return []Cmd{mark}
		}
		v, ok := r.MstVersions["m0"]
		if !ok {
			return []Cmd{mark}
		}
		return []Cmd{mark, metacmd.Mk(mproto.Command_DropMeasurementCommand, mproto.E_DropMeasurementCommand_Command,
			&mproto.DropMeasurementCommand{Database: proto.String("db0"), Policy: proto.String("rp0"), Measurement: proto.String(v.NameWithVersion)}, "")}
	}},
	{"shardGroup@+30m", func(d *meta.Data) []Cmd { return []Cmd{cCreateSG("db0", "rp0", Base+H/2)} }},
	{"shardGroup@+1h", func(d *meta.Data) []Cmd { return []Cmd{cCreateSG("db0", "rp0", Base+H)} }},
	{"shardGroup@+2h-1ns", func(d *meta.Data) []Cmd { return []Cmd{cCreateSG("db0", "rp0", Base+2*H-1)} }},
	{"deleteGroup", func(d *meta.Data) []Cmd {
		r := rp0(d)
		if r == nil {
			return nil
		}
		for i := range r.ShardGroups {
			if !r.ShardGroups[i].Deleted() {
				return []Cmd{metacmd.Mk(mproto.Command_DeleteShardGroupCommand, mproto.E_DeleteShardGroupCommand_Command,
					&mproto.DeleteShardGroupCommand{Database: proto.String("db0"), Policy: proto.String("rp0"), ShardGroupID: proto.Uint64(r.ShardGroups[i].ID)}, "")}
			}
		}
		return nil
	}},
	{"pruneGroup", func(d *meta.Data) []Cmd {
		r := rp0(d)
		if r == nil {
			return nil
		}
		for i := range r.ShardGroups {
			if r.ShardGroups[i].Deleted() {
				var out []Cmd
				for _, sh := range r.ShardGroups[i].Shards {
					if !sh.MarkDelete {
						out = append(out, metacmd.Mk(mproto.Command_PruneGroupsCommand, mproto.E_PruneGroupsCommand_Command, &mproto.PruneGroupsCommand{ShardGroup: proto.Bool(true), ID: proto.Uint64(sh.ID)}, ""))
					}
				}
				if len(out) > 0 {
					return out
				}
			}
		}
		return nil
	}},
}

func alphabetNames() []string {
	var out []string
	for _, t := range alphabet {
		out = append(out, t.name)
	}
	return out
}

var exhOpts = ms.VerifFSMOptions{PtNumPerNode: 1, NumOfShards: 0, RetentionAutoCreate: false, ExpandShardsEnable: false, UseIncSyncData: false, SchemaCleanEn: true}

// initial states of the exhaustive walk
var initials = map[string][]Cmd{
	"empty":  nil,
	"seeded": {cCreateDataNode("10.0.0.1"), cPtView("db0"), cCreateDB("db0"), cCreateMst("db0", "rp0", "m0")},
}
var initialNames = []string{"empty", "seeded"}

// ---- step execution --------------------------------------------------------------------

type stepper struct {
	f   raft.FSM
	mon *Monitor
	c   *vf.Ctx
	// per-run observations
	errs, oks, groupsMax int
	pruneSampled         bool
}

func resString(r interface{}) string {
	switch x := r.(type) {
	case nil:
		return ""
	case error:
		return "err:" + x.Error()
	}
	return fmt.Sprintf("%T:%v", r, r)
}

// step applies one command and returns the issues found after it. before is the DumpNoPos
// of the catalogue before the command ("" = compute it); the dump after is returned.
func (s *stepper) step(cmd Cmd, before string) (issues []Issue, after string, panicked any) {
	d := ms.VerifFSMData(s.f)
	if before == "" {
		before = metacmd.DumpNoPos(d)
	}
	var res string
	if os.Getenv("C16_DEBUG_PANIC") != "" { // debugging aid: let the panic through with its stack
		res = resString(s.f.Apply(cmd.Log(d.Index+1, 1)))
	} else {
		panicked = vf.Catch(func() { res = resString(s.f.Apply(cmd.Log(d.Index+1, 1))) })
	}
	if panicked != nil {
		return nil, "", panicked
	}
	d = ms.VerifFSMData(s.f) // SetData may replace it
	after = metacmd.DumpNoPos(d)
	if s.c != nil {
		s.c.Distinct("cmd-type-applied", cmd.Name)
	}
	if res != "" {
		s.errs++
		if s.c != nil {
			s.c.Distinct("cmd-type-returned-error", cmd.Name)
		}
		if df, bad := metacmd.FirstDiff(before, after); bad {
			issues = append(issues, Issue{"failed-command-changed-catalogue/" + cmd.Name + "/" + df.Shape,
				fmt.Sprintf("%s returned %q but changed the catalogue: %s before=%s after=%s (%d lines differ)", cmd.Name, res, df.Path, df.A, df.B, df.Count)})
		}
	} else {
		s.oks++
		if s.c != nil {
			s.c.Distinct("cmd-type-returned-nil", cmd.Name)
		}
	}
	if cmd.Name == "PruneGroupsCommand" && res == "" && s.c != nil {
		// Observation, not a verdict (the property does not speak about it): with
		// expand-shards-enable the shard id ranges of groups interleave after a node join, and
		// pruneShardGroups locates a shard by id range, so it can mark a shard of ANOTHER,
		// live group as deleted.
		if n := markDeleteFlips(before, after); n > 1 {
			s.c.Count("observation:PruneGroups set MarkDelete on more than the one named shard/index", 1)
			if !s.pruneSampled {
				s.pruneSampled = true
				s.c.Sample(map[string]any{"observation": "PruneGroups changed MarkDelete of " + fmt.Sprint(n) + " shards/indexes", "cmd": cmd.Desc})
			}
		}
	}
	issues = append(issues, s.mon.Check(d, cmd.Name)...)
	return issues, after, nil
}

// markDeleteFlips counts the MarkDelete leaves that are false in one dump and true in the other.
func markDeleteFlips(before, after string) int {
	if strings.Count(before, ".Shards.len=") != strings.Count(after, ".Shards.len=") ||
		strings.Count(before, ".Indexes.len=") != strings.Count(after, ".Indexes.len=") {
		return 0 // a group was removed: paths shifted, no comparison
	}
	b := map[string]bool{}
	for _, l := range strings.Split(before, "\n") {
		if strings.HasSuffix(l, ".MarkDelete=false") {
			b[strings.TrimSuffix(l, "false")] = true
		}
	}
	n := 0
	for _, l := range strings.Split(after, "\n") {
		if strings.HasSuffix(l, ".MarkDelete=true") && b[strings.TrimSuffix(l, "true")] {
			n++
		}
	}
	return n
}

type witness struct {
	Opts     ms.VerifFSMOptions `json:"opts"`
	Part     string             `json:"part"`
	Template []string           `json:"template_sequence,omitempty"`
	Cmds     []Cmd              `json:"cmds"`
	Sig      string             `json:"signature"`
	Shrunk   bool               `json:"shrunk,omitempty"`
}

// runSequence applies cmds to a fresh FSM with a fresh monitor and returns the first issue
// whose signature is want (or the first issue at all when want is "").
func runSequence(opts ms.VerifFSMOptions, cmds []Cmd, want string) (Issue, int, bool) {
	st := &stepper{f: ms.VerifNewFSM(opts), mon: NewMonitor()}
	st.mon.Check(ms.VerifFSMData(st.f), "")
	for i, c := range cmds {
		is, _, pan := st.step(c, "")
		if pan != nil {
			return Issue{}, i, false
		}
		for _, x := range is {
			if want == "" || x.Sig == want {
				return x, i, true
			}
		}
	}
	return Issue{}, len(cmds), false
}

func shrink(opts ms.VerifFSMOptions, cmds []Cmd, sig string, budget int) []Cmd {
	cur := cmds
	for size := len(cur) / 2; size >= 1 && budget > 0; size /= 2 {
		for lo := 0; lo < len(cur) && budget > 0; {
			hi := min(lo+size, len(cur))
			cand := append(append([]Cmd(nil), cur[:lo]...), cur[hi:]...)
			budget--
			if _, at, ok := runSequence(opts, cand, sig); ok {
				cur = cand[:at+1]
			} else {
				lo += size
			}
		}
	}
	return cur
}

// ---- (i) bounded-exhaustive ------------------------------------------------------------

type exh struct {
	c        *vf.Ctx
	L        int
	f        raft.FSM
	seqs     int64 // executed template sequences (every node of the tree below the root)
	cmds     int64
	pruned   int64 // branches cut because the template had nothing to do in that state
	failed   int64 // commands that returned an error (before/after dump compared)
	maxLive  int
	reported map[string]bool
	init     string
	initCmds []Cmd
	// fine units: at depth 1 descend only into template `only` (-1 = all); the depth-0 node
	// is counted and reported only when countRoot is set
	only      int
	countRoot bool
}

func liveGroups(d *meta.Data) int {
	n := 0
	for _, db := range d.Databases {
		for _, rp := range db.RetentionPolicies {
			for i := range rp.ShardGroups {
				if !rp.ShardGroups[i].Deleted() {
					n++
				}
			}
		}
	}
	return n
}

// visit applies template t in state (d, mon) and recurses.
func (e *exh) walk(d *meta.Data, mon *Monitor, dump string, depth int, path []int, hist []Cmd) {
	for ti, t := range alphabet {
		if depth == 1 && e.only >= 0 && ti != e.only {
			continue
		}
		cmds := t.fn(d)
		if len(cmds) == 0 {
			e.pruned++
			continue
		}
		e.apply(d, mon, dump, depth, append(path, ti), hist, cmds)
	}
}

func (e *exh) apply(d *meta.Data, mon *Monitor, dump string, depth int, path []int, hist []Cmd, cmds []Cmd) {
	nd := metacmd.DeepCopy(d)
	if depth <= 1 && metacmd.DumpNoPos(nd) != dump {
		e.c.Broken("harness deep copy is not faithful at depth %d", depth)
		return
	}
	ms.VerifFSMSetData(e.f, nd)
	st := &stepper{f: e.f, mon: mon.Fork(), c: e.c}
	cur := dump
	h := hist
	for _, c := range cmds {
		is, after, pan := st.step(c, cur)
		h = append(h[:len(h):len(h)], c)
		if depth > 0 || e.countRoot {
			e.cmds++
		}
		if pan != nil {
			e.c.Inconclusive("apply-panic:"+c.Name, 1)
			return
		}
		cur = after
		if depth == 0 && !e.countRoot {
			continue // this node is checked and counted by the sibling unit
		}
		for _, x := range is {
			if !e.reported[x.Sig] {
				e.reported[x.Sig] = true
				var names []string
				for _, p := range path {
					names = append(names, alphabet[p].name)
				}
				full := append(append([]Cmd(nil), e.initCmds...), h...)
				e.c.Violation(x.Sig, x.What, witness{Opts: exhOpts, Part: "bounded-exhaustive/" + e.init, Template: names, Cmds: full, Sig: x.Sig})
			} else {
				e.c.Count("issues-repeated:"+x.Sig, 1)
			}
		}
	}
	if depth > 0 || e.countRoot {
		e.failed += int64(st.errs)
		e.seqs++
	}
	nd = ms.VerifFSMData(e.f)
	if n := liveGroups(nd); n > e.maxLive {
		e.maxLive = n
	}
	if depth+1 < e.L {
		e.walk(nd, st.mon, cur, depth+1, path, h)
	}
}

// exhaustiveWorker walks one unit of the enumeration tree: all sequences that start with
// template `first` (second < 0), or with (first, second). The node [first] itself belongs to
// the unit with second <= 0.
func exhaustiveWorker(c *vf.Ctx, init string, first, second int, L int) {
	e := &exh{c: c, L: L, f: ms.VerifNewFSM(exhOpts), reported: map[string]bool{}, init: init, initCmds: initials[init], only: -1, countRoot: true}
	st := &stepper{f: e.f, mon: NewMonitor(), c: c}
	st.mon.Check(ms.VerifFSMData(e.f), "")
	for _, cm := range initials[init] {
		is, _, pan := st.step(cm, "")
		if pan != nil || len(is) > 0 {
			c.Broken("initial state %s: panic=%v issues=%v", init, pan, is)
			return
		}
	}
	d := ms.VerifFSMData(e.f)
	c.LogInput(map[string]any{"part": "bounded-exhaustive", "initial": init, "first_template": alphabet[first].name, "L": L})
	cmds := alphabet[first].fn(d)
	unit := fmt.Sprintf("%s/%s", init, alphabet[first].name)
	if second >= 0 {
		unit += "/" + alphabet[second].name
	}
	switch {
	case len(cmds) == 0:
		if second <= 0 {
			e.pruned++
		}
	case second < 0:
		e.apply(d, st.mon, metacmd.DumpNoPos(d), 0, []int{first}, nil, cmds)
	default:
		// apply `first` without descending (its own node is counted by the unit second == 0)
		e.only = second
		e.countRoot = second == 0
		e.apply(d, st.mon, metacmd.DumpNoPos(d), 0, []int{first}, nil, cmds)
	}
	c.Eval(int(e.seqs))
	c.Count("exhaustive:template-sequences-executed", e.seqs)
	c.Count("exhaustive:commands-applied", e.cmds)
	c.Count("exhaustive:branches-pruned-template-not-applicable", e.pruned)
	c.Count("exhaustive:failed-commands-checked-unchanged", e.failed)
	c.Distinct("exhaustive:unit-done", unit)
	if second < 0 {
		c.Extra("exhaustive-unit:"+unit, map[string]any{"sequences": e.seqs, "commands": e.cmds, "pruned": e.pruned, "failed_commands": e.failed, "max_live_groups": e.maxLive})
	}
	if e.maxLive >= 2 && e.failed > 0 {
		c.Nontrivial("exh/" + unit)
	}
}

// ---- (ii) random ------------------------------------------------------------------------

func randomWorker(c *vf.Ctx, k int) {
	r := c.Rand(uint64(7000 + k))
	nSeq := c.Pick(12, 120)
	length := 300
	reported := map[string]bool{}
	panicSampled := false
	known := metacmd.KnownSignatures(c, "C16")
	for sn := 0; sn < nSeq; sn++ {
		opts := ms.VerifFSMOptions{PtNumPerNode: uint32(1 + r.IntN(3)), NumOfShards: int32(r.IntN(4)), RetentionAutoCreate: r.IntN(2) == 0,
			ExpandShardsEnable: r.IntN(3) == 0, UseIncSyncData: r.IntN(2) == 0, SchemaCleanEn: k%2 == 0}
		c.LogInput(map[string]any{"part": "random", "batch": k, "seq": sn, "opts": opts})
		st := &stepper{f: ms.VerifNewFSM(opts), mon: NewMonitor(), c: c}
		st.mon.Check(ms.VerifFSMData(st.f), "")
		g := &metacmd.Gen{R: r, Safe: true, Extreme: r.IntN(2) == 0, D: func() *meta.Data { return ms.VerifFSMData(st.f) }}
		var boot []func() Cmd
		if r.IntN(10) < 8 {
			boot = g.Bootstrap()
		}
		var hist []Cmd
		maxLive := 0
		instances := map[string]bool{}
		for i := 0; i < length; i++ {
			var cm Cmd
			if i < len(boot) {
				cm = boot[i]()
			} else {
				for tries := 0; ; tries++ {
					cm = g.Next(true)
					// ReSharding (range-sharding split) creates [split+1, end) inside the last
					// group by design; it is not part of this property's command set
					if cm.Name != "ReShardingCommand" || tries > 20 {
						break
					}
				}
			}
			hist = append(hist, cm)
			is, _, pan := st.step(cm, "")
			if pan != nil {
				c.Inconclusive("apply-panic:"+cm.Name, 1)
				if !panicSampled && k < 2 {
					panicSampled = true
					c.Sample(map[string]any{"apply_panic": fmt.Sprint(pan), "cmd": cm.Name + " " + cm.Desc, "note": "sequence abandoned; a panic of the state machine is outside C16"})
				}
				break
			}
			for _, x := range is {
				if instances[x.What] {
					continue // the same ill-formed spot, still there
				}
				instances[x.What] = true
				if !reported[x.Sig] {
					reported[x.Sig] = true
					w := witness{Opts: opts, Part: "random", Sig: x.Sig}
					if metacmd.MatchesKnown(known, x.Sig) {
						w.Cmds = append([]Cmd(nil), hist...)
					} else {
						w.Cmds = shrink(opts, append([]Cmd(nil), hist...), x.Sig, c.Pick(100, 250))
						w.Shrunk = true
					}
					c.Violation(x.Sig, x.What, w)
				} else {
					c.Count("issues-repeated:"+x.Sig, 1)
				}
			}
			if n := liveGroups(ms.VerifFSMData(st.f)); n > maxLive {
				maxLive = n
			}
		}
		c.Eval(1)
		c.Count("random:sequences", 1)
		c.Count("random:commands-applied", int64(len(hist)))
		c.Count("random:failed-commands-checked-unchanged", int64(st.errs))
		c.Count("random:observation:(state,shard) pairs with a pruned shard inside a live group", st.mon.PrunedInLive)
		if maxLive >= 2 && st.errs > 0 && st.oks >= 30 {
			c.Nontrivial(fmt.Sprintf("rand/%d/%d", k, sn))
		}
		if sn < 2 && k < 3 {
			var names []string
			for i := 0; i < min(10, len(hist)); i++ {
				names = append(names, hist[i].Name+" "+hist[i].Desc)
			}
			c.Sample(map[string]any{"part": "random", "opts": opts, "commands": len(hist), "returned_nil": st.oks, "returned_error": st.errs, "max_live_groups": maxLive, "first_commands": names})
		}
	}
}

// ---- main --------------------------------------------------------------------------------

func worker(c *vf.Ctx, arg string) {
	parts := strings.Split(arg, ":")
	switch parts[0] {
	case "exh":
		var first, second, L int
		fmt.Sscan(parts[2], &first)
		fmt.Sscan(parts[3], &second)
		fmt.Sscan(parts[4], &L)
		exhaustiveWorker(c, parts[1], first, second, L)
	case "rand":
		var k int
		fmt.Sscan(parts[1], &k)
		randomWorker(c, k)
	default:
		c.Broken("bad worker arg %q", arg)
	}
}

func replay(c *vf.Ctx) {
	b, err := os.ReadFile(c.ReplayIn)
	if err != nil {
		c.Broken("replay: %v", err)
		return
	}
	var f struct {
		Witness witness `json:"witness"`
	}
	if err := json.Unmarshal(b, &f); err != nil || len(f.Witness.Cmds) == 0 {
		c.Broken("replay: unreadable witness: %v", err)
		return
	}
	c.Eval(1)
	if x, at, ok := runSequence(f.Witness.Opts, f.Witness.Cmds, f.Witness.Sig); ok {
		fmt.Printf("REPLAY still violates after command %d: %s\n  %s\n", at+1, x.Sig, x.What)
		c.Violation(x.Sig, x.What, f.Witness)
		return
	}
	if x, at, ok := runSequence(f.Witness.Opts, f.Witness.Cmds, ""); ok {
		fmt.Printf("REPLAY: a different issue after command %d: %s\n  %s\n", at+1, x.Sig, x.What)
		c.Violation(x.Sig, x.What, f.Witness)
		return
	}
	fmt.Println("REPLAY: no violation reproduced")
}

func main() {
	metacmd.ScopeRaceDetector()
	logger.SetLogger(zap.NewNop())
	c := vf.New("C16", "exploration")
	if vf.IsWorker() {
		worker(c, vf.WorkerArg())
		c.Finish()
	}
	if c.ReplayIn != "" {
		replay(c)
		c.Finish()
	}
	L := c.Pick(4, 6)
	c.SetRule("(i) one case = one sequence of up to L command templates (every node of the enumeration tree) applied to the real storeFSM with CheckCatalogue after every command; a unit (initial state, first template) is non-trivial when some state in it had >=2 live shard groups and >=1 failed command was compared before/after. (ii) one case = one random administrative sequence of 300 commands; non-trivial when it reached >=2 live shard groups, >=30 commands returned nil and >=1 failed")
	c.Assume("the FSM is the storeFSM of a Store built by NewStore and never opened; commands are applied with Apply, one log entry each")
	c.Assume("random part: builders mirror the issuers' preconditions (metacmd Safe mode): index groups are expired only when no live shard group refers to them, shards are pruned only out of groups marked deleted, nodes are removed only after segregation, a database is created after its partition view; ReShardingCommand (range-sharding split, which creates [split+1,end) inside the last group by design) is not drawn")
	c.Assume("alignment is judged against the ShardGroupDuration in force when the group first appeared; groups marked deleted carry no obligations; clamping at the minimum / maximum representable time and shard-merge (ReplaceMergeShards) spans that are multiples of the duration are allowed")
	var args []string
	units := 0
	for _, in := range initialNames {
		for t := range alphabet {
			if L <= 4 {
				args = append(args, fmt.Sprintf("exh:%s:%d:-1:%d", in, t, L))
				units++
				continue
			}
			for t2 := range alphabet { // finer units for the deep walk: better balance over the cores
				args = append(args, fmt.Sprintf("exh:%s:%d:%d:%d", in, t, t2, L))
				units++
			}
		}
	}
	nRand := c.Pick(8, 16)
	for k := 0; k < nRand; k++ {
		args = append(args, fmt.Sprintf("rand:%d", k))
	}
	// longest first: random batches, then the units
	sem := make(chan struct{}, 14)
	var wg sync.WaitGroup
	for i := len(args) - 1; i >= 0; i-- {
		a := args[i]
		wg.Add(1)
		sem <- struct{}{}
		go func() {
			defer wg.Done()
			defer func() { <-sem }()
			c.RunWorker(a, time.Duration(c.Pick(15, 38))*time.Minute)
		}()
	}
	wg.Wait()
	metacmd.ScanRaceLogs(c)
	done := c.DistinctCount("exhaustive:unit-done")
	c.Extra("bounded-exhaustive", map[string]any{
		"exhaustive": done == units, "L": L, "alphabet": alphabetNames(), "initial_states": initialNames,
		"units_expected": units, "units_done": done,
		"note": "all sequences of 1..L templates over the alphabet from each initial state; a branch is cut only where a template has nothing to do in the state reached (counted as pruned); totals are in counters exhaustive:*",
	})
	c.Extra("random", map[string]any{"exhaustive": false, "sequence_length": 300, "batches": nRand})
	if done != units {
		c.Inconclusive("exhaustive-units-not-finished", int64(units-done))
	}
	c.Finish()
}
