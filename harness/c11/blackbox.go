package main

// Part (b): black-box differential. The same generated data and queries go to a
// ts-server with ptnum-pernode=1 and to one with ptnum-pernode=N (3 or 4). Answers must
// be equal, and on the N-partition server every query is run a second time with the
// product's own switch /debug/ctrl?mod=force_broadcast_query&enabled=1, which bypasses
// shard-key pruning: pruned and broadcast answers must be equal.

import (
	"fmt"
	"io"
	"math/rand/v2"
	"net/url"
	"sort"
	"strings"
	"sync"
	"time"

	"verifharness/proc"
	"verifharness/vf"
)

// BBStep is one step of the black-box workload, applied to both servers in order.
type BBStep struct {
	Stmt  string `json:"stmt,omitempty"`  // a statement for /query (POST)
	Lines string `json:"lines,omitempty"` // line protocol for /write
}

type BBQuery struct {
	Text  string `json:"q"`
	Class string `json:"class"`
	Prune bool   `json:"has_shard_key_equality"`
}

// BBWitness is a complete, replayable black-box case.
type BBWitness struct {
	PtN     int            `json:"ptnum_pernode"`
	Steps   []BBStep       `json:"steps"`
	Expect  map[string]int `json:"expected_points_per_measurement"`
	Queries []BBQuery      `json:"queries"`
}

const bbDB = "db0"

func genBlackbox(r *rand.Rand, nQueries int) *BBWitness {
	w := &BBWitness{PtN: 3 + r.IntN(2), Expect: map[string]int{}}
	type mdef struct {
		name  string
		key   []string
		tags  []string
		extra string
	}
	msts := []mdef{
		{"m0", []string{"host"}, []string{"host", "region"}, " WITH SHARDKEY host"},
		{"m1", []string{"host", "region"}, []string{"az", "host", "region"}, " WITH SHARDKEY host,region"},
		{"m2", nil, []string{"host", "x"}, ""},
		{"m3", []string{"host"}, []string{"host", "x"}, " WITH SHARDKEY host SHARDS 2"},
		{"m4", []string{"host"}, []string{"host", "region"}, " WITH SHARDKEY host"}, // altered to region between the phases
	}
	w.Steps = append(w.Steps, BBStep{Stmt: "CREATE DATABASE " + bbDB + " WITH REPLICATION 1 SHARD DURATION 1h NAME rp0"})
	for _, m := range msts {
		if m.name == "m2" {
			continue // created by the first write, no shard key
		}
		w.Steps = append(w.Steps, BBStep{Stmt: "CREATE MEASUREMENT " + m.name + m.extra})
	}
	dur := int64(time.Hour)
	base := time.Date(2023, 6, 1, 0, 0, 0, 0, time.UTC).Add(time.Duration(r.IntN(500)) * time.Hour).UnixNano()
	nHosts := 6 + r.IntN(4)
	dom := map[string][]string{"host": tagDomain["host"][:nHosts], "region": tagDomain["region"][:3], "az": tagDomain["az"], "x": tagDomain["x"]}
	seen := map[string]bool{}
	id := int64(0)
	phaseLines := [2][]string{}
	for _, m := range msts {
		n := 40 + r.IntN(20)
		for i := 0; i < n; i++ {
			id++
			slot := r.IntN(4)
			var t int64
			switch r.IntN(5) {
			case 0:
				t = base + int64(slot)*dur
			case 1:
				t = base + int64(slot+1)*dur - 1
			case 2:
				t = base + int64(slot)*dur + 1
			default:
				t = base + int64(slot)*dur + r.Int64N(dur)
			}
			p := Point{ID: id, Mst: m.name, Tags: map[string]string{}, Usage: float64(r.IntN(17)) / 2, Cnt: int64(r.IntN(8)), Status: statusVals[r.IntN(3)], T: I64(t)}
			for _, k := range m.tags {
				isKey := contains(m.key, k) || (m.name == "m4" && k == "region")
				if !isKey && r.IntN(100) < 10 {
					continue
				}
				p.Tags[k] = dom[k][r.IntN(len(dom[k]))]
			}
			// (series, time) must be unique: a second point with the same key would overwrite the first
			for {
				k := p.Line(tagPool)
				k = k[:strings.Index(k, " ")] + fmt.Sprint(p.T)
				if !seen[k] {
					seen[k] = true
					break
				}
				p.T += 2
			}
			ph := 0
			if slot >= 2 || (m.name == "m4" && r.IntN(6) == 0) {
				ph = 1
			}
			phaseLines[ph] = append(phaseLines[ph], p.Line(tagPool))
			w.Expect[m.name]++
		}
	}
	r.Shuffle(len(phaseLines[0]), func(i, j int) { phaseLines[0][i], phaseLines[0][j] = phaseLines[0][j], phaseLines[0][i] })
	r.Shuffle(len(phaseLines[1]), func(i, j int) { phaseLines[1][i], phaseLines[1][j] = phaseLines[1][j], phaseLines[1][i] })
	chunk := func(lines []string) {
		for len(lines) > 0 {
			n := 25 + r.IntN(40)
			if n > len(lines) {
				n = len(lines)
			}
			w.Steps = append(w.Steps, BBStep{Lines: strings.Join(lines[:n], "\n")})
			lines = lines[n:]
		}
	}
	chunk(phaseLines[0])
	w.Steps = append(w.Steps, BBStep{Stmt: "ALTER MEASUREMENT m4 WITH SHARDKEY region"})
	chunk(phaseLines[1])

	pickTime := func() int64 {
		b := base + int64(r.IntN(5))*dur
		switch r.IntN(5) {
		case 0:
			return b
		case 1:
			return b - 1
		case 2:
			return b + 1
		default:
			return b + r.Int64N(dur)
		}
	}
	for i := 0; i < nQueries; i++ {
		m := msts[r.IntN(len(msts))]
		key := map[string]bool{}
		for _, k := range m.key {
			key[k] = true
		}
		if m.name == "m4" {
			key["region"] = true
		}
		g := &condGen{r: r, tagVals: map[string][]string{}, status: statusVals}
		for _, k := range m.tags {
			g.tagKeys = append(g.tagKeys, k)
			if key[k] {
				g.tagKeys = append(g.tagKeys, k, k)
			}
			g.tagVals[k] = append(append([]string{}, dom[k]...), "nosuch")
		}
		for k := range key {
			g.keyTags = append(g.keyTags, k)
		}
		sort.Strings(g.keyTags)
		g.keyOnly = r.IntN(100) < 25
		cond := g.gen(1 + r.IntN(5))
		text := cond.String()
		bare := r.IntN(100) < 25
		if bare {
			text = cond.Bare()
		}
		var parts []string
		if r.IntN(100) < 45 {
			parts = append(parts, fmt.Sprintf("time >= %d", pickTime()))
		}
		_, _, hasOr, _, _ := cond.Shape()
		if len(parts) > 0 || r.IntN(3) == 0 {
			if hasOr || r.IntN(4) == 0 {
				text = "(" + text + ")"
			}
		}
		parts = append(parts, text)
		if r.IntN(100) < 45 {
			parts = append(parts, fmt.Sprintf("time < %d", pickTime()))
		}
		from := m.name
		class := "no-or"
		if hasOr {
			class = "or-of-tag-equalities"
			if cond.orWithNonTagSide(key) {
				class = "or-with-operand-lacking-shard-key-equality"
			}
		}
		if m.name == "m4" {
			class += "/altered-shard-key"
		}
		if r.IntN(100) < 8 {
			from = "/^m[0-9]$/"
			class += "/regex-source"
		}
		if bare {
			class += "/unparenthesised"
		}
		sel := "SELECT id FROM " + from + " WHERE " + strings.Join(parts, " AND ") + " GROUP BY *"
		if r.IntN(3) == 0 {
			sel = "SELECT count(id), sum(id), min(id), max(id) FROM " + from + " WHERE " + strings.Join(parts, " AND ")
		}
		w.Queries = append(w.Queries, BBQuery{Text: sel, Class: class, Prune: cond.hasTagEq(key)})
	}
	return w
}

// answer is the normalised answer of one query: for raw selects the sorted list of
// returned values per column, for aggregates the rows; errors are part of the answer.
func answer(s *proc.Server, q string) string {
	res, err := s.Query(bbDB, q, nil)
	if err != nil {
		if res == nil {
			return "TRANSPORT-ERROR: " + err.Error()
		}
		return "ERROR: " + err.Error()
	}
	var vals []string
	for _, st := range res.Results {
		for _, se := range st.Series {
			for _, row := range se.Values {
				// column 0 is time; keep name so that measurements stay apart
				vals = append(vals, fmt.Sprintf("%s:%v", se.Name, row[1:]))
			}
		}
	}
	sort.Strings(vals)
	return strings.Join(vals, " ")
}

type bbServers struct {
	one, many *proc.Server
}

func (b *bbServers) kill() {
	if b.one != nil {
		b.one.Kill()
	}
	if b.many != nil {
		b.many.Kill()
	}
}

func ctrl(s *proc.Server, params string) error {
	resp, err := s.HTTP.Post(s.URL()+"/debug/ctrl?"+params, "text/plain", nil)
	if err != nil {
		return err
	}
	defer resp.Body.Close()
	b, _ := io.ReadAll(resp.Body)
	if resp.StatusCode/100 != 2 || !strings.Contains(string(b), "success") {
		return fmt.Errorf("ctrl %s: %d %s", params, resp.StatusCode, b)
	}
	return nil
}

// startAndLoad starts both servers in parallel, applies the steps and waits until every
// written point is visible to queries. Returns false (after reporting) if that failed.
func startAndLoad(c *vf.Ctx, w *BBWitness, tag string, ipBase int) (*bbServers, bool) {
	bin, err := proc.Build(c.RepoDir, c.Scratch, "ts-server", false)
	if err != nil {
		c.Broken("build ts-server: %v", err)
		return nil, false
	}
	mk := func(i, pt int) *proc.Server {
		return proc.New(proc.Config{Bin: bin, Dir: fmt.Sprintf("%s/bb-%s-%d", c.Scratch, tag, pt), IP: proc.IP(propNum, ipBase+i), PtNum: pt})
	}
	b := &bbServers{one: mk(0, 1), many: mk(1, w.PtN)}
	var wg sync.WaitGroup
	errs := make([]error, 2)
	for i, s := range []*proc.Server{b.one, b.many} {
		wg.Add(1)
		go func(i int, s *proc.Server) {
			defer wg.Done()
			if err := s.Start(); err != nil {
				errs[i] = err
				return
			}
			if err := s.WaitReady(300 * time.Second); err != nil {
				errs[i] = err
				return
			}
			for si, st := range w.Steps {
				if st.Stmt != "" {
					if _, err := s.Query(bbDB, st.Stmt, nil); err != nil {
						errs[i] = fmt.Errorf("step %d %q: %v", si, st.Stmt, err)
						return
					}
					continue
				}
				wr := s.Write(bbDB, st.Lines, url.Values{"rp": {"rp0"}})
				if !wr.Acked() {
					errs[i] = fmt.Errorf("step %d write not acknowledged: %d %s %v", si, wr.Status, wr.Body, wr.Err)
					return
				}
			}
			// visibility rule: wait until every measurement shows all its points
			deadline := time.Now().Add(150 * time.Second)
			for {
				missing := ""
				for m, n := range w.Expect {
					res, err := s.Query(bbDB, "SELECT count(id) FROM "+m, nil)
					got := int64(0)
					if err == nil && len(res.Results) > 0 && len(res.Results[0].Series) > 0 && len(res.Results[0].Series[0].Values) > 0 {
						if jn, ok := res.Results[0].Series[0].Values[0][1].(interface{ Int64() (int64, error) }); ok {
							got, _ = jn.Int64()
						}
					}
					if got != int64(n) {
						missing = fmt.Sprintf("%s: %d of %d", m, got, n)
						break
					}
				}
				if missing == "" {
					return
				}
				if time.Now().After(deadline) {
					errs[i] = fmt.Errorf("visibility watchdog: %s", missing)
					return
				}
				time.Sleep(200 * time.Millisecond)
			}
		}(i, s)
	}
	wg.Wait()
	for i, err := range errs {
		if err == nil {
			continue
		}
		b.kill()
		if strings.HasPrefix(err.Error(), "visibility watchdog") {
			// an unpruned count that never reaches the number of acknowledged points is judged
			// by other properties (C02); here it only means nothing can be compared
			c.Inconclusive("blackbox-points-never-all-visible", 1)
			fmt.Printf("INCONCLUSIVE property=C11 black-box server %d: %v\n", i, err)
		} else {
			c.Broken("black-box server %d: %v", i, err)
		}
		return nil, false
	}
	return b, true
}

func runBlackboxQueries(c *vf.Ctx, w *BBWitness, b *bbServers) {
	n := len(w.Queries)
	one := make([]string, n)
	pruned := make([]string, n)
	bcast := make([]string, n)
	var wg sync.WaitGroup
	wg.Add(1)
	go func() {
		defer wg.Done()
		for i, q := range w.Queries {
			one[i] = answer(b.one, q.Text)
		}
	}()
	for i, q := range w.Queries {
		pruned[i] = answer(b.many, q.Text)
	}
	if err := ctrl(b.many, "mod=force_broadcast_query&enabled=1"); err != nil {
		c.Broken("force_broadcast_query: %v", err)
		wg.Wait()
		return
	}
	for i, q := range w.Queries {
		bcast[i] = answer(b.many, q.Text)
	}
	_ = ctrl(b.many, "mod=force_broadcast_query&enabled=0")
	wg.Wait()
	catReporter{c}.Distinct("blackbox", "pruned-vs-broadcast")
	for i, q := range w.Queries {
		c.Eval(1)
		c.Count("blackbox-queries", 1)
		c.Distinct("blackbox-query-class", q.Class)
		if strings.HasPrefix(bcast[i], "TRANSPORT-ERROR") || strings.HasPrefix(pruned[i], "TRANSPORT-ERROR") || strings.HasPrefix(one[i], "TRANSPORT-ERROR") {
			c.Inconclusive("blackbox-transport-error", 1)
			continue
		}
		if strings.HasPrefix(bcast[i], "ERROR") {
			c.Count("blackbox-queries-answered-with-error", 1)
		}
		wit := func() any {
			x := *w
			x.Queries = []BBQuery{q}
			return map[string]any{"blackbox": x, "answer_1pt": trunc(one[i]), "answer_Npt_pruned": trunc(pruned[i]), "answer_Npt_broadcast": trunc(bcast[i])}
		}
		if pruned[i] != bcast[i] {
			c.Violation("blackbox:pruned-answer-differs-from-broadcast/"+q.Class,
				fmt.Sprintf("ptnum-pernode=%d: %s\n   pruned:    %s\n   broadcast: %s", w.PtN, q.Text, trunc(pruned[i]), trunc(bcast[i])), wit())
		} else if one[i] != pruned[i] {
			c.Violation("blackbox:answer-depends-on-partition-count/"+q.Class,
				fmt.Sprintf("%s\n   ptnum-pernode=1: %s\n   ptnum-pernode=%d: %s", q.Text, trunc(one[i]), w.PtN, trunc(pruned[i])), wit())
		}
		if q.Prune && bcast[i] != "" && !strings.HasPrefix(bcast[i], "ERROR") {
			c.Nontrivial("bb/" + q.Text)
			c.Count("blackbox-queries-nontrivial", 1)
		}
	}
}

func trunc(s string) string {
	if len(s) > 400 {
		return s[:400] + fmt.Sprintf("… (%d bytes)", len(s))
	}
	return s
}

func blackbox(c *vf.Ctx) {
	// quick: one server pair, 150 queries; thorough: three pairs (fresh data, partition
	// count drawn per pair), 1500 queries each
	rounds := c.Pick(1, 3)
	for round := 0; round < rounds; round++ {
		r := c.Rand(uint64(7 + round))
		w := genBlackbox(r, c.Pick(150, 1500))
		b, ok := startAndLoad(c, w, fmt.Sprintf("r%d", round), 2*round)
		if !ok {
			return
		}
		total := 0
		for _, n := range w.Expect {
			total += n
		}
		c.Count("blackbox-points-written", int64(total))
		c.Count("blackbox-server-pairs", 1)
		c.Distinct("blackbox-ptnum-pernode", fmt.Sprintf("1-vs-%d", w.PtN))
		if round == 0 {
			c.Sample(map[string]any{"part": "blackbox", "ptnum_pernode": w.PtN, "setup": []string{w.Steps[0].Stmt, w.Steps[1].Stmt, w.Steps[2].Stmt},
				"queries": []string{w.Queries[0].Text, w.Queries[1].Text, w.Queries[2].Text}})
		}
		runBlackboxQueries(c, w, b)
		b.kill()
	}
}

func replayBlackbox(c *vf.Ctx, w *BBWitness) {
	b, ok := startAndLoad(c, w, "replay", 10)
	if !ok {
		return
	}
	defer b.kill()
	runBlackboxQueries(c, w, b)
	fmt.Printf("REPLAY property=C11 black-box case: violations=%d\n", c.Violations())
}
