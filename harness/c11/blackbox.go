package main

import "verifharness/vf"

type BBWitness struct{}

func blackbox(c *vf.Ctx)                        {}
func replayBlackbox(c *vf.Ctx, w *BBWitness)    {}
