// Command c11 is the runtime check of property C11: each point lands in exactly one
// covering shard, and no query skips a shard that holds a matching row.
//
// Part (a) runs the real write routing and the real query shard mapping in-process over
// generated catalogues (child workers, race detector / checkptr on). Part (b) is a
// black-box differential between a 1-partition and a multi-partition ts-server, and on
// the latter between pruned and broadcast (force_broadcast_query) execution.
package main

import (
	"encoding/json"
	"fmt"
	"os"
	"path/filepath"
	"strconv"
	"strings"
	"sync"
	"syscall"
	"time"

	"verifharness/vf"
)

const propNum = 11

// relaxRaceDetector: the driver is built with -race for checkptr, but it links the engine
// package, whose init starts a compactor goroutine that races on a statistics gauge every
// 10 s (engine.(*Compactor).statOutOfOrderFiles -> MergeStatistics.SetCurrentOutOfOrderFile).
// With GORACE=halt_on_error=1 that report would kill the monitor after ~20 s. Statistics
// races are outside every property (DESIGN 4.4), so the process re-executes itself once
// with race reports redirected to files in the scratch directory; the parent inspects
// them at the end (raceReports) and reports any race that is not in the statistics
// package. checkptr failures stay fatal.
func relaxRaceDetector() {
	if !raceEnabled || os.Getenv("C11_GORACE_SET") != "" {
		return
	}
	dir := os.Getenv("VERIF_SCRATCH")
	if dir == "" {
		dir = fmt.Sprintf("/var/tmp/verif-scratch/C11-%d", os.Getpid())
	}
	_ = os.MkdirAll(dir, 0o755)
	exe, err := os.Executable()
	if err != nil {
		return
	}
	var env []string
	for _, e := range os.Environ() {
		if !strings.HasPrefix(e, "GORACE=") {
			env = append(env, e)
		}
	}
	env = append(env, "GORACE=halt_on_error=0 exitcode=0 log_path="+dir+"/race", "C11_GORACE_SET="+dir, "VERIF_SCRATCH="+dir)
	_ = syscall.Exec(exe, os.Args, env)
}

// raceReports classifies the race detector's reports of this process and its workers.
func raceReports(c *vf.Ctx) {
	dir := os.Getenv("C11_GORACE_SET")
	if dir == "" {
		return
	}
	files, _ := filepath.Glob(filepath.Join(dir, "race.*"))
	for _, f := range files {
		b, err := os.ReadFile(f)
		if err != nil {
			continue
		}
		for _, rep := range strings.Split(string(b), "WARNING: DATA RACE")[1:] {
			// the first frame of each access
			lines := strings.Split(rep, "\n")
			var tops []string
			for i, ln := range lines {
				t := strings.TrimSpace(ln)
				if (strings.HasPrefix(t, "Write at") || strings.HasPrefix(t, "Read at") || strings.HasPrefix(t, "Previous ") ||
					strings.HasPrefix(t, "Atomic ")) && i+1 < len(lines) {
					tops = append(tops, strings.TrimSpace(lines[i+1]))
				}
			}
			noise := len(tops) > 0
			for _, t := range tops {
				if !strings.Contains(t, "/statisticsPusher/statistics.") && !strings.Contains(t, "/lib/logger.") {
					noise = false
				}
			}
			if noise {
				c.Count("race-reports-in-statistics-or-logger(ignored)", 1)
				continue
			}
			if len(rep) > 3000 {
				rep = rep[:3000]
			}
			c.Violation("race:"+strings.Join(tops, "|"), "the race detector reported a data race outside statistics/logging while the routing code ran", map[string]any{"report": rep})
		}
	}
}

func main() {
	relaxRaceDetector()
	c := vf.New("C11", "exploration")
	if vf.IsWorker() {
		worker(c, vf.WorkerArg())
		c.Finish()
	}
	c.SetRule("(a) a (catalogue, query) pair is non-trivial when the real shard mapper consults a strict subset of the catalogue's shards (pruned by time range and/or shard key) " +
		"and at least one generated point satisfies the query; (b) a black-box query is non-trivial when its broadcast answer on the multi-partition server is non-empty " +
		"and its condition contains an equality on the shard-key tag (so the pruning code has something to extract). Keys are catalogue#/query# resp. query text.")
	c.Assume("the harness evaluator gives the InfluxQL meaning of the generated conditions (tag =,!=,=~,!~; numeric/string field comparisons; AND/OR/parentheses; time bounds only AND-ed at top level); every generated point carries every field")
	c.Assume("partition availability does not change between the writes and the queries of one catalogue; rows routed to a shard of an offline partition are not acknowledged (the capture store refuses them) and are therefore not accepted points")
	c.Assume("a series hint (full_series / specific_series) addresses exactly the series whose tag set the condition spells out")
	c.Assume("black-box: a point counts as accepted when /write answered 204; comparisons start only after count(id) of every measurement shows all accepted points on both servers")
	c.Assume("in-process: catalogue mutations the write path sends to ts-meta (CreateShardGroup, UpdateSchema, CreateMeasurement) are applied with the same meta.Apply* functions ts-meta uses; the sql side reads through the real metaclient.Client cache")

	if c.ReplayIn != "" {
		replay(c)
		c.Finish()
	}

	var wg sync.WaitGroup
	// (b) black-box differential runs concurrently with the in-process workers
	wg.Add(1)
	go func() {
		defer wg.Done()
		blackbox(c)
	}()
	nw := c.Pick(6, 15)
	for w := 0; w < nw; w++ {
		wg.Add(1)
		go func(w int) {
			defer wg.Done()
			c.RunWorker(fmt.Sprintf("inproc-%d-%d", w, nw), time.Duration(c.Pick(10, 35))*time.Minute)
		}(w)
	}
	wg.Wait()
	raceReports(c)
	for _, cat := range requiredCategories {
		if c.DistinctCount("required:"+cat) == 0 {
			c.Inconclusive("category-not-reached:"+cat, 1)
		}
	}
	c.Finish()
}

// categories the design requires; each is mirrored as its own Distinct category
// "required:<cat>" so that the parent can tell after merging the workers whether it was reached.
var requiredCategories = []string{
	"shard-key-definition=hash/0-tags", "shard-key-definition=hash/1-tags", "shard-key-definition=hash/2-tags",
	"shard-key-definition=range/1-tags", "shard-key-definition=range/2-tags",
	"point-boundary-class=t==group.start", "point-boundary-class=t==group.end-1ns",
	"leaf-kinds=tag=", "leaf-kinds=tag!=", "leaf-kinds=tag=~", "leaf-kinds=usage", "leaf-kinds=cnt", "leaf-kinds=status",
	"tree-shape=and=true,or=true,paren=true",
	"blackbox=pruned-vs-broadcast",
}

type catReporter struct{ *vf.Ctx }

// Distinct also mirrors required categories.
func (c catReporter) Distinct(cat, key string) {
	c.Ctx.Distinct(cat, key)
	full := cat + "=" + key
	for _, r := range requiredCategories {
		if r == full {
			c.Ctx.Distinct("required:"+full, "reached")
		}
	}
}

// catalogues per tier: quick 30 x 200 points x 150 queries; thorough x30.
func sizes(c *vf.Ctx) (cats, points, queries int) {
	return c.Pick(30, 900), 200, 150
}

// worker runs the catalogues i with i % nw == w.
func worker(c *vf.Ctx, arg string) {
	parts := strings.Split(arg, "-")
	if len(parts) != 3 || parts[0] != "inproc" {
		c.Broken("bad worker arg %q", arg)
		return
	}
	w, _ := strconv.Atoi(parts[1])
	nw, _ := strconv.Atoi(parts[2])
	cats, np, nq := sizes(c)
	for i := w; i < cats; i += nw {
		policy := "write-available-first"
		if i%3 == 2 {
			policy = "shared-storage"
		}
		r := c.Rand(uint64(1000 + i))
		cs := genCase(r, policy, np, nq)
		key := fmt.Sprintf("cat%d", i)
		c.LogInput(map[string]any{"catalogue_index": i, "case": cs})
		runCase(catReporter{c}, cs, key)
		c.Count("catalogues", 1)
		if i < 2 {
			c.Sample(map[string]any{"part": "inproc", "catalogue": cs.Spec, "first_point": cs.Points[0].Line(cs.TagOrder), "first_queries": []string{cs.Queries[0].Text(), cs.Queries[1].Text(), cs.Queries[2].Text()}})
		}
	}
}

func replay(c *vf.Ctx) {
	b, err := os.ReadFile(c.ReplayIn)
	if err != nil {
		c.Broken("replay: %v", err)
		return
	}
	var f struct {
		Witness struct {
			Case    *Case      `json:"case"`
			PointID int64      `json:"point_id"`
			Query   string     `json:"query"`
			BB      *BBWitness `json:"blackbox"`
		} `json:"witness"`
	}
	if err := json.Unmarshal(b, &f); err != nil {
		c.Broken("replay: %v", err)
		return
	}
	switch {
	case f.Witness.Case != nil:
		n := runCase(catReporter{c}, f.Witness.Case, "replay")
		fmt.Printf("REPLAY property=C11 in-process case: matching points found in unconsulted shards=%d, violations reported=%d\n", n, c.Violations())
	case f.Witness.BB != nil:
		replayBlackbox(c, f.Witness.BB)
	default:
		c.Broken("replay: witness has neither an in-process case nor a black-box case")
	}
}
