package main

// Condition trees: generator, InfluxQL renderer and the harness' own small evaluator.
// The evaluator is deliberately restricted to forms whose InfluxQL meaning is
// unambiguous for fully populated points (every generated point carries every field;
// an absent tag compares as the empty string).

import (
	"fmt"
	"math/rand/v2"
	"regexp"
	"strconv"
	"strings"
)

// Point is one generated point (also the model row).
type Point struct {
	ID     int64             `json:"id"` // unique; written as the integer field "id"
	Mst    string            `json:"mst"`
	Tags   map[string]string `json:"tags"`
	Usage  float64           `json:"usage"`
	Cnt    int64             `json:"cnt"`
	Status string            `json:"status"`
	T      I64               `json:"t"`
}

// I64 is an int64 that travels through JSON as a string (nanosecond timestamps exceed
// 2^53 and witnesses pass through map[string]any in the worker protocol).
type I64 int64

func (v I64) MarshalJSON() ([]byte, error) {
	return []byte(`"` + strconv.FormatInt(int64(v), 10) + `"`), nil
}
func (v *I64) UnmarshalJSON(b []byte) error {
	n, err := strconv.ParseInt(strings.Trim(string(b), `"`), 10, 64)
	*v = I64(n)
	return err
}

func escTag(s string) string {
	r := strings.NewReplacer(",", "\\,", " ", "\\ ", "=", "\\=")
	return r.Replace(s)
}

// Line renders the point as line protocol (tags sorted by key, as clients usually send;
// the parser sorts them anyway).
func (p *Point) Line(tagOrder []string) string {
	var b strings.Builder
	b.WriteString(p.Mst)
	for _, k := range tagOrder {
		if v, ok := p.Tags[k]; ok {
			b.WriteString("," + escTag(k) + "=" + escTag(v))
		}
	}
	fmt.Fprintf(&b, " id=%di,usage=%s,cnt=%di,status=\"%s\" %d", p.ID, strconv.FormatFloat(p.Usage, 'f', -1, 64), p.Cnt, p.Status, p.T)
	return b.String()
}

// Node kinds of a condition tree.
const (
	kAnd    = "and"
	kOr     = "or"
	kParen  = "paren"
	kTagEq  = "tag="  // tag = 'v'
	kTagNe  = "tag!=" // tag != 'v'
	kTagRe  = "tag=~" // tag =~ /re/
	kTagNre = "tag!~"
	kTagRev = "'v'=tag" // literal on the left
	kFloat  = "usage"   // usage <op> number
	kInt    = "cnt"     // cnt <op> integer
	kStr    = "status"  // status =/!= 'str'
)

type Cond struct {
	Kind string  `json:"k"`
	L    *Cond   `json:"l,omitempty"`
	R    *Cond   `json:"r,omitempty"`
	Key  string  `json:"key,omitempty"`
	Val  string  `json:"val,omitempty"`
	Op   string  `json:"op,omitempty"`
	Num  float64 `json:"num,omitempty"`
}

// Bare renders the tree without any parentheses (black-box differential only: what the
// text then means is decided by the server's grammar, identically on every server).
func (c *Cond) Bare() string {
	switch c.Kind {
	case kAnd:
		return c.L.Bare() + " AND " + c.R.Bare()
	case kOr:
		return c.L.Bare() + " OR " + c.R.Bare()
	case kParen:
		return c.L.Bare()
	}
	return c.String()
}

func (c *Cond) String() string {
	switch c.Kind {
	case kAnd:
		return c.L.String() + " AND " + c.R.String()
	case kOr:
		return c.L.String() + " OR " + c.R.String()
	case kParen:
		return "(" + c.L.String() + ")"
	case kTagEq:
		return fmt.Sprintf("%q = '%s'", c.Key, c.Val)
	case kTagNe:
		return fmt.Sprintf("%q != '%s'", c.Key, c.Val)
	case kTagRe:
		return fmt.Sprintf("%q =~ /%s/", c.Key, c.Val)
	case kTagNre:
		return fmt.Sprintf("%q !~ /%s/", c.Key, c.Val)
	case kTagRev:
		return fmt.Sprintf("'%s' = %q", c.Val, c.Key)
	case kFloat:
		return fmt.Sprintf("usage %s %s", c.Op, strconv.FormatFloat(c.Num, 'f', -1, 64))
	case kInt:
		return fmt.Sprintf("cnt %s %d", c.Op, int64(c.Num))
	case kStr:
		return fmt.Sprintf("status %s '%s'", c.Op, c.Val)
	}
	return "?"
}

// needsParen: AND binds tighter than OR; a child OR under AND must be parenthesised for
// the text to parse back to this tree. The generator inserts kParen nodes explicitly,
// so String() is faithful as long as trees are built by gen().
func cmpF(op string, a, b float64) bool {
	switch op {
	case "=":
		return a == b
	case "!=":
		return a != b
	case "<":
		return a < b
	case "<=":
		return a <= b
	case ">":
		return a > b
	case ">=":
		return a >= b
	}
	return false
}

var reCache = map[string]*regexp.Regexp{}

func re(s string) *regexp.Regexp {
	if r, ok := reCache[s]; ok {
		return r
	}
	r := regexp.MustCompile(s)
	reCache[s] = r
	return r
}

// Eval evaluates the tree on a point.
func (c *Cond) Eval(p *Point) bool {
	switch c.Kind {
	case kAnd:
		return c.L.Eval(p) && c.R.Eval(p)
	case kOr:
		return c.L.Eval(p) || c.R.Eval(p)
	case kParen:
		return c.L.Eval(p)
	case kTagEq, kTagRev:
		return p.Tags[c.Key] == c.Val
	case kTagNe:
		return p.Tags[c.Key] != c.Val
	case kTagRe:
		return re(c.Val).MatchString(p.Tags[c.Key])
	case kTagNre:
		return !re(c.Val).MatchString(p.Tags[c.Key])
	case kFloat:
		return cmpF(c.Op, p.Usage, c.Num)
	case kInt:
		return cmpF(c.Op, float64(p.Cnt), c.Num)
	case kStr:
		if c.Op == "=" {
			return p.Status == c.Val
		}
		return p.Status != c.Val
	}
	return false
}

// Shape summarises the tree for coverage: which leaf kinds and connectives occur, and
// whether an OR has an operand without any tag equality (the class of the known defect).
func (c *Cond) Shape() (leaves map[string]bool, hasAnd, hasOr, hasParen bool, depth int) {
	leaves = map[string]bool{}
	var walk func(n *Cond, d int)
	walk = func(n *Cond, d int) {
		if d > depth {
			depth = d
		}
		switch n.Kind {
		case kAnd:
			hasAnd = true
			walk(n.L, d+1)
			walk(n.R, d+1)
		case kOr:
			hasOr = true
			walk(n.L, d+1)
			walk(n.R, d+1)
		case kParen:
			hasParen = true
			walk(n.L, d+1)
		default:
			leaves[n.Kind] = true
		}
	}
	walk(c, 1)
	return
}

func (c *Cond) hasTagEq(keys map[string]bool) bool {
	switch c.Kind {
	case kAnd, kOr:
		return c.L.hasTagEq(keys) || c.R.hasTagEq(keys)
	case kParen:
		return c.L.hasTagEq(keys)
	case kTagEq, kTagRe:
		return keys == nil || keys[c.Key]
	}
	return false
}

// orWithNonTagSide: some OR whose one operand contains a tag equality on a shard-key tag
// and whose other operand contains none.
func (c *Cond) orWithNonTagSide(keys map[string]bool) bool {
	switch c.Kind {
	case kOr:
		l, r := c.L.hasTagEq(keys), c.R.hasTagEq(keys)
		if l != r {
			return true
		}
		return c.L.orWithNonTagSide(keys) || c.R.orWithNonTagSide(keys)
	case kAnd:
		return c.L.orWithNonTagSide(keys) || c.R.orWithNonTagSide(keys)
	case kParen:
		return c.L.orWithNonTagSide(keys)
	}
	return false
}

// condGen draws condition trees over a vocabulary taken from the generated points.
type condGen struct {
	keyOnly bool     // leaves are equalities (or anchored regex alternations) on shard-key tags only
	keyTags []string // the shard-key tags (for keyOnly)
	r       *rand.Rand
	tagKeys []string            // keys to use in tag predicates (shard-key tags weighted by repetition)
	tagVals map[string][]string // values seen (+ one unseen)
	status  []string
}

var cmpOps = []string{"=", "!=", "<", "<=", ">", ">="}

func (g *condGen) leaf() *Cond {
	x := g.r.IntN(100)
	key := g.tagKeys[g.r.IntN(len(g.tagKeys))]
	if g.keyOnly && len(g.keyTags) > 0 {
		// the shapes the pruning code extracts from: tag = 'v' and /^(v|w)$/
		key = g.keyTags[g.r.IntN(len(g.keyTags))]
		vals := g.tagVals[key]
		val := vals[g.r.IntN(len(vals))]
		if x < 80 {
			return &Cond{Kind: kTagEq, Key: key, Val: val}
		}
		v2 := vals[g.r.IntN(len(vals))]
		return &Cond{Kind: kTagRe, Key: key, Val: "^(" + regexp.QuoteMeta(val) + "|" + regexp.QuoteMeta(v2) + ")$"}
	}
	vals := g.tagVals[key]
	val := vals[g.r.IntN(len(vals))]
	switch {
	case x < 50:
		return &Cond{Kind: kTagEq, Key: key, Val: val}
	case x < 56:
		return &Cond{Kind: kTagNe, Key: key, Val: val}
	case x < 64:
		// anchored alternations are rewritten to equalities by the compiler; others stay regexes
		switch g.r.IntN(4) {
		case 0:
			return &Cond{Kind: kTagRe, Key: key, Val: "^" + regexp.QuoteMeta(val) + "$"}
		case 1:
			v2 := vals[g.r.IntN(len(vals))]
			return &Cond{Kind: kTagRe, Key: key, Val: "^(" + regexp.QuoteMeta(val) + "|" + regexp.QuoteMeta(v2) + ")$"}
		case 2:
			return &Cond{Kind: kTagRe, Key: key, Val: "^" + regexp.QuoteMeta(val[:1])}
		default:
			return &Cond{Kind: kTagNre, Key: key, Val: "^" + regexp.QuoteMeta(val) + "$"}
		}
	case x < 68:
		return &Cond{Kind: kTagRev, Key: key, Val: val}
	case x < 82:
		return &Cond{Kind: kFloat, Op: cmpOps[g.r.IntN(len(cmpOps))], Num: float64(g.r.IntN(17)) / 2}
	case x < 93:
		return &Cond{Kind: kInt, Op: cmpOps[g.r.IntN(len(cmpOps))], Num: float64(g.r.IntN(8))}
	default:
		op := "="
		if g.r.IntN(3) == 0 {
			op = "!="
		}
		return &Cond{Kind: kStr, Op: op, Val: g.status[g.r.IntN(len(g.status))]}
	}
}

// gen builds a tree with at most n leaves. Parentheses are inserted wherever AND and OR
// are mixed and, sometimes, where they are not needed.
func (g *condGen) gen(n int) *Cond {
	if n <= 1 {
		return g.leaf()
	}
	ln := 1 + g.r.IntN(n-1)
	l, r := g.gen(ln), g.gen(n-ln)
	kind := kAnd
	if g.r.IntN(100) < 45 {
		kind = kOr
	}
	wrap := func(c *Cond, right bool) *Cond {
		// openGemini's yacc grammar gives AND and OR the same precedence (left-associative),
		// InfluxQL gives AND the higher one. A connective child of the other kind is therefore
		// always parenthesised, so that the text has one reading under both rules; a right
		// child of the same kind is parenthesised to keep the tree shape (same meaning).
		need := (c.Kind == kAnd || c.Kind == kOr) && (c.Kind != kind || right)
		if need || (c.Kind != kParen && g.r.IntN(100) < 12) {
			return &Cond{Kind: kParen, L: c}
		}
		return c
	}
	return &Cond{Kind: kind, L: wrap(l, false), R: wrap(r, true)}
}
