package main

// Part (a): in-process. For a generated catalogue the real write path
// (influx.PointRows.Unmarshal -> coordinator.PointsWriter.RetryWritePointRows, with a
// capturing TSDBStore) tells in which shard(s) each point is stored; the real query
// path (yacc parser -> query.Prepare -> coordinator.ClusterShardMapper.MapShards, which
// calls ShardGroupsByTimeRange / GetAliveShards / TargetShards) tells which shards a
// query consults. The harness' own evaluator decides which points satisfy a condition.

import (
	"errors"
	"fmt"
	"math/rand/v2"
	"os"
	"runtime/debug"
	"sort"
	"strings"
	"sync"
	"time"

	"github.com/openGemini/openGemini/coordinator"
	"github.com/openGemini/openGemini/lib/errno"
	"github.com/openGemini/openGemini/lib/logger"
	"github.com/openGemini/openGemini/lib/netstorage"
	"github.com/openGemini/openGemini/lib/util/lifted/influx/influxql"
	meta "github.com/openGemini/openGemini/lib/util/lifted/influx/meta"
	"github.com/openGemini/openGemini/lib/util/lifted/influx/query"
	"github.com/openGemini/openGemini/lib/util/lifted/vm/protoparser/influx"
)

// ---- write side -------------------------------------------------------------------

type stored struct {
	ShardID uint64
	Pt      uint32
	Owners  []uint32
}

// captureStore is the TSDBStore of the PointsWriter: it records which rows are sent to
// which shard (rows are identified by their unique integer field "id").
type captureStore struct {
	mu      sync.Mutex
	got     map[int64][]stored
	err     []string
	offline map[uint32]bool
	refused map[int64]bool
}

var errPtOffline = errors.New("c11: partition is offline, store unreachable")

func (s *captureStore) WriteRows(ctx *netstorage.WriteContext, nodeID uint64, pt uint32, database, rp string, timeout time.Duration) error {
	s.mu.Lock()
	defer s.mu.Unlock()
	if ctx.Shard == nil {
		s.err = append(s.err, "WriteRows without shard")
		return nil
	}
	off := s.offline[pt]
	for i := range ctx.Rows {
		r := &ctx.Rows[i]
		id := int64(-1)
		for j := range r.Fields {
			if r.Fields[j].Key == "id" {
				id = int64(r.Fields[j].NumValue)
			}
		}
		if id < 0 {
			s.err = append(s.err, "row without id field")
			continue
		}
		if off {
			// a partition that is offline cannot acknowledge: these rows are not accepted
			s.refused[id] = true
			continue
		}
		s.got[id] = append(s.got[id], stored{ShardID: ctx.Shard.ID, Pt: pt, Owners: append([]uint32{}, ctx.Shard.Owners...)})
	}
	if off {
		return errPtOffline
	}
	return nil
}

// ---- read side --------------------------------------------------------------------

var errStop = errors.New("c11: stop after MapShards")

type recMapper struct {
	csm  *coordinator.ClusterShardMapper
	got  *coordinator.ClusterShardMapping
	tr   influxql.TimeRange
	cond influxql.Expr
}

func (r *recMapper) MapShards(stmt *influxql.SelectStatement, t influxql.TimeRange, opt query.SelectOptions, condition influxql.Expr) (query.ShardGroup, error) {
	sg, err := r.csm.MapShards(stmt, t, opt, condition)
	if err != nil {
		return nil, err
	}
	m, ok := sg.(*coordinator.ClusterShardMapping)
	if !ok {
		return nil, fmt.Errorf("MapShards returned %T", sg)
	}
	r.got, r.tr, r.cond = m, t, condition
	return nil, errStop
}

func (r *recMapper) Close() error { return nil }

func parseSelect(q string) (*influxql.SelectStatement, error) {
	p := influxql.NewParser(strings.NewReader(q))
	defer p.Release()
	yy := influxql.NewYyParser(p.GetScanner(), p.GetPara())
	yy.ParseTokens()
	qr, err := yy.GetQuery()
	if err != nil {
		return nil, err
	}
	if len(qr.Statements) != 1 {
		return nil, fmt.Errorf("%d statements", len(qr.Statements))
	}
	st, ok := qr.Statements[0].(*influxql.SelectStatement)
	if !ok {
		return nil, fmt.Errorf("not a select: %T", qr.Statements[0])
	}
	return st, nil
}

// readSet runs the real query preparation for q and returns the consulted shard ids.
func readSet(m *sqlMeta, q string, mst string) (map[string]map[uint64]bool, string, error) {
	st, err := parseSelect(q)
	if err != nil {
		return nil, "", fmt.Errorf("parse %q: %w", q, err)
	}
	csm := &coordinator.ClusterShardMapper{Logger: logger.NewLogger(errno.ModuleCoordinator), MetaClient: m.Client, Timeout: time.Second}
	rec := &recMapper{csm: csm}
	_, err = query.Prepare(st, rec, query.SelectOptions{MaxBucketsN: 0})
	if err != errStop {
		return nil, "", fmt.Errorf("prepare %q: %v", q, err)
	}
	out := map[string]map[uint64]bool{}
	if os.Getenv("C11_DEBUG") != "" {
		fmt.Printf("DEBUG %s\n  timerange [%d,%d] cond %v\n  shardmap %+v\n", q, rec.tr.MinTimeNano(), rec.tr.MaxTimeNano(), rec.cond, rec.got.ShardMap)
	}
	for src, byPt := range rec.got.ShardMap {
		set := out[src.Measurement]
		if set == nil {
			set = map[uint64]bool{}
			out[src.Measurement] = set
		}
		for _, shs := range byPt {
			for _, sh := range shs {
				set[sh.ID] = true
			}
		}
	}
	cond := "<nil>"
	if rec.cond != nil {
		cond = rec.cond.String()
	}
	return out, cond, nil
}

// ---- one catalogue case -----------------------------------------------------------

// Query is one generated query of a case.
type Query struct {
	Mst  string `json:"mst"`
	Cond *Cond  `json:"cond"`
	TMin *I64   `json:"tmin,omitempty"` // time >= TMin
	TMax *I64   `json:"tmax,omitempty"` // time <  TMax
	// Form varies where the time terms are placed in the text
	Form int `json:"form"`
	// FromRegex: FROM /^m[0-9]$/ instead of the single measurement (all measurements of the catalogue)
	FromRegex bool `json:"from_regex,omitempty"`
	// Hint: full_series | specific_series (the condition then names every tag of one series)
	Hint string `json:"hint,omitempty"`
}

func (q *Query) Text() string {
	c := q.Cond.String()
	if (q.Cond.Kind == kOr && (q.TMin != nil || q.TMax != nil)) || q.Form%2 == 1 {
		c = "(" + c + ")"
	}
	var pre, post []string
	if q.TMin != nil {
		t := fmt.Sprintf("time >= %d", *q.TMin)
		if q.Form&2 != 0 {
			t = fmt.Sprintf("time > %d", *q.TMin-1)
		}
		if q.Form&4 != 0 {
			pre = append(pre, t)
		} else {
			post = append(post, t)
		}
	}
	if q.TMax != nil {
		t := fmt.Sprintf("time < %d", *q.TMax)
		if q.Form&8 != 0 {
			t = fmt.Sprintf("time <= %d", *q.TMax-1)
		}
		if q.Form&16 != 0 {
			pre = append(pre, t)
		} else {
			post = append(post, t)
		}
	}
	parts := append(append(pre, c), post...)
	from := q.Mst
	if q.FromRegex {
		from = "/^m[0-9]$/"
	}
	hint := ""
	if q.Hint != "" {
		hint = "/*+ " + q.Hint + " */ "
	}
	return fmt.Sprintf("SELECT %sid FROM %s.%s.%s WHERE %s", hint, dbName, rpName, from, strings.Join(parts, " AND "))
}

func (q *Query) matches(p *Point) bool {
	if p.Mst != q.Mst && !q.FromRegex {
		return false
	}
	if q.TMin != nil && p.T < *q.TMin {
		return false
	}
	if q.TMax != nil && p.T >= *q.TMax {
		return false
	}
	if q.Hint != "" {
		// a series hint makes the query address exactly the series whose tag set the condition
		// spells out; only points of that series are unambiguous matches
		n := 0
		var cnt func(c *Cond)
		cnt = func(c *Cond) {
			if c.Kind == kAnd {
				cnt(c.L)
				cnt(c.R)
			} else {
				n++
			}
		}
		cnt(q.Cond)
		if len(p.Tags) != n {
			return false
		}
	}
	return q.Cond.Eval(p)
}

// Case is a complete, replayable in-process case.
type Case struct {
	Part     string   `json:"part"` // "inproc"
	Spec     CatSpec  `json:"catalogue"`
	Points   []Point  `json:"points"`
	Batches  [][]int  `json:"batches"` // indexes into Points, in write order
	TagOrder []string `json:"tag_order"`
	Queries  []Query  `json:"queries"`
}

type caseResult struct {
	m       *sqlMeta
	shardOf map[int64]uint64 // accepted points
	locs    map[uint64]shardLoc
	groups  []meta.ShardGroupInfo
}

type reporter interface {
	Violation(signature, what string, witness any) bool
	Count(key string, n int64)
	Distinct(cat, key string)
	Nontrivial(key string)
	Eval(n int)
	Sample(s any)
	Inconclusive(kind string, n int64)
	Broken(format string, a ...any)
}

func expectReject(spec *CatSpec, p *Point) bool {
	ms := spec.mst(p.Mst)
	keys := ms.ShardKey
	if len(spec.DBShardKey) > 0 {
		keys = spec.DBShardKey
	}
	for _, k := range keys {
		if _, ok := p.Tags[k]; !ok {
			return true
		}
	}
	return false
}

// writeAll drives the real write path for the case and checks the write-side oracle.
// It returns nil if the machinery failed.
func writeAll(c reporter, cs *Case, caseKey string) *caseResult {
	m, err := buildCatalogue(&cs.Spec)
	if err != nil {
		c.Broken("catalogue %s: %v", caseKey, err)
		return nil
	}
	store := &captureStore{got: map[int64][]stored{}, offline: map[uint32]bool{}, refused: map[int64]bool{}}
	if cs.Spec.HaPolicy == "write-available-first" {
		for _, p := range cs.Spec.OfflinePts {
			store.offline[p] = true
		}
	}
	pw := coordinator.NewPointsWriter(2 * time.Second)
	pw.MetaClient = m
	pw.TSDBStore = store

	write := func(idx []int) error {
		var b strings.Builder
		for _, i := range idx {
			b.WriteString(cs.Points[i].Line(cs.TagOrder))
			b.WriteByte('\n')
		}
		var rows influx.PointRows
		if err := rows.Unmarshal(b.String(), false); err != nil {
			return fmt.Errorf("line protocol rejected: %v", err)
		}
		if len(rows.Rows) != len(idx) {
			return fmt.Errorf("parser returned %d rows for %d lines", len(rows.Rows), len(idx))
		}
		err := pw.RetryWritePointRows(dbName, rpName, rows.Rows)
		if err != nil && !strings.Contains(err.Error(), "partial write") && !strings.Contains(err.Error(), "point should have all shard key") &&
			!strings.Contains(err.Error(), errPtOffline.Error()) {
			return err
		}
		return nil
	}
	for bi, idx := range cs.Batches {
		if err := write(idx); err != nil {
			c.Broken("catalogue %s batch %d: %v", caseKey, bi, err)
			return nil
		}
		if err := m.afterBatch(&cs.Spec, bi+1); err != nil {
			c.Broken("catalogue %s after batch %d: %v", caseKey, bi, err)
			return nil
		}
	}
	if len(store.err) > 0 {
		c.Broken("catalogue %s: %s", caseKey, store.err[0])
		return nil
	}
	locs, groups, err := m.shardIndex()
	if err != nil {
		c.Violation("catalogue-malformed", err.Error(), cs)
		return nil
	}
	res := &caseResult{m: m, shardOf: map[int64]uint64{}, locs: locs, groups: groups}
	for k, n := range m.applied {
		c.Count("catalogue-mutation:"+k, int64(n))
	}
	first := store.got
	rejects := 0
	for i := range cs.Points {
		p := &cs.Points[i]
		got := first[p.ID]
		c.Count("points-routed", 1)
		if store.refused[p.ID] {
			// routed to a shard of an offline partition (fixed SHARDS n mapping or RANGE sharding ignore
			// availability): the store would not acknowledge, so the point is not an accepted point
			c.Count("points-refused(shard on offline partition)", 1)
			if len(got) != 0 {
				c.Violation("write:stored-in-2-shards", fmt.Sprintf("point %d was sent to an offline partition and to shard(s) %v", p.ID, got), witnessOne(cs, nil, p))
			}
			continue
		}
		if expectReject(&cs.Spec, p) {
			rejects++
			if len(got) != 0 {
				c.Violation("write:point-without-shard-key-tag-stored", fmt.Sprintf("point %d lacks a shard-key tag but was sent to shard(s) %v", p.ID, got), witnessOne(cs, nil, p))
			}
			continue
		}
		if len(got) != 1 {
			c.Violation(fmt.Sprintf("write:stored-in-%d-shards", len(got)), fmt.Sprintf("point %d (%s) was sent to %d shards: %v", p.ID, p.Line(cs.TagOrder), len(got), got), witnessOne(cs, nil, p))
			continue
		}
		loc, ok := locs[got[0].ShardID]
		if !ok {
			c.Violation("write:shard-not-in-catalogue", fmt.Sprintf("point %d sent to shard %d which no shard group owns", p.ID, got[0].ShardID), witnessOne(cs, nil, p))
			continue
		}
		if len(got[0].Owners) == 0 {
			c.Violation("write:shard-without-owner", fmt.Sprintf("point %d mapped to shard %d which has no owner partition", p.ID, got[0].ShardID), witnessOne(cs, nil, p))
			continue
		}
		t := time.Unix(0, int64(p.T))
		if t.Before(loc.Group.StartTime) || !t.Before(loc.Group.EndTime) {
			c.Violation("write:group-does-not-cover-time", fmt.Sprintf("point %d t=%d stored in shard %d of group %d [%d,%d)", p.ID, p.T, got[0].ShardID,
				loc.Group.ID, loc.Group.StartTime.UnixNano(), loc.Group.EndTime.UnixNano()), witnessOne(cs, nil, p))
			continue
		}
		res.shardOf[p.ID] = got[0].ShardID
		// boundary class of the point inside its group
		switch {
		case int64(p.T) == loc.Group.StartTime.UnixNano():
			c.Distinct("point-boundary-class", "t==group.start")
		case int64(p.T) == loc.Group.EndTime.UnixNano()-1:
			c.Distinct("point-boundary-class", "t==group.end-1ns")
		case int64(p.T) == loc.Group.StartTime.UnixNano()+1:
			c.Distinct("point-boundary-class", "t==group.start+1ns")
		default:
			c.Distinct("point-boundary-class", "inside")
		}
	}
	c.Count("points-rejected-as-expected(missing shard-key tag)", int64(rejects))

	// deterministic from the shard key: equal (measurement, group, shard-key values) => equal shard
	rp, _ := m.master.RetentionPolicy(dbName, rpName)
	byKey := map[string]uint64{}
	for i := range cs.Points {
		p := &cs.Points[i]
		sh, ok := res.shardOf[p.ID]
		if !ok {
			continue
		}
		g := locs[sh].Group
		msti := rp.Measurement(p.Mst)
		if msti == nil {
			c.Broken("catalogue %s: measurement %s missing after writes", caseKey, p.Mst)
			return nil
		}
		keys := cs.Spec.DBShardKey
		if len(keys) == 0 {
			if ski := msti.GetShardKey(g.ID); ski != nil {
				keys = ski.ShardKey
			}
		}
		var kb strings.Builder
		fmt.Fprintf(&kb, "%s|g%d", p.Mst, g.ID)
		if len(keys) == 0 {
			ks := make([]string, 0, len(p.Tags))
			for k := range p.Tags {
				ks = append(ks, k)
			}
			sort.Strings(ks)
			keys = ks
		}
		for _, k := range keys {
			fmt.Fprintf(&kb, "|%s=%s", k, p.Tags[k])
		}
		if prev, ok := byKey[kb.String()]; ok && prev != sh {
			c.Violation("write:same-shard-key-different-shards", fmt.Sprintf("points with %s are stored in shards %d and %d", kb.String(), prev, sh), witnessOne(cs, nil, p))
		}
		byKey[kb.String()] = sh
	}

	// determinism across batching: write everything again as one shuffled batch
	if len(cs.Spec.Reshards) == 0 && cs.Spec.DurChangeAfter == 0 {
		store.got = map[int64][]stored{}
		store.refused = map[int64]bool{}
		all := make([]int, 0, len(cs.Points))
		for _, b := range cs.Batches {
			all = append(all, b...)
		}
		for i, j := 0, len(all)-1; i < j; i, j = i+1, j-1 {
			all[i], all[j] = all[j], all[i]
		}
		if err := write(all); err != nil {
			c.Broken("catalogue %s rewrite: %v", caseKey, err)
			return nil
		}
		for i := range cs.Points {
			p := &cs.Points[i]
			sh, ok := res.shardOf[p.ID]
			if !ok {
				continue
			}
			again := store.got[p.ID]
			if len(again) != 1 || again[0].ShardID != sh {
				c.Violation("write:not-deterministic-across-batches", fmt.Sprintf("point %d first stored in shard %d, on an identical second write in %v", p.ID, sh, again), witnessOne(cs, nil, p))
			}
		}
		c.Count("points-rewritten-same-shard-check", int64(len(res.shardOf)))
	}
	return res
}

func witnessOne(cs *Case, q *Query, p *Point) any {
	w := *cs
	w.Queries = nil
	if q != nil {
		w.Queries = []Query{*q}
	}
	out := map[string]any{"case": w}
	if p != nil {
		out["point_id"] = p.ID
	}
	if q != nil {
		out["query"] = q.Text()
	}
	return out
}

// shardKeySet returns the tags that act as shard key anywhere in the measurement's history.
func shardKeySet(spec *CatSpec, mst string) map[string]bool {
	out := map[string]bool{}
	ms := spec.mst(mst)
	for _, k := range spec.DBShardKey {
		out[k] = true
	}
	if len(spec.DBShardKey) == 0 {
		for _, k := range ms.ShardKey {
			out[k] = true
		}
		for _, k := range ms.AlterKey {
			out[k] = true
		}
	}
	return out
}

// checkQuery runs one query through the real preparation and applies the read-side oracle.
// It returns the number of violations found.
func checkQuery(c reporter, cs *Case, res *caseResult, q *Query, caseKey string, qi int) int {
	text := q.Text()
	var sets map[string]map[uint64]bool
	var reduced string
	var err error
	if p, st := catchStack(func() { sets, reduced, err = readSet(res.m, text, q.Mst) }); p != nil {
		c.Violation("read:panic:"+topFrame(st), fmt.Sprintf("query preparation panicked: %v\n%s", p, st), witnessOne(cs, q, nil))
		return 1
	}
	if err != nil {
		c.Broken("catalogue %s query %q: %v", caseKey, text, err)
		return 0
	}
	c.Eval(1)
	ms := cs.Spec.mst(q.Mst)
	keys := shardKeySet(&cs.Spec, q.Mst)
	// all shards of the measurement's groups overlapping the query's time window
	total := 0
	for _, g := range res.groups {
		total += len(g.Shards)
	}
	matched, viol := 0, 0
	for i := range cs.Points {
		p := &cs.Points[i]
		sh, ok := res.shardOf[p.ID]
		if !ok || !q.matches(p) {
			continue
		}
		matched++
		set := sets[p.Mst]
		if !set[sh] {
			viol++
			if viol > 1 {
				continue
			}
			class := "no-or"
			_, _, hasOr, _, _ := q.Cond.Shape()
			if hasOr {
				class = "or-of-tag-equalities"
				if q.Cond.orWithNonTagSide(keys) {
					class = "or-with-operand-lacking-shard-key-equality"
				}
			}
			alt := ""
			if cs.Spec.mst(p.Mst).AlterAfter > 0 {
				alt = "/altered-shard-key"
			}
			if q.FromRegex {
				alt += "/regex-source"
			}
			if q.Hint != "" {
				alt += "/hint-" + q.Hint
			}
			sig := fmt.Sprintf("read:matching-point-in-unconsulted-shard/%s/%s%s", ms.Type, class, alt)
			ids := make([]uint64, 0, len(set))
			for id := range set {
				ids = append(ids, id)
			}
			sort.Slice(ids, func(i, j int) bool { return ids[i] < ids[j] })
			c.Violation(sig, fmt.Sprintf("%s : point %d (%s) satisfies the condition and is stored in shard %d (group %d), but the query consults only shards %v (condition after compile: %s)",
				text, p.ID, p.Line(cs.TagOrder), sh, res.locs[sh].Group.ID, ids, reduced), witnessOne(cs, q, p))
		}
	}
	// coverage
	leaves, hasAnd, hasOr, hasParen, depth := q.Cond.Shape()
	for k := range leaves {
		c.Distinct("leaf-kinds", k)
	}
	c.Distinct("tree-shape", fmt.Sprintf("and=%v,or=%v,paren=%v", hasAnd, hasOr, hasParen))
	c.Distinct("tree-depth", fmt.Sprint(depth))
	if q.TMin != nil || q.TMax != nil {
		c.Count("queries-with-time-bounds", 1)
	}
	if q.Cond.orWithNonTagSide(keys) {
		c.Count("queries-or-with-operand-lacking-shard-key-equality", 1)
	}
	if q.Hint != "" {
		c.Count("queries-with-hint:"+q.Hint, 1)
	}
	consulted := 0
	for _, set := range sets {
		consulted += len(set)
	}
	if q.FromRegex {
		total *= len(cs.Spec.Msts)
		c.Count("queries-with-regex-source", 1)
	}
	pruned := consulted < total
	if pruned {
		c.Count("queries-consulting-a-strict-subset-of-shards", 1)
	}
	if matched > 0 {
		c.Count("queries-with-matching-points", 1)
	}
	c.Count("point-condition-evaluations", int64(len(cs.Points)))
	c.Count("matching-points-checked", int64(matched))
	if pruned && matched > 0 {
		c.Nontrivial(fmt.Sprintf("%s/q%d", caseKey, qi))
		c.Distinct("nontrivial-by-sharding", fmt.Sprintf("%s/key=%d", ms.Type, len(ms.ShardKey)))
	}
	return viol
}

// catchStack runs f and returns the panic value and stack, if it panicked.
func catchStack(f func()) (p any, stack string) {
	defer func() {
		if r := recover(); r != nil {
			p = r
			stack = string(debug.Stack())
		}
	}()
	f()
	return nil, ""
}

// topFrame returns the first openGemini function below the panic in a stack dump.
func topFrame(stack string) string {
	lines := strings.Split(stack, "\n")
	seenPanic := false
	for _, ln := range lines {
		if strings.HasPrefix(ln, "panic(") {
			seenPanic = true
			continue
		}
		if seenPanic && strings.Contains(ln, "openGemini/") && !strings.HasPrefix(ln, "\t") {
			if i := strings.LastIndex(ln, "("); i > 0 {
				ln = ln[:i]
			}
			if i := strings.LastIndex(ln, "/"); i >= 0 {
				ln = ln[i+1:]
			}
			return ln
		}
	}
	return "unknown"
}

// ---- generation -------------------------------------------------------------------

var tagPool = []string{"az", "host", "region", "x"}
var tagDomain = map[string][]string{
	"az":     {"1", "2"},
	"host":   {"a", "b", "c", "ab", "h0", "h1", "h2", "h3", "h4", "b c"},
	"region": {"x", "y", "z", "xx"},
	"x":      {"1", "2", "3"},
}
var statusVals = []string{"ok", "warn", "err"}
var durations = []time.Duration{time.Hour, 24 * time.Hour, 7 * 24 * time.Hour, 37 * time.Minute, 10 * time.Second}

func subset(r *rand.Rand, pool []string, n int) []string {
	idx := r.Perm(len(pool))[:n]
	sort.Ints(idx)
	out := make([]string, 0, n)
	for _, i := range idx {
		out = append(out, pool[i])
	}
	sort.Strings(out)
	return out
}

func genCase(r *rand.Rand, policy string, nPoints, nQueries int) *Case {
	cs := &Case{Part: "inproc"}
	s := &cs.Spec
	s.HaPolicy = policy
	s.Nodes = 1 + r.IntN(3)
	s.PtPerNode = 1 + r.IntN(4)
	total := s.Nodes * s.PtPerNode
	if policy == "write-available-first" && total >= 2 && r.IntN(100) < 35 {
		s.OfflinePts = []uint32{uint32(r.IntN(total))}
		if total >= 4 && r.IntN(2) == 0 {
			o := uint32(r.IntN(total))
			if o != s.OfflinePts[0] {
				s.OfflinePts = append(s.OfflinePts, o)
			}
		}
	}
	dur := durations[r.IntN(len(durations))]
	s.GroupDurNs = int64(dur)
	s.RoundTrip = r.IntN(2) == 0
	typ := "hash"
	if r.IntN(100) < 22 {
		typ = "range"
	}
	if typ == "hash" && r.IntN(100) < 12 {
		s.DBShardKey = subset(r, []string{"host", "region"}, 1+r.IntN(2))
	}
	nm := 1 + r.IntN(3)
	for i := 0; i < nm; i++ {
		ms := MstSpec{Name: fmt.Sprintf("m%d", i), Type: typ}
		x := r.IntN(100)
		switch {
		case x < 22 && typ == "hash":
			ms.ShardKey = nil
		case x < 60:
			ms.ShardKey = []string{"host"}
		case x < 85:
			ms.ShardKey = subset(r, []string{"az", "host", "region"}, 2)
		default:
			ms.ShardKey = []string{"az", "host", "region"}
		}
		have := map[string]bool{}
		for _, k := range ms.ShardKey {
			have[k] = true
		}
		for _, k := range s.DBShardKey {
			have[k] = true
		}
		if typ == "hash" && r.IntN(100) < 30 {
			// ALTER MEASUREMENT ... WITH SHARDKEY: a different key for later shard groups
			for tries := 0; tries < 5; tries++ {
				nk := subset(r, []string{"az", "host", "region"}, 1+r.IntN(2))
				if strings.Join(nk, ",") != strings.Join(ms.ShardKey, ",") {
					ms.AlterKey = nk
					ms.AlterAfter = 1 + r.IntN(2)
					for _, k := range nk {
						have[k] = true
					}
					break
				}
			}
		}
		for _, k := range tagPool {
			if !have[k] && r.IntN(100) < 60 {
				have[k] = true
			}
		}
		if !have["host"] && len(have) == 0 {
			have["host"] = true
		}
		for _, k := range tagPool {
			if have[k] {
				ms.Tags = append(ms.Tags, k)
			}
		}
		if typ == "hash" && total > 1 && r.IntN(100) < 30 {
			ms.NumOfShards = int32(1 + r.IntN(total-1))
		}
		if typ == "hash" && len(ms.ShardKey) == 0 && ms.AlterAfter == 0 && ms.NumOfShards == 0 && r.IntN(100) < 30 {
			ms.Auto = true
		}
		s.Msts = append(s.Msts, ms)
	}
	allAuto := true
	for _, ms := range s.Msts {
		if !ms.Auto {
			allAuto = false
		}
	}
	// time slots: consecutive shard groups from an aligned base
	base := time.Date(2023, 6, 1, 0, 0, 0, 0, time.UTC).Add(time.Duration(r.IntN(1000)) * dur).Truncate(dur).UnixNano()
	nSlots := 2 + r.IntN(4)
	bounds := make([]int64, 0, nSlots+1)
	for i := 0; i <= nSlots; i++ {
		bounds = append(bounds, base+int64(i)*int64(dur))
	}
	if !allAuto && r.IntN(100) < 30 {
		s.PreGroupsAt = []I64{I64(bounds[r.IntN(nSlots)] + int64(dur)/2)}
	}
	pickTime := func() int64 {
		b := bounds[r.IntN(len(bounds))]
		switch r.IntN(7) {
		case 0:
			return b
		case 1:
			return b - 1
		case 2:
			return b + 1
		case 3:
			return b + int64(dur)/2
		case 4:
			return b + r.Int64N(int64(dur))
		case 5:
			return b - 1 - r.Int64N(int64(dur)/4+1)
		default:
			return b + r.Int64N(1000)
		}
	}
	// points
	domSize := map[string]int{}
	for _, k := range tagPool {
		domSize[k] = 2 + r.IntN(len(tagDomain[k])-1)
	}
	for i := 0; i < nPoints; i++ {
		ms := &s.Msts[r.IntN(len(s.Msts))]
		p := Point{ID: int64(i + 1), Mst: ms.Name, Tags: map[string]string{}, Usage: float64(r.IntN(17)) / 2, Cnt: int64(r.IntN(8)),
			Status: statusVals[r.IntN(len(statusVals))], T: I64(pickTime())}
		key := shardKeySet(s, ms.Name)
		for _, k := range ms.Tags {
			if !key[k] && r.IntN(100) < 12 {
				continue // optional tag absent
			}
			p.Tags[k] = tagDomain[k][r.IntN(domSize[k])]
		}
		// reject probe: drop a tag that is part of every effective shard key
		if r.IntN(100) < 3 && ms.AlterAfter == 0 {
			eff := ms.ShardKey
			if len(s.DBShardKey) > 0 {
				eff = s.DBShardKey
			}
			if len(eff) > 0 && len(p.Tags) > 1 {
				delete(p.Tags, eff[r.IntN(len(eff))])
			}
		}
		if len(p.Tags) == 0 {
			p.Tags["host"] = "a"
			if !contains(ms.Tags, "host") {
				ms.Tags = append(ms.Tags, "host")
				sort.Strings(ms.Tags)
			}
		}
		cs.Points = append(cs.Points, p)
	}
	cs.TagOrder = append([]string{}, tagPool...)
	// batches: three shuffled batches. A time slot (future shard group) first appears in a
	// random batch, so that some shard groups are created only after the catalogue changes
	// (ALTER ... SHARDKEY, re-sharding) scheduled between the batches.
	firstBatch := map[int64]int{}
	slotOf := func(t int64) int64 {
		d := t - base
		if d < 0 {
			return -1 - (-d-1)/int64(dur)
		}
		return d / int64(dur)
	}
	// one hash-sharded catalogue in three changes its shard group duration after the first or
	// second batch (range bounds belong to a group, so not there): the last time slot is written
	// from the first batch on (a short group that ends late exists), the earlier slots only after
	// the change (they get long groups that start earlier and end later than the short one)
	if typ == "hash" && r.IntN(3) == 0 {
		s.DurChangeAfter = 1 + r.IntN(2)
		s.DurFactor = []int{4, 6, 24}[r.IntN(3)]
	}
	cs.Batches = [][]int{nil, nil, nil}
	for _, i := range r.Perm(nPoints) {
		sl := slotOf(int64(cs.Points[i].T))
		fb, ok := firstBatch[sl]
		if !ok {
			fb = r.IntN(3)
			if s.DurChangeAfter > 0 {
				if sl >= int64(nSlots-1) {
					fb = 0
				} else {
					fb = s.DurChangeAfter + r.IntN(3-s.DurChangeAfter)
				}
			}
			firstBatch[sl] = fb
		}
		b := fb + r.IntN(3-fb)
		cs.Batches[b] = append(cs.Batches[b], i)
	}
	// RANGE re-sharding (bounds taken from real shard-key strings)
	if typ == "range" && total >= 2 && r.IntN(100) < 70 {
		keys := map[string]bool{}
		for i := range cs.Points {
			p := &cs.Points[i]
			ms := s.mst(p.Mst)
			if expectReject(s, p) {
				continue
			}
			k := p.Mst + "_0000"
			for _, t := range ms.ShardKey {
				k += "," + t + "=" + p.Tags[t]
			}
			if r.IntN(4) == 0 && len(k) > len(p.Mst)+8 {
				k = k[:len(k)-1-r.IntN(3)]
			}
			keys[k] = true
		}
		ks := make([]string, 0, len(keys))
		for k := range keys {
			ks = append(ks, k)
		}
		sort.Strings(ks)
		if len(ks) > 1 {
			ks = ks[1:] // a bound equal to the smallest key would leave the first shard empty (harmless, but dull)
		}
		nb := 1 + r.IntN(min(total-1, 3))
		if nb > len(ks) {
			nb = len(ks)
		}
		if nb > 0 {
			pick := r.Perm(len(ks))[:nb]
			sort.Ints(pick)
			var bs []string
			for _, i := range pick {
				bs = append(bs, ks[i])
			}
			s.Reshards = append(s.Reshards, Reshard{AfterBatch: 1 + r.IntN(2), SplitTime: -I64(1 + r.IntN(3)), Bounds: bs})
		}
	}
	// queries
	for i := 0; i < nQueries; i++ {
		ms := &s.Msts[r.IntN(len(s.Msts))]
		key := shardKeySet(s, ms.Name)
		g := &condGen{r: r, tagVals: map[string][]string{}, status: statusVals}
		for _, k := range ms.Tags {
			g.tagKeys = append(g.tagKeys, k)
			if key[k] {
				g.tagKeys = append(g.tagKeys, k, k) // shard-key tags three times as likely
			}
			g.tagVals[k] = append(append([]string{}, tagDomain[k][:domSize[k]]...), "nosuch")
		}
		for k := range key {
			if contains(ms.Tags, k) {
				g.keyTags = append(g.keyTags, k)
			}
		}
		sort.Strings(g.keyTags)
		g.keyOnly = r.IntN(100) < 20
		q := Query{Mst: ms.Name, Cond: g.gen(1 + r.IntN(5)), Form: r.IntN(32), FromRegex: len(s.Msts) > 1 && r.IntN(100) < 8}
		if r.IntN(100) < 6 {
			// hint query: the condition names every tag of one existing series
			var cand []*Point
			for pi := range cs.Points {
				if cs.Points[pi].Mst == ms.Name && !expectReject(s, &cs.Points[pi]) {
					cand = append(cand, &cs.Points[pi])
				}
			}
			if len(cand) > 0 {
				p := cand[r.IntN(len(cand))]
				ks := make([]string, 0, len(p.Tags))
				for k := range p.Tags {
					ks = append(ks, k)
				}
				sort.Strings(ks)
				var tree *Cond
				for _, k := range ks {
					leaf := &Cond{Kind: kTagEq, Key: k, Val: p.Tags[k]}
					if tree == nil {
						tree = leaf
					} else {
						tree = &Cond{Kind: kAnd, L: tree, R: leaf}
					}
				}
				q.Cond, q.FromRegex = tree, false
				q.Hint = []string{"full_series", "specific_series"}[r.IntN(2)]
			}
		}
		if r.IntN(100) < 55 {
			t := I64(pickTime())
			q.TMin = &t
		}
		if r.IntN(100) < 55 {
			t := I64(pickTime())
			if q.TMin != nil && t <= *q.TMin {
				t = *q.TMin + 1 + I64(r.Int64N(2*int64(dur)))
			}
			q.TMax = &t
		}
		cs.Queries = append(cs.Queries, q)
	}
	return cs
}

func contains(a []string, s string) bool {
	for _, x := range a {
		if x == s {
			return true
		}
	}
	return false
}

// runCase executes one in-process case; returns the number of read-side violations.
func runCase(c reporter, cs *Case, caseKey string) int {
	var res *caseResult
	if p, st := catchStack(func() { res = writeAll(c, cs, caseKey) }); p != nil {
		c.Violation("write:panic:"+topFrame(st), fmt.Sprintf("write path panicked: %v\n%s", p, st), witnessOne(cs, nil, nil))
		return 1
	}
	if res == nil {
		return 0
	}
	s := &cs.Spec
	c.Distinct("ha-policy", s.HaPolicy)
	c.Distinct("partitions", fmt.Sprint(s.Nodes*s.PtPerNode))
	c.Distinct("group-duration", time.Duration(s.GroupDurNs).String())
	if s.DurChangeAfter > 0 {
		c.Distinct("shard-duration-change", fmt.Sprintf("x%d-after-batch-%d", s.DurFactor, s.DurChangeAfter))
	}
	c.Distinct("offline-partitions", fmt.Sprint(len(s.OfflinePts)))
	c.Distinct("catalogue-via-marshal-roundtrip", fmt.Sprint(s.RoundTrip))
	c.Distinct("shard-groups-per-catalogue", fmt.Sprint(len(res.groups)))
	if len(s.DBShardKey) > 0 {
		c.Distinct("shard-key-definition", fmt.Sprintf("database-level/%d-tags", len(s.DBShardKey)))
	}
	for _, ms := range s.Msts {
		c.Distinct("shard-key-definition", fmt.Sprintf("%s/%d-tags", ms.Type, len(ms.ShardKey)))
		if ms.NumOfShards > 0 {
			c.Distinct("shard-key-definition", "hash/with-SHARDS-n")
		}
		if ms.AlterAfter > 0 {
			c.Distinct("shard-key-definition", "hash/altered-between-groups")
		}
		if ms.Auto {
			c.Distinct("shard-key-definition", "auto-created-by-write")
		}
	}
	if len(s.Reshards) > 0 {
		c.Distinct("shard-key-definition", "range/re-sharded-with-bounds")
	}
	viol := 0
	for qi := range cs.Queries {
		viol += checkQuery(c, cs, res, &cs.Queries[qi], caseKey, qi)
	}
	return viol
}
