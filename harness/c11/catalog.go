package main

// Catalogue construction for the in-process part: a self-contained, JSON-able
// specification is turned into a real meta.Data through the same Data methods the
// ts-meta state machine applies (CreateDataNode, CreateDatabase, CreateDBPtView,
// CreateMeasurement, CreateShardGroup, AlterShardKey, ReSharding, UpdateSchema ...), and
// is then served to the real coordinator.PointsWriter and coordinator.ClusterShardMapper
// through the real metaclient.Client (reads go to its cache = our Data; the few RPC
// mutations the write path issues are applied to the Data directly, as ts-meta would).

import (
	"fmt"
	"sort"
	"sync"
	"time"

	"github.com/openGemini/openGemini/lib/config"
	"github.com/openGemini/openGemini/lib/metaclient"
	"github.com/openGemini/openGemini/lib/util/lifted/hashicorp/serf/serf"
	"github.com/openGemini/openGemini/lib/util/lifted/influx/influxql"
	meta "github.com/openGemini/openGemini/lib/util/lifted/influx/meta"
	proto2 "github.com/openGemini/openGemini/lib/util/lifted/influx/meta/proto"
	"github.com/openGemini/openGemini/lib/util/lifted/protobuf/proto"
	"go.uber.org/zap"
)

const (
	dbName = "db0"
	rpName = "rp0"
)

// MstSpec describes one measurement of a catalogue.
type MstSpec struct {
	Name        string   `json:"name"`
	ShardKey    []string `json:"shard_key"` // sorted, as the parser sorts it; empty = none
	Type        string   `json:"type"`      // hash | range
	NumOfShards int32    `json:"num_of_shards,omitempty"`
	Tags        []string `json:"tags"` // tag keys points of this measurement may carry
	Auto        bool     `json:"auto"` // not created explicitly: the write path creates it
	AlterKey    []string `json:"alter_key,omitempty"`
	AlterAfter  int      `json:"alter_after,omitempty"` // ALTER ... SHARDKEY is applied after this many write batches (0 = never)
}

// Reshard is one RANGE re-sharding step (what ts-meta's balancer applies).
type Reshard struct {
	AfterBatch int      `json:"after_batch"`
	SplitTime  I64      `json:"split_time"`
	Bounds     []string `json:"bounds"`
}

// CatSpec is the whole catalogue; together with points and a condition it is a witness.
type CatSpec struct {
	HaPolicy    string    `json:"ha_policy"` // write-available-first | shared-storage
	Nodes       int       `json:"nodes"`
	PtPerNode   int       `json:"pt_per_node"`
	OfflinePts  []uint32  `json:"offline_pts,omitempty"`
	GroupDurNs  int64     `json:"group_duration_ns"`
	DBShardKey  []string  `json:"db_shard_key,omitempty"`
	Msts        []MstSpec `json:"measurements"`
	RoundTrip   bool      `json:"round_trip"` // the sql side sees the catalogue after Marshal/Unmarshal (as ts-sql does)
	Reshards    []Reshard `json:"reshards,omitempty"`
	PreGroupsAt []I64     `json:"pre_groups_at,omitempty"` // shard groups created before any measurement has ShardIdexes
	// ALTER RETENTION POLICY ... SHARD DURATION (GroupDurNs x DurFactor) applied after write
	// batch DurChangeAfter (0 = never): later points outside the existing groups get LONGER groups
	// that overlap and out-last the short ones, so the group list is no longer in start order
	DurChangeAfter int `json:"shard_duration_change_after_batch,omitempty"`
	DurFactor      int `json:"shard_duration_factor,omitempty"`
}

func (s *CatSpec) mst(name string) *MstSpec {
	for i := range s.Msts {
		if s.Msts[i].Name == name {
			return &s.Msts[i]
		}
	}
	return nil
}

// sqlMeta is what the coordinator sees: the real client, with the raft-going mutations
// applied locally to the master Data.
type sqlMeta struct {
	*metaclient.Client
	mu        sync.Mutex
	master    *meta.Data
	roundTrip bool
	applied   map[string]int // mutation kind -> count (coverage)
}

func (m *sqlMeta) publish() error {
	if !m.roundTrip {
		m.Client.SetCacheData(m.master)
		return nil
	}
	b, err := m.master.MarshalBinary()
	if err != nil {
		return err
	}
	d := &meta.Data{}
	if err := d.UnmarshalBinary(b); err != nil {
		return err
	}
	m.Client.SetCacheData(d)
	return nil
}

func (m *sqlMeta) CreateShardGroup(database, policy string, timestamp time.Time, version uint32, engineType config.EngineType) (*meta.ShardGroupInfo, error) {
	m.mu.Lock()
	defer m.mu.Unlock()
	sg, tier, err := m.master.GetTierOfShardGroup(database, policy, timestamp, m.Client.ShardTier, engineType)
	if err != nil {
		return nil, err
	}
	if sg == nil {
		// what ts-meta applies for a CreateShardGroupCommand
		cmd := &proto2.CreateShardGroupCommand{
			Database: proto.String(database), Policy: proto.String(policy),
			Timestamp: proto.Int64(timestamp.UnixNano()), ShardTier: proto.Uint64(tier),
			EngineType: proto.Uint32(uint32(engineType)), Version: proto.Uint32(version),
		}
		if err := applyCmd(m.master, proto2.Command_CreateShardGroupCommand, proto2.E_CreateShardGroupCommand_Command, cmd, meta.ApplyCreateShardGroup); err != nil {
			return nil, err
		}
		m.applied["create-shard-group"]++
		if err := m.publish(); err != nil {
			return nil, err
		}
	}
	// answer from the cache, as the real client does
	return m.Client.CreateShardGroup(database, policy, timestamp, version, engineType)
}

func (m *sqlMeta) UpdateSchema(database string, retentionPolicy string, mst string, fieldToCreate []*proto2.FieldSchema) error {
	cmd := &proto2.UpdateSchemaCommand{
		Database: proto.String(database), RpName: proto.String(retentionPolicy),
		Measurement: proto.String(mst), FieldToCreate: fieldToCreate,
	}
	return m.UpdateSchemaByCmd(cmd)
}

func (m *sqlMeta) UpdateSchemaByCmd(cmd *proto2.UpdateSchemaCommand) error {
	m.mu.Lock()
	defer m.mu.Unlock()
	// deep copy: the write path re-uses the FieldSchema pool after the call
	cp := proto.Clone(cmd).(*proto2.UpdateSchemaCommand)
	if err := applyCmd(m.master, proto2.Command_UpdateSchemaCommand, proto2.E_UpdateSchemaCommand_Command, cp, meta.ApplyUpdateSchema); err != nil {
		return err
	}
	m.applied["update-schema"]++
	return m.publish()
}

func (m *sqlMeta) CreateMeasurement(database, retentionPolicy, mst string, shardKey *meta.ShardKeyInfo, numOfShards int32, indexR *influxql.IndexRelation,
	engineType config.EngineType, colStoreInfo *meta.ColStoreInfo, schemaInfo []*proto2.FieldSchema, options *meta.Options) (*meta.MeasurementInfo, error) {
	m.mu.Lock()
	defer m.mu.Unlock()
	if msti, _ := m.Client.Measurement(database, retentionPolicy, mst); msti != nil {
		return m.Client.CreateMeasurement(database, retentionPolicy, mst, shardKey, numOfShards, indexR, engineType, colStoreInfo, schemaInfo, options)
	}
	cmd := &proto2.CreateMeasurementCommand{
		DBName: proto.String(database), RpName: proto.String(retentionPolicy), Name: proto.String(mst),
		EngineType: proto.Uint32(uint32(engineType)), InitNumOfShards: proto.Int32(numOfShards),
	}
	if shardKey != nil {
		cmd.Ski = shardKey.Marshal()
	}
	if err := applyCmd(m.master, proto2.Command_CreateMeasurementCommand, proto2.E_CreateMeasurementCommand_Command, cmd, meta.ApplyCreateMeasurement); err != nil {
		return nil, err
	}
	m.applied["create-measurement"]++
	if err := m.publish(); err != nil {
		return nil, err
	}
	return m.Client.Measurement(database, retentionPolicy, mst)
}

func applyCmd(d *meta.Data, typ proto2.Command_Type, ext *proto.ExtensionDesc, val interface{}, f func(*meta.Data, *proto2.Command) error) error {
	cmd := &proto2.Command{Type: &typ}
	if err := proto.SetExtension(cmd, ext, val); err != nil {
		return err
	}
	// through the wire format, as the raft log entry would be
	b, err := proto.Marshal(cmd)
	if err != nil {
		return err
	}
	var got proto2.Command
	if err := proto.Unmarshal(b, &got); err != nil {
		return err
	}
	return f(d, &got)
}

// buildCatalogue creates the Data from the spec (everything that exists before the first write).
func buildCatalogue(s *CatSpec) (*sqlMeta, error) {
	if meta.DataLogger == nil {
		meta.DataLogger = zap.NewNop() // ts-meta sets this at start-up
	}
	if err := config.SetHaPolicy(s.HaPolicy); err != nil {
		return nil, err
	}
	d := &meta.Data{PtNumPerNode: uint32(s.PtPerNode), TakeOverEnabled: true}
	for i := 0; i < s.Nodes; i++ {
		id, err := d.CreateDataNode(fmt.Sprintf("127.0.0.%d:8400", i+1), fmt.Sprintf("127.0.0.%d:8401", i+1), "", "")
		if err != nil {
			return nil, fmt.Errorf("CreateDataNode: %w", err)
		}
		if err := d.UpdateNodeStatus(id, int32(serf.StatusAlive), uint64(i+1), "8011"); err != nil {
			return nil, fmt.Errorf("UpdateNodeStatus: %w", err)
		}
	}
	rpi := meta.NewRetentionPolicyInfo(rpName)
	rpi.ReplicaN = 1
	rpi.Duration = 0
	rpi.ShardGroupDuration = time.Duration(s.GroupDurNs)
	rpi.IndexGroupDuration = time.Duration(s.GroupDurNs) * 4
	var ski *proto2.ShardKeyInfo
	if len(s.DBShardKey) > 0 {
		ski = (&meta.ShardKeyInfo{ShardKey: s.DBShardKey, Type: influxql.HASH}).Marshal()
	}
	if err := d.CreateDatabase(dbName, rpi, ski, false, 1, nil); err != nil {
		return nil, fmt.Errorf("CreateDatabase: %w", err)
	}
	if _, err := d.CreateDBPtView(dbName); err != nil {
		return nil, fmt.Errorf("CreateDBPtView: %w", err)
	}
	off := map[uint32]bool{}
	for _, p := range s.OfflinePts {
		off[p] = true
	}
	for _, pt := range d.DBPtView(dbName) {
		if off[pt.PtId] {
			continue
		}
		p := pt
		if err := d.UpdatePtInfo(dbName, p.Marshal(), pt.Owner.NodeID, uint32(meta.Online)); err != nil {
			return nil, fmt.Errorf("UpdatePtInfo: %w", err)
		}
	}
	cli := metaclient.NewClient("", false, 16)
	m := &sqlMeta{Client: cli, master: d, roundTrip: s.RoundTrip, applied: map[string]int{}}
	for i := range s.Msts {
		ms := &s.Msts[i]
		if ms.Auto {
			continue
		}
		k := &meta.ShardKeyInfo{ShardKey: ms.ShardKey, Type: ms.Type}
		if len(ms.ShardKey) == 0 {
			k.ShardKey = nil
		}
		if err := d.CreateMeasurement(dbName, rpName, ms.Name, k.Marshal(), ms.NumOfShards, nil, config.TSSTORE, nil, nil, nil); err != nil {
			return nil, fmt.Errorf("CreateMeasurement %s: %w", ms.Name, err)
		}
	}
	for _, t := range s.PreGroupsAt {
		if err := d.CreateShardGroup(dbName, rpName, time.Unix(0, int64(t)), 0, config.TSSTORE, 0); err != nil {
			return nil, fmt.Errorf("CreateShardGroup: %w", err)
		}
	}
	if err := m.publish(); err != nil {
		return nil, fmt.Errorf("publish: %w", err)
	}
	return m, nil
}

// afterBatch applies the catalogue changes scheduled after write batch number n (1-based).
func (m *sqlMeta) afterBatch(s *CatSpec, n int) error {
	m.mu.Lock()
	defer m.mu.Unlock()
	changed := false
	for i := range s.Msts {
		ms := &s.Msts[i]
		if ms.AlterAfter == n && ms.AlterAfter > 0 {
			k := &meta.ShardKeyInfo{ShardKey: ms.AlterKey, Type: ms.Type}
			cmd := &proto2.AlterShardKeyCmd{DBName: proto.String(dbName), RpName: proto.String(rpName), Name: proto.String(ms.Name), Ski: k.Marshal()}
			if err := applyCmd(m.master, proto2.Command_AlterShardKeyCmd, proto2.E_AlterShardKeyCmd_Command, cmd, meta.ApplyAlterShardKey); err != nil {
				return fmt.Errorf("AlterShardKey: %w", err)
			}
			m.applied["alter-shard-key"]++
			changed = true
		}
	}
	if s.DurChangeAfter == n && n > 0 && s.DurFactor > 1 {
		d := time.Duration(s.GroupDurNs * int64(s.DurFactor))
		if err := m.master.UpdateRetentionPolicy(dbName, rpName, &meta.RetentionPolicyUpdate{ShardGroupDuration: &d}, false); err != nil {
			return fmt.Errorf("UpdateRetentionPolicy(shard duration): %w", err)
		}
		m.applied["alter-shard-duration"]++
		changed = true
	}
	for _, r := range s.Reshards {
		if r.AfterBatch != n {
			continue
		}
		rp, err := m.master.RetentionPolicy(dbName, rpName)
		if err != nil {
			return err
		}
		if len(rp.ShardGroups) == 0 {
			continue
		}
		last := rp.ShardGroups[len(rp.ShardGroups)-1]
		split := int64(r.SplitTime)
		if split < 0 {
			// -k: k quarters into the last shard group (whatever group that is at this moment)
			split = last.StartTime.UnixNano() + (-split)*(last.EndTime.UnixNano()-last.StartTime.UnixNano())/4
		}
		info := &meta.ReShardingInfo{Database: dbName, Rp: rpName, ShardGroupID: last.ID, SplitTime: split, Bounds: r.Bounds}
		if err := m.master.ReSharding(info); err != nil {
			return fmt.Errorf("ReSharding: %w", err)
		}
		m.applied["resharding"]++
		changed = true
	}
	if changed {
		return m.publish()
	}
	return nil
}

// shardIndex maps every shard id of the retention policy (master copy) to its group.
type shardLoc struct {
	Group   meta.ShardGroupInfo
	Idx     int
	ShardID uint64
}

func (m *sqlMeta) shardIndex() (map[uint64]shardLoc, []meta.ShardGroupInfo, error) {
	rp, err := m.master.RetentionPolicy(dbName, rpName)
	if err != nil {
		return nil, nil, err
	}
	out := map[uint64]shardLoc{}
	groups := append([]meta.ShardGroupInfo{}, rp.ShardGroups...)
	sort.Slice(groups, func(i, j int) bool { return groups[i].ID < groups[j].ID })
	for _, g := range groups {
		for i, sh := range g.Shards {
			if _, dup := out[sh.ID]; dup {
				return nil, nil, fmt.Errorf("shard id %d appears twice in the catalogue", sh.ID)
			}
			out[sh.ID] = shardLoc{Group: g, Idx: i, ShardID: sh.ID}
		}
	}
	return out, groups, nil
}
