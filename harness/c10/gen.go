package main

import (
	"fmt"
	"math/rand/v2"
	"regexp"
	"sort"
	"strings"
	"unicode/utf8"
)

// Tag is one tag pair of a series (key and value are arbitrary byte strings, never
// empty: the write path drops empty keys/values before the index sees them).
type Tag struct {
	K string `json:"k"`
	V string `json:"v"`
}

// Series is one logical series: measurement (without the version suffix) plus its tag
// set sorted by key.
type Series struct {
	M    string `json:"m"`
	Tags []Tag  `json:"tags"`
}

func (s *Series) Get(key string) string {
	for _, t := range s.Tags {
		if t.K == key {
			return t.V
		}
	}
	return ""
}

// Canon is an injective rendering used as the shadow-map key.
func (s *Series) Canon() string {
	var b strings.Builder
	fmt.Fprintf(&b, "%d:%s", len(s.M), s.M)
	for _, t := range s.Tags {
		fmt.Fprintf(&b, "|%d:%s=%d:%s", len(t.K), t.K, len(t.V), t.V)
	}
	return b.String()
}

// Listing is the (unescaped) form in which the index lists a series key:
// name_0000,k=v,k=v
func (s *Series) Listing() string {
	var b strings.Builder
	b.WriteString(s.M + verSuffix)
	for _, t := range s.Tags {
		b.WriteString("," + t.K + "=" + t.V)
	}
	return b.String()
}

const verSuffix = "_0000"

// Op is one step of an index history.
type Op struct {
	Kind  string `json:"kind"`            // insert | flush | clear | reopen | delete | check
	Items []int  `json:"items,omitempty"` // insert: indexes into History.Universe (repeats allowed)
	Path  string `json:"path,omitempty"`  // insert: builder | mutex | series
	Par   int    `json:"par,omitempty"`   // insert through the builder path from Par goroutines (overlapping)
	Empty bool   `json:"empty,omitempty"` // insert: the written points also carry empty-valued tags
	Del   *Leaf  `json:"del,omitempty"`   // delete: measurement + predicate (key = 'value')
	DelM  string `json:"delm,omitempty"`
	Label string `json:"label,omitempty"` // check: name of the phase
	NPred int    `json:"npred,omitempty"` // check: number of predicates (0: id lookups and listings only)
	// Quiet (clear / reopen): the id lookups of every known series that normally follow are left
	// out - they would put every series back into the caches that were just dropped
	Quiet bool `json:"quiet,omitempty"`
}

// History is a self-contained, replayable case.
type History struct {
	ID       int      `json:"id"`
	Bloom    bool     `json:"bloom"`
	Compress bool     `json:"compress"`
	Universe []Series `json:"universe"`
	Ops      []Op     `json:"ops"`
	WithDel  bool     `json:"with_del"`
	PruneM   string   `json:"prune_m,omitempty"` // measurement laid out for the series-by-series pruning of ANDs
}

var hostileMeasurements = []string{
	"m", "m1", "mm", "m_", "cpu", "cpu,load", "a b", "x=y", "é", "数据", "m\x01", "m\x00\x02", "M", "m.1", "m-1", "_", "m_0000",
}

var hostileKeys = []string{
	"host", "h", "ho", "hos", "hostname", "region", "a,b", "k=v", "k v", "k\x00", "\x01k", "k\x02x", "ключ", "_", "z", "Host",
	"k'q", "k\"q", "a.b", "a|b", "\xfe", "time_", "0k",
}

var hostileValues = []string{
	"web", "web-1", "web-12", "web-2", "we", "w", "db", "d", "db-1", "xwebx", "WEB", "Web",
	"a,b", "a=b", "a b", " ", ",", "=", "a,b=c d",
	"x\x00y", "\x00", "\x01", "\x02", "\x02\x02", "\x00\x01\x02", "a\x01", "\x01a", "0", "1", "2", "\x000", "a\x001",
	"値", "é", "é", "日本語", "ñandú", "😀",
	"web|db", "a.b", "axb", "a*b", "(", ")", "[x]", "^web$", "$", "^", "\\", "a\\b", "'", "\"", "a'b", "/", "a/b", "+", "?", "{1}",
	"foo", "foobar", "xfoo", "ab", "xaybz", "a", "aa", "aaa", "b",
	"\xfe", "\xff", "\xfe\x01", "v\xc3",
}

func pick[T any](r *rand.Rand, xs []T) T { return xs[r.IntN(len(xs))] }

func shuffled[T any](r *rand.Rand, xs []T) []T {
	out := append([]T(nil), xs...)
	r.Shuffle(len(out), func(i, j int) { out[i], out[j] = out[j], out[i] })
	return out
}

// genUniverse builds the set of series of one history.
func genUniverse(r *rand.Rand, big bool) []Series {
	nm := 2 + r.IntN(5)
	ms := shuffled(r, hostileMeasurements)[:nm]
	if r.IntN(2) == 0 {
		ms[0] = "m" // a plain one is always handy for the black-box part
	}
	seen := map[string]bool{}
	var out []Series
	for mi, m := range ms {
		nk := 1 + r.IntN(5)
		keys := shuffled(r, hostileKeys)[:nk]
		// per key a value pool with shared prefixes and hostile bytes
		pools := make([][]string, nk)
		for i := range keys {
			nv := 2 + r.IntN(10)
			pools[i] = shuffled(r, hostileValues)[:nv]
			if r.IntN(3) == 0 {
				pools[i] = append(pools[i], "web", "web-1", "web-12", "db")
			}
		}
		n := 5 + r.IntN(60)
		if big && mi == 0 {
			n = 150 + r.IntN(150) // > 64 series share a tag value: multi-row tag->ids items
			keys = append(keys, "seq")
			pools = append(pools, nil)
		}
		for j := 0; j < n; j++ {
			s := Series{M: m}
			for i, k := range keys {
				if k == "seq" && pools[i] == nil {
					s.Tags = append(s.Tags, Tag{k, fmt.Sprintf("%04d", j)})
					continue
				}
				present := r.IntN(10) < 7
				if big && mi == 0 && i == 0 {
					// heavy sharing of one value
					if r.IntN(10) < 8 {
						s.Tags = append(s.Tags, Tag{k, pools[i][0]})
					} else {
						s.Tags = append(s.Tags, Tag{k, pick(r, pools[i])})
					}
					continue
				}
				if present {
					s.Tags = append(s.Tags, Tag{k, pick(r, pools[i])})
				}
			}
			sort.Slice(s.Tags, func(a, b int) bool { return s.Tags[a].K < s.Tags[b].K })
			c := s.Canon()
			if seen[c] {
				continue
			}
			seen[c] = true
			out = append(out, s)
		}
	}
	// a series without any tag, and near-duplicates that differ only by where a
	// boundary falls (k="ab",v="c" vs k="a",v="bc"; value vs key swapped)
	extra := []Series{
		{M: ms[0]},
		{M: ms[0], Tags: []Tag{{"ab", "c"}}},
		{M: ms[0], Tags: []Tag{{"a", "bc"}}},
		{M: ms[0], Tags: []Tag{{"a", "b"}, {"c", "d"}}},
		{M: ms[0], Tags: []Tag{{"a", "b,c=d"}}},
		{M: ms[0] + "a", Tags: []Tag{{"b", "c"}}},
		{M: ms[0], Tags: []Tag{{"ab", "c"}, {"b", "c"}}},
	}
	for _, s := range extra {
		if c := s.Canon(); !seen[c] {
			seen[c] = true
			out = append(out, s)
		}
	}
	return out
}

// genHistory: inserts of the whole universe in batches (with re-inserts of known
// series), interleaved with flush, cache clear and close/reopen.
func genHistory(r *rand.Rand, id int, bloom, compress bool, nPred int) *History {
	big := r.IntN(4) == 0
	h := &History{ID: id, Bloom: bloom, Compress: compress, Universe: genUniverse(r, big), WithDel: r.IntN(3) == 0}
	if r.IntN(3) != 0 {
		h.PruneM = pick(r, []string{"prune", "pr une", "pr,une", "prüne"})
		h.Universe = append(h.Universe, pruneSeries(r, h.PruneM)...)
	}
	order := r.Perm(len(h.Universe))
	var done []int
	pos := 0
	for pos < len(order) {
		bs := 1 + r.IntN(40)
		if big {
			bs = 20 + r.IntN(120)
		}
		if pos+bs > len(order) {
			bs = len(order) - pos
		}
		items := append([]int(nil), order[pos:pos+bs]...)
		pos += bs
		// re-insert some known series, and repeat some new ones inside the batch
		for k := r.IntN(1 + len(done)/3); k > 0 && len(done) > 0; k-- {
			items = append(items, done[r.IntN(len(done))])
		}
		for k := r.IntN(3); k > 0; k-- {
			items = append(items, items[r.IntN(len(items))])
		}
		r.Shuffle(len(items), func(i, j int) { items[i], items[j] = items[j], items[i] })
		op := Op{Kind: "insert", Items: items, Path: "builder", Empty: r.IntN(4) == 0}
		switch r.IntN(6) {
		case 0:
			op.Path = "mutex"
		case 1:
			op.Path = "series"
		case 2, 3:
			op.Par = 2 + r.IntN(3)
		}
		h.Ops = append(h.Ops, op)
		done = append(done, order[pos-bs:pos]...)
		// one time in three: the caches are dropped (or the index re-opened) and the next batch
		// STARTS with a series never seen, followed by known ones: the write path stops looking
		// rows up at the first unknown one, so the known rows behind it reach the index's
		// create-if-absent step without a lookup and with nothing cached
		if pos < len(order) && len(done) >= 3 && r.IntN(3) == 0 {
			h.Ops = append(h.Ops, Op{Kind: "flush"}, Op{Kind: pick(r, []string{"clear", "clear", "reopen"}), Quiet: true})
			it := []int{order[pos]}
			for q := 2 + r.IntN(4); q > 0; q-- {
				it = append(it, done[r.IntN(len(done))])
			}
			h.Ops = append(h.Ops, Op{Kind: "insert", Items: it, Path: "builder"})
			done = append(done, order[pos])
			pos++
		}
		// interleave maintenance
		for k := r.IntN(3); k > 0; k-- {
			switch r.IntN(6) {
			case 0, 1:
				h.Ops = append(h.Ops, Op{Kind: "flush"})
			case 2, 3:
				h.Ops = append(h.Ops, Op{Kind: "clear"})
			case 4:
				h.Ops = append(h.Ops, Op{Kind: "reopen"})
			case 5:
				// re-insert of known series only
				var it []int
				for q := 1 + r.IntN(10); q > 0; q-- {
					it = append(it, done[r.IntN(len(done))])
				}
				h.Ops = append(h.Ops, Op{Kind: "insert", Items: it, Path: pick(r, []string{"builder", "mutex", "series"})})
			}
		}
	}
	// the same kind of questions while the history is still going on: later inserts
	// must invalidate whatever the search paths cached at that point
	mid := len(h.Ops) / 2
	h.Ops = append(h.Ops[:mid], append([]Op{{Kind: "flush"}, {Kind: "check", Label: "mid-history", NPred: nPred / 3}}, h.Ops[mid:]...)...)
	// every history ends with the sequence that the property names explicitly
	h.Ops = append(h.Ops, Op{Kind: "flush"}, Op{Kind: "clear"}, Op{Kind: "reopen"}, Op{Kind: "check", Label: "end-of-history", NPred: nPred - nPred/3})
	if h.WithDel {
		// delete by one plain equality, look again, reopen, write the deleted series again
		var cand []*mstView
		for _, v := range views(h.Universe, nil) {
			if len(v.Keys) > 0 && len(v.Series) > 3 {
				cand = append(cand, v)
			}
		}
		if len(cand) > 0 {
			v := pick(r, cand)
			k := pick(r, v.Keys)
			l := Leaf{Key: k, Op: "=", Val: pick(r, v.Vals[k])}
			var victims []int
			for _, si := range v.Series {
				if h.Universe[si].Get(k) == l.Val {
					victims = append(victims, si)
				}
			}
			if len(victims) > 20 {
				victims = victims[:20]
			}
			h.Ops = append(h.Ops, Op{Kind: "delete", DelM: v.M, Del: &l}, Op{Kind: "flush"}, Op{Kind: "check", Label: "after-delete", NPred: 12},
				Op{Kind: "reopen"}, Op{Kind: "check", Label: "after-delete-and-reopen"},
				Op{Kind: "insert", Items: victims, Path: pick(r, []string{"builder", "mutex", "series"})}, Op{Kind: "flush"},
				Op{Kind: "check", Label: "after-recreate", NPred: 6},
				// the new incarnation must be as stable as any other series
				Op{Kind: "clear"}, Op{Kind: "insert", Items: victims, Path: "builder"}, Op{Kind: "reopen"},
				Op{Kind: "insert", Items: victims, Path: pick(r, []string{"builder", "mutex", "series"})}, Op{Kind: "flush"},
				Op{Kind: "check", Label: "after-recreate-and-reopen", NPred: 6})
		} else {
			h.WithDel = false
		}
	}
	return h
}

// pruneSeries lays out one measurement for the index's series-by-series pruning of an AND
// of tag filters (taken when a filter's remembered cost exceeds ten times the current
// candidate set): tag region shares the literal prefix "abc" for most series, a few values
// merely contain it or differ in case, a few series lack the tag; tag host selects 2-4
// series per value, and every host group mixes the kinds; tag dc splits the lot in two.
func pruneSeries(r *rand.Rand, m string) []Series {
	n := 66 + r.IntN(12)
	nHosts := n / 3
	var out []Series
	for i := 0; i < n; i++ {
		s := Series{M: m}
		var region string
		switch {
		case i%11 == 3:
			region = "" // lacks the tag
		case i%11 == 7:
			region = pick(r, []string{"zzabc", "xabcx", "zzabc-1", "ABC-1", "ab", "bc-abc"})
		case i%17 == 0:
			region = "abc"
		default:
			region = fmt.Sprintf("abc-%02d", i%50)
		}
		s.Tags = append(s.Tags, Tag{"dc", pick(r, []string{"east", "west"})})
		s.Tags = append(s.Tags, Tag{"host", fmt.Sprintf("h%02d", i%nHosts)})
		if region != "" {
			s.Tags = append(s.Tags, Tag{"region", region})
		}
		s.Tags = append(s.Tags, Tag{"seq", fmt.Sprintf("%04d", i)})
		out = append(out, s)
	}
	return out
}

// genAnchoredAnd: a pure AND of 2-3 comparisons, one of them a regexp that starts with
// an anchored literal (for the PromQL flavour the anchoring comes from the language, so
// the pattern itself starts with the literal).
func genAnchoredAnd(r *rand.Rand, v *mstView, prom bool) ([]Leaf, *Pred) {
	hosts := v.Vals["host"]
	host := "h00"
	if len(hosts) > 0 {
		host = pick(r, hosts)
	}
	var pat string
	if prom {
		pat = pick(r, []string{"abc.*", "abc-1.", "abc-.5", "abc(-[0-9]+)?", "zz.*", "abc-[0-4].*"})
	} else {
		pat = pick(r, []string{"^abc", "^abc-1", "^abc-.5$", "^abc.*[0-9]$", "^zz", "^abc$", "^abc-[0-4]", "^ab"})
	}
	re := Leaf{Key: "region", Op: pick(r, []string{"=~", "=~", "!~"}), Val: pat, Shape: "^literal..."}
	sel := Leaf{Key: "host", Op: "=", Val: host}
	if r.IntN(4) == 0 {
		sel = Leaf{Key: "host", Op: "=~", Val: regexp.QuoteMeta(host) + "$", Shape: "literal$"}
		if prom {
			sel.Val = regexp.QuoteMeta(host)
		}
	}
	leaves := []Leaf{sel, re}
	order := []int{0, 1}
	if r.IntN(2) == 0 {
		order = []int{1, 0}
	}
	tree := &Pred{Kind: "and", L: &Pred{Kind: "leaf", Leaf: order[0]}, R: &Pred{Kind: "leaf", Leaf: order[1], Paren: r.IntN(4) == 0}}
	if r.IntN(3) == 0 {
		leaves = append(leaves, Leaf{Key: "dc", Op: pick(r, []string{"=", "!="}), Val: pick(r, []string{"east", "west"})})
		if r.IntN(2) == 0 {
			tree = &Pred{Kind: "and", L: tree, R: &Pred{Kind: "leaf", Leaf: 2}}
		} else {
			tree = &Pred{Kind: "and", L: &Pred{Kind: "leaf", Leaf: 2}, R: tree}
		}
	}
	return leaves, tree
}

func isPureAnd(p *Pred) bool {
	if p.Kind == "leaf" {
		return true
	}
	return p.Kind == "and" && isPureAnd(p.L) && isPureAnd(p.R)
}

// ---------------------------------------------------------------- predicates

// Leaf is one comparison  key op value.
type Leaf struct {
	Key   string `json:"key"`
	Op    string `json:"op"` // = != =~ !~
	Val   string `json:"val"`
	Shape string `json:"shape,omitempty"` // generator's name of the regex shape (coverage only)
}

func (l *Leaf) IsRegex() bool { return l.Op == "=~" || l.Op == "!~" }

// Pred is a predicate tree.
type Pred struct {
	Kind  string `json:"kind"` // leaf | and | or
	Leaf  int    `json:"leaf,omitempty"`
	L     *Pred  `json:"l,omitempty"`
	R     *Pred  `json:"r,omitempty"`
	Paren bool   `json:"paren,omitempty"` // redundant parentheses around this node
}

func (p *Pred) Depth() int {
	if p.Kind == "leaf" {
		return 0
	}
	return 1 + max(p.L.Depth(), p.R.Depth())
}

func (p *Pred) Leaves(dst []int) []int {
	if p.Kind == "leaf" {
		return append(dst, p.Leaf)
	}
	return p.R.Leaves(p.L.Leaves(dst))
}

func (p *Pred) Shape() string {
	if p.Kind == "leaf" {
		return "L"
	}
	s := p.L.Shape() + " " + strings.ToUpper(p.Kind) + " " + p.R.Shape()
	return "(" + s + ")"
}

// mstView: what the generator knows about one measurement.
type mstView struct {
	M      string
	Series []int // indexes into universe
	Keys   []string
	Vals   map[string][]string // key -> distinct values (sorted)
}

func views(u []Series, live func(i int) bool) []*mstView {
	byM := map[string]*mstView{}
	var order []string
	for i := range u {
		if live != nil && !live(i) {
			continue
		}
		v := byM[u[i].M]
		if v == nil {
			v = &mstView{M: u[i].M, Vals: map[string][]string{}}
			byM[u[i].M] = v
			order = append(order, u[i].M)
		}
		v.Series = append(v.Series, i)
		for _, t := range u[i].Tags {
			v.Vals[t.K] = append(v.Vals[t.K], t.V)
		}
	}
	sort.Strings(order)
	var out []*mstView
	for _, m := range order {
		v := byM[m]
		for k, vs := range v.Vals {
			sort.Strings(vs)
			w := vs[:0]
			for i, x := range vs {
				if i == 0 || x != vs[i-1] {
					w = append(w, x)
				}
			}
			v.Vals[k] = w
			v.Keys = append(v.Keys, k)
		}
		sort.Strings(v.Keys)
		out = append(out, v)
	}
	return out
}

func subPiece(r *rand.Rand, v string) string {
	rs := []rune(v)
	if len(rs) <= 1 {
		return v
	}
	switch r.IntN(3) {
	case 0:
		return string(rs[:1+r.IntN(len(rs)-1)]) // proper prefix
	case 1:
		return string(rs[1+r.IntN(len(rs)-1):]) // proper suffix
	default:
		a := r.IntN(len(rs))
		b := a + 1 + r.IntN(len(rs)-a)
		return string(rs[a:b])
	}
}

func firstRune(v string) string {
	for _, c := range v {
		return string(c)
	}
	return "x"
}

var absentStrings = []string{"nope", "webb", "we-", "x", "WEB ", "dbx", "\x01\x01", "zz", "a,b,c", "0000"}

// genRegex returns (pattern, shape name).
func genRegex(r *rand.Rand, vals []string) (string, string) {
	// pattern pieces come from valid UTF-8 values only: Go's regexp reads an invalid byte of
	// the subject as U+FFFD, which a literal U+FFFD in the pattern would then match
	var valid []string
	for _, v := range vals {
		if utf8.ValidString(v) {
			valid = append(valid, v)
		}
	}
	val := func() string {
		if len(valid) == 0 || r.IntN(8) == 0 {
			return pick(r, absentStrings)
		}
		return pick(r, valid)
	}
	q := regexp.QuoteMeta
	v1, v2 := val(), val()
	switch r.IntN(24) {
	case 0:
		return q(v1), "literal"
	case 1:
		return q(subPiece(r, v1)), "literal-piece"
	case 2:
		return "^" + q(v1) + "$", "^literal$"
	case 3:
		return "^" + q(subPiece(r, v1)), "^literal"
	case 4:
		return q(subPiece(r, v1)) + "$", "literal$"
	case 5:
		return q(v1) + "|" + q(v2), "alt"
	case 6:
		return "^(" + q(v1) + "|" + q(v2) + ")$", "^(alt)$"
	case 7:
		return "(" + q(v1) + "|" + q(subPiece(r, v2)) + ")", "(alt)"
	case 8:
		return "[" + classBody(firstRune(v1)+firstRune(v2)) + "]", "class"
	case 9:
		return q(subPiece(r, v1)) + "[0-9]", "literal+class"
	case 10:
		return q(subPiece(r, v1)) + ".", "literal+dot"
	case 11:
		return q(firstRune(v1)) + ".*" + q(lastRune(v1)), "lit.*lit"
	case 12:
		return pick(r, []string{".*", ".+", "^$", "^.*$", "^.+$", ".", "^.$", ""}), "special"
	case 13:
		return q(v1) + "?", "literal?"
	case 14:
		return "(" + q(v1) + "|)", "(lit|)"
	case 15:
		return "^" + q(subPiece(r, v1)) + "*$", "^lit*$"
	case 16:
		return "(?i)" + q(v1), "(?i)literal"
	case 17:
		return "^" + q(firstRune(v1)) + ".*" + q(lastRune(v1)) + "$", "^lit.*lit$"
	case 18:
		return "^" + q(v1) + "|" + q(v2) + "$", "^a|b$"
	case 19:
		return q(subPiece(r, v1)) + ".+", "literal.+"
	case 20:
		return ".*" + q(subPiece(r, v1)), ".*literal"
	case 21:
		return "[^" + classBody(firstRune(v1)) + "]", "negclass"
	case 22:
		return "^[" + classBody(firstRune(v1)+firstRune(v2)) + "]", "^class"
	default:
		return q(subPiece(r, v1)) + "+", "literal+"
	}
}

func lastRune(v string) string {
	rs := []rune(v)
	if len(rs) == 0 {
		return "x"
	}
	return string(rs[len(rs)-1])
}

func classBody(chars string) string {
	var b strings.Builder
	for _, c := range chars {
		switch c {
		case ']', '\\', '^', '-', '[':
			b.WriteString("\\" + string(c))
		default:
			if c < 0x20 || c == 0xfffd {
				fmt.Fprintf(&b, "\\x%02x", c&0xff)
			} else {
				b.WriteRune(c)
			}
		}
	}
	if b.Len() == 0 {
		return "x"
	}
	return b.String()
}

func genLeaf(r *rand.Rand, v *mstView, allKeys []string) Leaf {
	var key string
	switch {
	case len(v.Keys) > 0 && r.IntN(10) < 8:
		key = pick(r, v.Keys)
	default:
		key = pick(r, append([]string{"nokey", "absent key", "h\x00"}, allKeys...)) // often absent in this measurement
	}
	vals := v.Vals[key]
	l := Leaf{Key: key}
	switch r.IntN(10) {
	case 0, 1, 2:
		l.Op = "="
	case 3, 4:
		l.Op = "!="
	case 5, 6, 7:
		l.Op = "=~"
	default:
		l.Op = "!~"
	}
	if l.IsRegex() {
		for try := 0; ; try++ {
			l.Val, l.Shape = genRegex(r, vals)
			if _, err := regexp.Compile(l.Val); err == nil {
				break
			}
			if try > 20 {
				l.Val, l.Shape = "x", "literal"
				break
			}
		}
		return l
	}
	switch x := r.IntN(10); {
	case x == 0:
		l.Val = ""
	case x == 1:
		l.Val = pick(r, absentStrings)
	case x == 2 && len(vals) > 0:
		l.Val = subPiece(r, pick(r, vals)) // a prefix/suffix of a present value: must not match
	case x == 3:
		l.Val = pick(r, hostileValues)
	case len(vals) > 0:
		l.Val = pick(r, vals)
	default:
		l.Val = pick(r, hostileValues)
	}
	return l
}

func genTree(r *rand.Rand, nLeaves int, depth int) *Pred {
	if depth == 0 || (depth < 3 && r.IntN(4) == 0) {
		return &Pred{Kind: "leaf", Leaf: r.IntN(nLeaves), Paren: r.IntN(6) == 0}
	}
	k := "and"
	if r.IntN(2) == 0 {
		k = "or"
	}
	return &Pred{Kind: k, L: genTree(r, nLeaves, depth-1), R: genTree(r, nLeaves, depth-1), Paren: r.IntN(4) == 0}
}
