package main

import (
	"fmt"
	"os"
	"path/filepath"
	"sort"
	"strings"
	"sync"
	"time"

	"github.com/openGemini/openGemini/engine/index/tsi"
	"github.com/openGemini/openGemini/lib/config"
	"github.com/openGemini/openGemini/lib/index"
	"github.com/openGemini/openGemini/lib/util/lifted/influx/influxql"
	"github.com/openGemini/openGemini/lib/util/lifted/influx/meta"
	"github.com/openGemini/openGemini/lib/util/lifted/influx/query"
	"github.com/openGemini/openGemini/lib/util/lifted/vm/protoparser/influx"
	"github.com/savsgio/dictpool"
)

// Idx wraps one real index (IndexBuilder + MergeSetIndex) on a directory, built the
// way engine/partition.go builds it, plus (optionally) the "deleted ids" index that the
// engine attaches for DROP/DELETE.
type Idx struct {
	dir     string
	clock   uint64 // logical clock: the node increments it on every start (lib/metaclient/node.go)
	seqBase uint64
	seq     *uint64
	b       *tsi.IndexBuilder
	ms      *tsi.MergeSetIndex
	withDel bool
	delB    *tsi.IndexBuilder
	delMs   *tsi.MergeSetIndex
	lock    string
}

func openOne(path string, indexID uint64, clock uint64, seq *uint64, lock *string) (*tsi.MergeSetIndex, *tsi.IndexBuilder, error) {
	if err := os.MkdirAll(path, 0o750); err != nil {
		return nil, nil, err
	}
	now := time.Now()
	ident := &meta.IndexIdentifier{OwnerDb: "db0", OwnerPt: 1, Policy: "rp0"}
	ident.Index = &meta.IndexDescriptor{IndexID: indexID, IndexGroupID: 3, TimeRange: meta.TimeRangeInfo{StartTime: now.Add(-time.Hour), EndTime: now.Add(time.Hour)}}
	opts := new(tsi.Options).
		Ident(ident).
		Path(path).
		IndexType(index.MergeSet).
		EngineType(config.TSSTORE).
		StartTime(now.Add(-time.Hour)).
		EndTime(now.Add(time.Hour)).
		Duration(time.Hour).
		CacheDuration(2 * time.Hour).
		LogicalClock(clock).
		SequenceId(seq).
		Lock(lock)
	b := tsi.NewIndexBuilder(opts)
	pi, err := tsi.NewIndex(opts)
	if err != nil {
		return nil, nil, err
	}
	pi.SetIndexBuilder(b)
	rel, err := tsi.NewIndexRelation(opts, pi, b)
	if err != nil {
		return nil, nil, err
	}
	b.Relations[uint32(index.MergeSet)] = rel
	if err := b.Open(); err != nil {
		return nil, nil, err
	}
	return pi.(*tsi.MergeSetIndex), b, nil
}

func OpenIdx(dir string, withDel bool) (*Idx, error) {
	x := &Idx{dir: dir, clock: 1, seqBase: 1000, withDel: withDel}
	return x, x.open()
}

func (x *Idx) open() error {
	// The sequence restarts from the same base on every open (worst case of the real
	// "seconds since the epoch" seed); uniqueness across restarts is the logical clock's job.
	s := x.seqBase
	x.seq = &s
	var err error
	x.ms, x.b, err = openOne(filepath.Join(x.dir, "idx"), 2, x.clock, x.seq, &x.lock)
	if err != nil {
		return err
	}
	if x.withDel {
		x.delMs, x.delB, err = openOne(filepath.Join(x.dir, "del"), 0, x.clock, x.seq, &x.lock)
		if err != nil {
			return err
		}
		if err := x.delMs.LoadDeletedTSIDs(); err != nil {
			return err
		}
		x.ms.SetDeleteMergeSet(x.delMs)
	}
	return nil
}

func (x *Idx) Close() error {
	if x.b == nil {
		return nil
	}
	err := x.b.Close()
	if x.delB != nil {
		if e := x.delB.Close(); err == nil {
			err = e
		}
	}
	x.b, x.ms, x.delB, x.delMs = nil, nil, nil, nil
	return err
}

func (x *Idx) Reopen() error {
	if err := x.Close(); err != nil {
		return err
	}
	x.clock++
	return x.open()
}

func (x *Idx) Flush() {
	x.b.Flush()
	if x.delB != nil {
		x.delB.Flush()
	}
}

func (x *Idx) ClearCache() error { return x.b.ClearCache() }

// ---------------------------------------------------------------- rows

// lpEscape renders a measurement / tag key / tag value for line protocol.
func lpEscape(s string, mst bool) string {
	var b strings.Builder
	for i := 0; i < len(s); i++ {
		switch c := s[i]; c {
		case ',', ' ':
			b.WriteByte('\\')
			b.WriteByte(c)
		case '=':
			if !mst {
				b.WriteByte('\\')
			}
			b.WriteByte(c)
		default:
			b.WriteByte(c)
		}
	}
	return b.String()
}

// makeRow builds the row of a series the way the write path hands it to the index:
// through the real line-protocol parser when the series is expressible there (and the
// parser returns exactly the intended tags), otherwise constructed directly. withEmpty
// adds empty-valued tags to the written line; the parser must drop them.
func makeRow(s *Series, withEmpty bool, st *rowStats) influx.Row {
	if !strings.ContainsAny(s.Listing(), "\n\\") {
		var b strings.Builder
		b.WriteString(lpEscape(s.M, true))
		if withEmpty {
			b.WriteString(",aaa_empty=")
		}
		for _, t := range s.Tags {
			b.WriteString("," + lpEscape(t.K, false) + "=" + lpEscape(t.V, false))
		}
		if withEmpty {
			b.WriteString(",zzz_empty=")
		}
		b.WriteString(" v=1i 1000000000")
		var prs influx.PointRows
		if err := prs.Unmarshal(b.String(), false); err == nil && len(prs.Rows) == 1 && rowIs(&prs.Rows[0], s) {
			r := influx.Row{Name: s.M + verSuffix}
			for _, t := range prs.Rows[0].Tags {
				r.Tags = append(r.Tags, influx.Tag{Key: strings.Clone(t.Key), Value: strings.Clone(t.Value)})
			}
			r.UnmarshalIndexKeys(nil)
			st.add(true, withEmpty)
			return r
		}
	}
	r := influx.Row{Name: s.M + verSuffix}
	for _, t := range s.Tags {
		r.Tags = append(r.Tags, influx.Tag{Key: t.K, Value: t.V})
	}
	sort.Sort(&r.Tags)
	r.UnmarshalIndexKeys(nil)
	st.add(false, false)
	return r
}

func rowIs(r *influx.Row, s *Series) bool {
	if r.Name != s.M || len(r.Tags) != len(s.Tags) {
		return false
	}
	for i := range s.Tags {
		if r.Tags[i].Key != s.Tags[i].K || r.Tags[i].Value != s.Tags[i].V {
			return false
		}
	}
	return true
}

type rowStats struct {
	mu                     sync.Mutex
	viaLP, direct, emptyLP int64
}

func (s *rowStats) add(lp, empty bool) {
	s.mu.Lock()
	if lp {
		s.viaLP++
		if empty {
			s.emptyLP++
		}
	} else {
		s.direct++
	}
	s.mu.Unlock()
}

func indexKey(s *Series) []byte {
	r := influx.Row{Name: s.M + verSuffix}
	for _, t := range s.Tags {
		r.Tags = append(r.Tags, influx.Tag{Key: t.K, Value: t.V})
	}
	r.UnmarshalIndexKeys(nil)
	return r.IndexKey
}

// Insert creates (or finds) the ids of the given series through one of the three real
// entry points and returns one id per item.
func (x *Idx) Insert(u []Series, items []int, path string, withEmpty bool, st *rowStats) ([]uint64, error) {
	byM := map[string]*[]influx.Row{}
	var order []string
	type ref struct {
		m string
		i int
	}
	refs := make([]ref, len(items))
	for n, it := range items {
		s := &u[it]
		name := s.M + verSuffix
		rows := byM[name]
		if rows == nil {
			rows = &[]influx.Row{}
			byM[name] = rows
			order = append(order, name)
		}
		*rows = append(*rows, makeRow(s, withEmpty, st))
		refs[n] = ref{name, len(*rows) - 1}
	}
	ids := make([]uint64, len(items))
	switch path {
	case "builder":
		// engine/ts_storage.go writeIndex, step by step: rows are looked up only UNTIL the first
		// unknown one; the rows behind it reach the index without having been looked up
		need := false
		for _, name := range order {
			rows := byM[name]
			for i := range *rows {
				ri := &(*rows)[i]
				if need {
					continue
				}
				id, err := x.ms.GetSeriesIdBySeriesKey(ri.IndexKey)
				if err != nil {
					return nil, fmt.Errorf("GetSeriesIdBySeriesKey: %w", err)
				}
				ri.SeriesId, ri.PrimaryId = id, id
				if id == 0 {
					need = true
				}
			}
		}
		if need {
			d := &dictpool.Dict{}
			for _, name := range order {
				d.Set(name, byM[name])
			}
			if err := x.b.CreateIndexIfNotExists(d, true); err != nil {
				return nil, fmt.Errorf("IndexBuilder.CreateIndexIfNotExists: %w", err)
			}
		}
	case "mutex":
		d := &dictpool.Dict{}
		for _, name := range order {
			d.Set(name, byM[name])
		}
		if err := x.ms.CreateIndexIfNotExists(d); err != nil {
			return nil, fmt.Errorf("MergeSetIndex.CreateIndexIfNotExists: %w", err)
		}
	case "series":
		for _, name := range order {
			rows := byM[name]
			for i := range *rows {
				ri := &(*rows)[i]
				id, err := x.ms.CreateIndexIfNotExistsBySeries([]byte(name), ri.IndexKey, ri.Tags)
				if err != nil {
					return nil, fmt.Errorf("CreateIndexIfNotExistsBySeries: %w", err)
				}
				ri.SeriesId = id
			}
		}
	default:
		return nil, fmt.Errorf("unknown insert path %q", path)
	}
	for n, rf := range refs {
		ids[n] = (*byM[rf.m])[rf.i].SeriesId
	}
	return ids, nil
}

func (x *Idx) Lookup(s *Series) (uint64, error) { return x.ms.GetSeriesIdBySeriesKey(indexKey(s)) }

// ---------------------------------------------------------------- search entry points

// SearchIDs: the path of SHOW SERIES / SHOW TAG VALUES WHERE / cardinality / delete.
func (x *Idx) SearchIDs(m string, cond influxql.Expr) ([]uint64, error) {
	return x.ms.SearchSeriesByTableAndCond([]byte(m+verSuffix), cond, tsi.DefaultTR)
}

// SearchKeys: the listing used by SHOW SERIES (engine.searchIndex).
func (x *Idx) SearchKeys(m string, cond influxql.Expr) ([]string, error) {
	ks, err := x.ms.SearchSeriesKeys(nil, []byte(m+verSuffix), cond)
	if err != nil {
		return nil, err
	}
	out := make([]string, 0, len(ks))
	for _, k := range ks {
		out = append(out, string(k))
	}
	sort.Strings(out)
	return out, nil
}

// ScanIDs: the path of SELECT (engine/iterators.go: indexBuilder.Scan).
func (x *Idx) ScanIDs(m string, cond influxql.Expr, prom bool) ([]uint64, error) {
	opt := &query.ProcessorOptions{StartTime: tsi.DefaultTR.Min, EndTime: tsi.DefaultTR.Max, Condition: cond, Ascending: true}
	if prom {
		// the PromQL flavour of the same path: label matchers are fully anchored
		opt.PromQuery = true
		opt.GroupByAllDims = true
	}
	res, _, err := x.b.Scan(nil, []byte(m+verSuffix), opt, func(int64) error { return nil })
	if err != nil {
		return nil, err
	}
	if res == nil {
		return nil, nil
	}
	gs, ok := res.(tsi.GroupSeries)
	if !ok {
		return nil, fmt.Errorf("Scan returned %T", res)
	}
	var ids []uint64
	for _, g := range gs {
		for i := 0; i < g.Len(); i++ {
			ids = append(ids, g.GetSid(i, 0))
		}
	}
	return ids, nil
}

func (x *Idx) Cardinality(m string, cond influxql.Expr) (uint64, error) {
	return x.ms.SeriesCardinality([]byte(m+verSuffix), cond, tsi.DefaultTR)
}

func (x *Idx) TagValues(m string, keys []string, cond influxql.Expr) ([][]string, error) {
	ks := make([][]byte, len(keys))
	for i, k := range keys {
		ks[i] = []byte(k)
	}
	vs, err := x.ms.SearchTagValues([]byte(m+verSuffix), ks, cond)
	for i := range vs {
		sort.Strings(vs[i])
	}
	return vs, err
}

func (x *Idx) TagValuesCardinality(m, key string) (uint64, error) {
	return x.ms.SearchTagValuesCardinality([]byte(m+verSuffix), []byte(key))
}

func (x *Idx) Delete(m string, cond influxql.Expr) error {
	return x.ms.DeleteTSIDs([]byte(m+verSuffix), cond, tsi.TimeRange{Min: 0, Max: int64(24 * time.Hour)})
}
