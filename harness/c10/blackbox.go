package main

import (
	"encoding/json"

	"verifharness/vf"
)

func blackbox(c *vf.Ctx)                              {}
func replayBlackbox(c *vf.Ctx, w json.RawMessage)     {}
