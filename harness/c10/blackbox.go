package main

import (
	"encoding/json"
	"fmt"
	"math/rand/v2"
	"path/filepath"
	"regexp"
	"sort"
	"strings"
	"time"

	"verifharness/proc"
	"verifharness/vf"
)

// Black-box part: a real ts-server, the same kind of predicates as
// SHOW SERIES FROM m WHERE ... and SELECT v FROM m WHERE ... GROUP BY *, plus the
// SHOW TAG KEYS / SHOW TAG VALUES listings. Every series carries a unique plain tag
// sid=sNNNN so that answers can be mapped back without relying on how hostile keys and
// values are escaped in the output.

var bbMeasurements = []string{"m", "cpu,load", "a b", "é", "m.1", "M", "x=y"}
var bbKeys = []string{"host", "h", "region", "a,b", "k=v", "k v", "ключ", "Host", "ho"}
var bbValues = []string{
	"web", "web-1", "web-12", "web-2", "we", "w", "db", "d", "db-1", "xwebx", "WEB",
	"a,b", "a=b", "a b", ",", "=", "a,b=c d", "\x01", "\x02\x02", "a\x01", "1",
	"値", "é", "日本語", "😀", "web|db", "a.b", "axb", "a*b", "(", "[x]", "^web$", "$", "'", "\"", "a/b", "+", "?",
	"foo", "foobar", "xfoo", "ab", "xaybz", "a", "aa",
}

type bbCase struct {
	Series []Series `json:"series"` // every series has the tag sid
	M      string   `json:"m"`
	Path   string   `json:"path"` // show | select | tagkeys | tagvalues
	Query  string   `json:"query"`
	Want   []string `json:"want"`
}

func bbUniverse(r *rand.Rand) []Series {
	var out []Series
	ms := shuffled(r, bbMeasurements)[:3]
	ms[0] = "m"
	n := 0
	for _, m := range ms {
		nk := 2 + r.IntN(3)
		keys := shuffled(r, bbKeys)[:nk]
		pools := make([][]string, nk)
		for i := range keys {
			pools[i] = shuffled(r, bbValues)[:3+r.IntN(8)]
		}
		for j := 12 + r.IntN(25); j > 0; j-- {
			s := Series{M: m}
			for i, k := range keys {
				if r.IntN(10) < 7 {
					s.Tags = append(s.Tags, Tag{k, pick(r, pools[i])})
				}
			}
			s.Tags = append(s.Tags, Tag{"sid", fmt.Sprintf("s%04d", n)})
			n++
			sort.Slice(s.Tags, func(a, b int) bool { return s.Tags[a].K < s.Tags[b].K })
			out = append(out, s)
		}
	}
	return out
}

func sidOf(s *Series) string { return s.Get("sid") }

var sidRe = regexp.MustCompile(`(?:^|,)sid=(s\d{4})(?:,|$)`)

func bbStart(c *vf.Ctx, dir string) (*proc.Server, error) {
	bin, err := proc.Build(c.RepoDir, c.Scratch, "ts-server", false)
	if err != nil {
		return nil, err
	}
	s := proc.New(proc.Config{Bin: bin, Dir: dir, IP: proc.IP(10, 0)})
	if err := s.Start(); err != nil {
		return nil, err
	}
	if err := s.WaitReady(120 * time.Second); err != nil {
		s.Kill()
		return nil, err
	}
	if _, err := s.Query("", "CREATE DATABASE db0", nil); err != nil {
		s.Kill()
		return nil, err
	}
	return s, nil
}

func bbWrite(s *proc.Server, u []Series) error {
	var b strings.Builder
	for i := range u {
		b.WriteString(lpEscape(u[i].M, true))
		for _, t := range u[i].Tags {
			b.WriteString("," + lpEscape(t.K, false) + "=" + lpEscape(t.V, false))
		}
		b.WriteString(" v=1i 1000000000\n")
	}
	w := s.Write("db0", b.String(), nil)
	if !w.Acked() {
		return fmt.Errorf("write not acknowledged: %d %s %v", w.Status, w.Body, w.Err)
	}
	return nil
}

func bbShowSids(s *proc.Server, q string) ([]string, error) {
	r, err := s.Query("db0", q, nil)
	if err != nil {
		return nil, err
	}
	var out []string
	for _, res := range r.Results {
		for _, se := range res.Series {
			for _, row := range se.Values {
				if len(row) == 0 {
					continue
				}
				m := sidRe.FindStringSubmatch(fmt.Sprint(row[0]))
				if m == nil {
					return nil, fmt.Errorf("series key without sid: %q", row[0])
				}
				out = append(out, m[1])
			}
		}
	}
	sort.Strings(out)
	return out, nil
}

func bbSelectSids(s *proc.Server, q string) ([]string, error) {
	r, err := s.Query("db0", q, nil)
	if err != nil {
		return nil, err
	}
	var out []string
	for _, res := range r.Results {
		for _, se := range res.Series {
			sid, ok := se.Tags["sid"]
			if !ok {
				return nil, fmt.Errorf("result series without sid tag: %v", se.Tags)
			}
			out = append(out, sid)
		}
	}
	sort.Strings(out)
	return out, nil
}

func bbColumn(s *proc.Server, q string, col int) ([]string, error) {
	r, err := s.Query("db0", q, nil)
	if err != nil {
		return nil, err
	}
	var out []string
	for _, res := range r.Results {
		for _, se := range res.Series {
			for _, row := range se.Values {
				if len(row) > col {
					out = append(out, fmt.Sprint(row[col]))
				}
			}
		}
	}
	sort.Strings(out)
	return out, nil
}

// bbWaitVisible: visibility rule — completeness is judged only once every written
// series has been listed by an unconditional SHOW SERIES.
func bbWaitVisible(s *proc.Server, n int) bool {
	for i := 0; i < 300; i++ {
		got, err := bbShowSids(s, "SHOW SERIES")
		if err == nil && len(got) == n {
			return true
		}
		time.Sleep(100 * time.Millisecond)
	}
	return false
}

func bbRun(s *proc.Server, bc *bbCase) ([]string, error) {
	switch bc.Path {
	case "show":
		return bbShowSids(s, bc.Query)
	case "select":
		return bbSelectSids(s, bc.Query)
	case "tagkeys":
		return bbColumn(s, bc.Query, 0)
	default:
		return bbColumn(s, bc.Query, 1)
	}
}

func blackbox(c *vf.Ctx) {
	rng := c.Rand(77)
	u := bbUniverse(rng)
	s, err := bbStart(c, filepath.Join(c.Scratch, "bb"))
	if err != nil {
		c.Inconclusive("blackbox-server-not-started", 1)
		fmt.Printf("INCONCLUSIVE property=C10 black-box server: %v\n", err)
		return
	}
	defer s.Kill()
	if err := bbWrite(s, u); err != nil {
		c.Inconclusive("blackbox-write-refused", 1)
		fmt.Printf("INCONCLUSIVE property=C10 black-box write: %v\n", err)
		return
	}
	if !bbWaitVisible(s, len(u)) {
		c.Inconclusive("blackbox-series-never-all-visible", 1)
		return
	}
	nPred := c.Pick(40, 300)
	vs := views(u, nil)
	report := func(bc *bbCase, got []string, err error, sig, what string) {
		c.Violation(sig, what, map[string]any{"case": bc, "got": clip(got, 40), "error": fmt.Sprint(err)})
	}
	for _, v := range vs {
		from := renderKey(v.M)
		// listings
		wantKeys := append([]string(nil), v.Keys...)
		bc := &bbCase{Series: u, M: v.M, Path: "tagkeys", Query: "SHOW TAG KEYS FROM " + from, Want: sortedCopy(wantKeys)}
		got, err := bbRun(s, bc)
		c.Eval(1)
		c.Count("blackbox-show-tag-keys", 1)
		if err != nil || !multisetEq(bc.Want, got) {
			miss, extra := listDiff(bc.Want, got)
			report(bc, got, err, "blackbox:tagkeys:"+valueClassOfAny(append(miss, extra...)), fmt.Sprintf("%s: got %q, written %q (err %v)", bc.Query, got, bc.Want, err))
		}
		for _, k := range v.Keys {
			bc := &bbCase{Series: u, M: v.M, Path: "tagvalues", Query: "SHOW TAG VALUES FROM " + from + " WITH KEY = " + renderKeyQuoted(k), Want: sortedCopy(v.Vals[k])}
			got, err := bbRun(s, bc)
			c.Eval(1)
			c.Count("blackbox-show-tag-values", 1)
			if err != nil || !multisetEq(bc.Want, got) {
				miss, extra := listDiff(bc.Want, got)
				report(bc, got, err, "blackbox:tagvalues:"+valueClassOfAny(append(miss, extra...)), fmt.Sprintf("%s: got %q, written %q (err %v)", bc.Query, clip(got, 10), clip(bc.Want, 10), err))
			}
		}
		// predicates
		per := max(6, nPred/len(vs))
		nLeaves := max(3, per/2)
		leaves := make([]Leaf, nLeaves)
		sets := make([]bitset, nLeaves)
		var keysNoSid []string
		for _, k := range v.Keys {
			if k != "sid" {
				keysNoSid = append(keysNoSid, k)
			}
		}
		vv := *v
		vv.Keys = keysNoSid
		for i := range leaves {
			for {
				leaves[i] = genLeaf(rng, &vv, nil)
				if bbExpressible(&leaves[i]) {
					break
				}
			}
			sets[i] = evalLeaf(u, v, &leaves[i])
		}
		ask := func(tree *Pred, kind string) {
			want := evalTree(tree, sets)
			var wantSids []string
			for _, p := range want.list() {
				wantSids = append(wantSids, sidOf(&u[v.Series[p]]))
			}
			sort.Strings(wantSids)
			text := render(tree, leaves, func(i int) string { return renderLeaf(&leaves[i]) })
			absentKey := false
			for _, li := range tree.Leaves(nil) {
				if len(v.Vals[leaves[li].Key]) == 0 {
					absentKey = true
				}
			}
			for _, path := range searchPaths {
				if path == "select" && absentKey {
					// a key that is no tag of the measurement is a field to SELECT
					continue
				}
				bc := &bbCase{Series: u, M: v.M, Path: path, Want: wantSids}
				if path == "show" {
					bc.Query = "SHOW SERIES FROM " + from + " WHERE " + text
				} else {
					bc.Query = "SELECT v FROM " + from + " WHERE " + text + " GROUP BY *"
				}
				c.LogInput(bc.Query)
				got, err := bbRun(s, bc)
				c.Eval(1)
				c.Count("blackbox-"+path+"-"+kind, 1)
				if len(wantSids) > 0 && len(wantSids) < len(v.Series) && kind == "tree" {
					c.Nontrivial("bb:" + hashOf(bc.Query))
				}
				if err == nil && multisetEq(wantSids, got) {
					c.Count("blackbox-agree", 1)
					continue
				}
				sig := "blackbox:" + path + ":" + kind
				if kind == "leaf" {
					l := &leaves[tree.Leaf]
					if l.IsRegex() {
						sig += ":regex:" + regexShape(l.Val)
					} else {
						sig += ":" + l.Op + ":" + valueClass(l.Val) + "-value"
					}
				}
				if err != nil {
					sig += ":error"
				}
				report(bc, got, err, sig, fmt.Sprintf("%s: %d series, brute force %d (err %v)", bc.Query, len(got), len(wantSids), err))
			}
		}
		for i := range leaves {
			ask(&Pred{Kind: "leaf", Leaf: i}, "leaf")
		}
		for t := per - nLeaves; t > 0; t-- {
			tree := genTree(rng, nLeaves, 1+rng.IntN(3))
			if tree.Kind == "leaf" {
				continue
			}
			ask(tree, "tree")
		}
	}
	c.Count("blackbox-series-written", int64(len(u)))
}

// bbExpressible: the literal must survive the query text (no NUL, no backslash, valid UTF-8)
func bbExpressible(l *Leaf) bool {
	for _, s := range []string{l.Key, l.Val} {
		if strings.ContainsAny(s, "\x00\\\n") || !isValidUTF8(s) {
			return false
		}
	}
	p := &Pred{Kind: "leaf", Leaf: 0}
	_, _, ph, err := buildExpr(p, []Leaf{*l})
	return err == nil && !ph
}

func isValidUTF8(s string) bool {
	for _, r := range s {
		if r == 0xfffd {
			return false
		}
	}
	return true
}

func renderKeyQuoted(k string) string {
	r := strings.NewReplacer(`\`, `\\`, `"`, `\"`, "\n", `\n`)
	return `"` + r.Replace(k) + `"`
}

func replayBlackbox(c *vf.Ctx, w json.RawMessage) {
	var wit struct {
		Case *bbCase `json:"case"`
	}
	if err := json.Unmarshal(w, &wit); err != nil || wit.Case == nil {
		c.Broken("black-box witness unreadable: %v", err)
		return
	}
	bc := wit.Case
	s, err := bbStart(c, filepath.Join(c.Scratch, "bb"))
	if err != nil {
		c.Broken("black-box server: %v", err)
		return
	}
	defer s.Kill()
	if err := bbWrite(s, bc.Series); err != nil {
		c.Broken("black-box write: %v", err)
		return
	}
	if !bbWaitVisible(s, len(bc.Series)) {
		c.Inconclusive("blackbox-series-never-all-visible", 1)
		return
	}
	got, err := bbRun(s, bc)
	c.Eval(1)
	fmt.Printf("REPLAY: %s\n  got  %q (err %v)\n  want %q\n", bc.Query, got, err, bc.Want)
	if err != nil || !multisetEq(sortedCopy(bc.Want), got) {
		c.Violation("blackbox:replay-still-differs", bc.Query, map[string]any{"case": bc, "got": got})
	}
}
