// C10 — the series index is exact: one stable id per series, predicates match
// precisely, listings report what was written.
//
// In-process part: the real engine/index/tsi IndexBuilder + MergeSetIndex on a scratch
// directory, driven through the entry points the engine uses (write path:
// IndexBuilder.CreateIndexIfNotExists / MergeSetIndex.CreateIndexIfNotExists /
// CreateIndexIfNotExistsBySeries; SHOW path: SearchSeriesByTableAndCond, SearchSeriesKeys,
// SeriesCardinality, SearchTagValues; SELECT path: IndexBuilder.Scan), with a shadow map
// and a brute-force evaluator as oracles. Black-box part: the same kind of predicates
// as SHOW SERIES WHERE / SELECT ... WHERE against a real ts-server.
package main

import (
	"encoding/json"
	"flag"
	"fmt"
	"os"
	"path/filepath"
	"strconv"
	"strings"
	"sync"
	"time"

	"github.com/openGemini/openGemini/lib/config"
	"github.com/openGemini/openGemini/lib/logger"
	"go.uber.org/zap"

	"verifharness/vf"
)

const nWorkersQuick, nWorkersThorough = 8, 16

func main() {
	_ = flag.Set("loggerLevel", "ERROR") // the lifted VictoriaMetrics logger: no per-open chatter in worker logs
	c := vf.New("C10", "exploration")
	logger.SetLogger(zap.NewNop())
	if vf.IsWorker() {
		if vf.WorkerArg() == "replay" {
			c.ReplayIn = os.Getenv("C10_REPLAY")
			replay(c)
		} else {
			worker(c, vf.WorkerArg())
		}
		c.Finish()
	}
	c.SetRule("a history counts when it contains at least one cache clear and one close/reopen and at least one series was written again after each of them and got its recorded id back; " +
		"a predicate counts when it is a tree of depth >= 1 whose brute-force result is neither empty nor the whole measurement (distinct by history, measurement and text)")
	c.Assume("the influxql parser turns the condition text into the intended tree (every parsed comparison is compared with the intended key/operator/literal; literals the scanner cannot carry are put into the parsed nodes afterwards)")
	c.Assume("Go regexp MatchString is the reference for =~ / !~; an absent tag is the empty string; every referenced key is typed as a tag, as the query layer does for tag keys")
	c.Assume("series identity = measurement + set of non-empty tag pairs (the line-protocol parser drops empty keys/values before the index is called)")
	c.Assume("on reopen the logical clock is one higher (lib/metaclient/node.go increments it on every node start) while the sequence seed restarts from the same value")
	c.Assume("queries are judged only after IndexBuilder.Flush (index visibility may lag behind the write by design); id lookups that return 0 before the flush are counted, not judged")

	if c.ReplayIn != "" {
		// in a worker, like every history: a race report inside statistics code must not
		// end the replay (the worker runs with halt_on_error=0, reports are read afterwards)
		prefix := filepath.Join(c.Scratch, "race-replay")
		c.RunWorker("replay", 20*time.Minute, raceEnv(prefix), "C10_REPLAY="+c.ReplayIn)
		collectRaces(c, prefix, "replay")
		if c.Violations() == 0 {
			fmt.Println("REPLAY: the stored case agrees with the oracle now (no violation reproduced)")
		}
		c.Finish()
	}

	nW := c.Pick(nWorkersQuick, nWorkersThorough)
	var wg sync.WaitGroup
	for w := 0; w < nW; w++ {
		wg.Add(1)
		go func(w int) {
			defer wg.Done()
			arg := fmt.Sprintf("idx-%d", w)
			prefix := filepath.Join(c.Scratch, "race-"+arg)
			c.RunWorker(arg, time.Duration(c.Pick(8, 45))*time.Minute, raceEnv(prefix))
			collectRaces(c, prefix, arg)
		}(w)
	}
	if os.Getenv("C10_NO_BLACKBOX") == "" { // switch for sensitivity experiments on scratch copies only
		wg.Add(1)
		go func() {
			defer wg.Done()
			blackbox(c)
		}()
	}
	wg.Wait()
	for _, cat := range required {
		if c.DistinctCount("reached "+cat) == 0 {
			c.Inconclusive("category-not-reached:"+cat, 1)
		}
	}
	c.Finish()
}

// categories the design requires; one that no run produced is reported as inconclusive
var required = []string{"regex-classes:anchored-both", "regex-classes:anchored-start", "regex-classes:anchored-end", "regex-classes:unanchored",
	"regex-classes:literal", "regex-classes:empty-matching", "leaf-ops:=", "leaf-ops:!=", "leaf-ops:=~", "leaf-ops:!~",
	"tag-value-classes:sepbyte", "tag-value-classes:lp-special", "tag-value-classes:non-ascii", "tag-key-classes:sepbyte",
	"key-classes:absent-key", "tree-depths:3", "index-size:>150 series (tag value shared by >64 series)", "index-config:bloom-filter"}

func dist(c *vf.Ctx, cat, member string) {
	c.Distinct(cat, member)
	for _, r := range required {
		if r == cat+":"+member {
			c.Distinct("reached "+r, "yes")
		}
	}
}

// historyCount: quick 7 workers x 6 + 1 bloom-filter worker x 1 = 43 histories x 60
// predicates; thorough 14 x 42 + 2 x 6 = 600 histories x 200 predicates. A history with
// the bloom filter on costs ~30 s (every index flush rewrites 120 MB of filters), hence
// the small share.
func historyCount(c *vf.Ctx, bloom bool) (perWorker, nPred int) {
	if bloom {
		return c.Pick(1, 6), c.Pick(60, 200)
	}
	return c.Pick(6, 42), c.Pick(60, 200)
}

func applyIndexConfig(bloom, compress bool) {
	const mb = 32 << 20 // the smallest size the caches accept
	config.SetIndexConfig(&config.Index{BloomFilterEnabled: bloom, CacheCompressEnable: compress,
		TSIDCacheSize: mb, SKeyCacheSize: mb, TagCacheSize: mb, TagFilterCostCacheSize: mb})
}

func worker(c *vf.Ctx, arg string) {
	w, err := strconv.Atoi(strings.TrimPrefix(arg, "idx-"))
	if err != nil {
		c.Broken("bad worker arg %q", arg)
		return
	}
	nW := c.Pick(nWorkersQuick, nWorkersThorough)
	bloom, compress := w%8 == 7, (w/2)%2 == 0
	per, nPred := historyCount(c, bloom)
	applyIndexConfig(bloom, compress)
	for k := 0; k < per; k++ {
		hid := k*nW + w
		rng := c.Rand(uint64(1000 + hid))
		h := genHistory(rng, hid, bloom, compress, nPred)
		if k == 0 && w < 2 {
			c.Sample(map[string]any{"history": hid, "series": len(h.Universe), "ops": opSummary(h), "first_series": h.Universe[:min(4, len(h.Universe))]})
		}
		runHistory(c, h, c.Scratch, nil)
		_ = os.RemoveAll(filepath.Join(c.Scratch, fmt.Sprintf("h%d", hid)))
	}
}

func opSummary(h *History) string {
	var b strings.Builder
	for _, op := range h.Ops {
		switch op.Kind {
		case "insert":
			fmt.Fprintf(&b, "I%d", len(op.Items))
			if op.Par > 1 {
				fmt.Fprintf(&b, "x%d", op.Par)
			}
			if op.Path != "builder" {
				b.WriteString(op.Path[:1])
			}
		case "flush":
			b.WriteString("F")
		case "clear":
			b.WriteString("C")
		case "reopen":
			b.WriteString("R")
		case "delete":
			b.WriteString("D")
		case "check":
			fmt.Fprintf(&b, "?%d", op.NPred)
		}
		b.WriteByte(' ')
	}
	return strings.TrimSpace(b.String())
}

func replay(c *vf.Ctx) {
	b, err := os.ReadFile(c.ReplayIn)
	if err != nil {
		c.Broken("replay file: %v", err)
		return
	}
	var f struct {
		Signature string          `json:"finding_signature"`
		Witness   json.RawMessage `json:"witness"`
	}
	if err := json.Unmarshal(b, &f); err != nil {
		c.Broken("replay file: %v", err)
		return
	}
	if strings.HasPrefix(f.Signature, "blackbox:") {
		replayBlackbox(c, f.Witness)
		return
	}
	var w witness
	if err := json.Unmarshal(f.Witness, &w); err != nil || w.History == nil {
		c.Broken("replay file carries no history: %v", err)
		return
	}
	applyIndexConfig(w.History.Bloom, w.History.Compress)
	fmt.Printf("REPLAY: history %d (%d series, %d ops), up to op %d, signature %q\n", w.History.ID, len(w.History.Universe), len(w.History.Ops), w.AtOp, f.Signature)
	runHistory(c, w.History, c.Scratch, &w)
	if c.Violations() == 0 {
		fmt.Println("REPLAY: no violation reproduced")
	}
}
