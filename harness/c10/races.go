package main

import (
	"fmt"
	"os"
	"path/filepath"
	"sort"
	"strings"

	"verifharness/vf"
)

// Workers run with GORACE=halt_on_error=0 log_path=<prefix>: a race report does not end
// the worker; the parent reads the reports afterwards. Reports whose two accesses both
// sit in the statistics / logging packages are outside the property (DESIGN §4.4) and
// only counted; every other report is a violation named by its pair of top frames.

func raceEnv(prefix string) string {
	return "GORACE=halt_on_error=0 exitcode=0 log_path=" + prefix
}

func topFrame(stack []string) string {
	for _, fn := range stack {
		if strings.HasPrefix(fn, "runtime.") || strings.HasPrefix(fn, "sync.") || strings.HasPrefix(fn, "sync/atomic.") ||
			strings.HasPrefix(fn, "internal/") || strings.HasPrefix(fn, "reflect.") {
			continue
		}
		return fn
	}
	if len(stack) > 0 {
		return stack[0]
	}
	return "?"
}

func isNoiseFrame(fn string) bool {
	return strings.Contains(fn, "/lib/statisticsPusher/") || strings.Contains(fn, "/lib/logger.") ||
		strings.Contains(fn, "VictoriaMetrics/lib/logger.") || strings.Contains(fn, "go.uber.org/zap")
}

// parseRaceReports returns (frame pair, full text) per report.
func parseRaceReports(text string) [][2]string {
	var out [][2]string
	for _, blk := range strings.Split(text, "==================") {
		if !strings.Contains(blk, "WARNING: DATA RACE") {
			continue
		}
		var stacks [][]string
		var cur []string
		in := false
		for _, ln := range strings.Split(blk, "\n") {
			t := strings.TrimSpace(ln)
			switch {
			case strings.Contains(t, " by goroutine ") && strings.HasSuffix(t, ":") || strings.Contains(t, " by main goroutine:"):
				if in {
					stacks = append(stacks, cur)
				}
				cur, in = nil, true
			case strings.HasPrefix(t, "Goroutine ") || t == "":
				if in {
					stacks = append(stacks, cur)
					cur, in = nil, false
				}
			case in && !strings.HasPrefix(t, "/") && strings.HasSuffix(t, ")"):
				if i := strings.LastIndex(t, "("); i > 0 {
					cur = append(cur, t[:i])
				}
			}
		}
		if in {
			stacks = append(stacks, cur)
		}
		if len(stacks) < 2 {
			out = append(out, [2]string{"unparsed", strings.TrimSpace(blk)})
			continue
		}
		a, b := topFrame(stacks[0]), topFrame(stacks[1])
		pair := []string{a, b}
		sort.Strings(pair)
		key := pair[0] + " vs " + pair[1]
		if isNoiseFrame(a) && isNoiseFrame(b) {
			key = "noise:" + key
		}
		out = append(out, [2]string{key, strings.TrimSpace(blk)})
	}
	return out
}

func collectRaces(c *vf.Ctx, prefix, worker string) {
	files, _ := filepath.Glob(prefix + ".*")
	seen := map[string]bool{}
	for _, f := range files {
		b, err := os.ReadFile(f)
		if err != nil {
			continue
		}
		for _, r := range parseRaceReports(string(b)) {
			if strings.HasPrefix(r[0], "noise:") {
				c.Count("race-reports-inside-statistics-or-logging (outside the property)", 1)
				continue
			}
			c.Count("race-reports", 1)
			if seen[r[0]] {
				continue
			}
			seen[r[0]] = true
			txt := r[1]
			if len(txt) > 6000 {
				txt = txt[:6000] + "\n..."
			}
			c.Violation("race:"+r[0], fmt.Sprintf("the race detector reported %s in worker %s", r[0], worker), map[string]any{"worker": worker, "report": txt})
		}
	}
}
