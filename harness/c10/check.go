package main

import (
	"fmt"
	"hash/fnv"
	"math/rand/v2"
	"path/filepath"
	"sort"
	"strings"
	"sync"

	"verifharness/vf"
)

// shadow is the harness's own record of the id map over the whole history.
type shadow struct {
	u         []Series
	ids       [][]uint64     // per series: every id ever returned for it (first = primary)
	owner     map[uint64]int // id -> series
	unflushed []bool         // created since the last flush/close
	clearedUF []bool         // cache was cleared while the series was still unflushed
	dead      []bool         // deleted (current incarnation)
	retired   map[uint64]int // ids of deleted incarnations
	sawReopen []bool         // series re-inserted after a reopen and got its id back
}

func newShadow(u []Series) *shadow {
	n := len(u)
	return &shadow{u: u, ids: make([][]uint64, n), owner: map[uint64]int{}, unflushed: make([]bool, n),
		clearedUF: make([]bool, n), dead: make([]bool, n), retired: map[uint64]int{}, sawReopen: make([]bool, n)}
}

func (s *shadow) known(i int) bool { return len(s.ids[i]) > 0 }
func (s *shadow) live(i int) bool  { return s.known(i) && !s.dead[i] }

type runner struct {
	c      *vf.Ctx
	h      *History
	x      *Idx
	sh     *shadow
	st     *rowStats
	opIdx  int
	replay *predCase // replay mode: only this predicate is evaluated
	// coverage
	nClear, nReopen, nFlush, nReinsertSameAfterReopen, nReinsertSameAfterClear int
	reopened, cleared                                                          bool
	epochReopen, epochClear                                                    int
	seriesEpochReopen, seriesEpochClear                                        []int
}

// predCase is a stored predicate (witness / replay).
type predCase struct {
	M      string `json:"m"`
	Leaves []Leaf `json:"leaves"`
	Tree   *Pred  `json:"tree,omitempty"` // nil: single leaf 0
	Path   string `json:"path"`
	Repeat int    `json:"repeat,omitempty"` // >1: asked that many times in a row, every answer judged
}

type witness struct {
	History *History  `json:"history"`
	AtOp    int       `json:"at_op"` // ops [0,AtOp) executed before the observation (-1: all, end of history)
	Pred    *predCase `json:"pred,omitempty"`
	Detail  any       `json:"detail,omitempty"`
}

func (r *runner) violation(sig, what string, pc *predCase, detail any) {
	r.c.Violation(sig, fmt.Sprintf("history %d op %d: %s", r.h.ID, r.opIdx, what), witness{History: r.h, AtOp: r.opIdx, Pred: pc, Detail: detail})
}

func (r *runner) record(si int, id uint64, path, how string) {
	sh := r.sh
	if id == 0 {
		r.violation("insert-returned-zero-id:"+path, fmt.Sprintf("insert of %q through %s returned id 0", sh.u[si].Listing(), path), nil, nil)
		return
	}
	if o, ok := sh.owner[id]; ok && o != si {
		r.violation("two-series-one-id:"+path, fmt.Sprintf("id %d returned for %q was already given to %q", id, sh.u[si].Listing(), sh.u[o].Listing()), nil, nil)
		return
	}
	if o, ok := sh.retired[id]; ok {
		r.violation("deleted-id-reused:"+path, fmt.Sprintf("id %d returned for %q belongs to the deleted incarnation of %q", id, sh.u[si].Listing(), sh.u[o].Listing()), nil, nil)
		return
	}
	if sh.dead[si] {
		// a re-created series after deletion is a new incarnation with a fresh id
		sh.dead[si] = false
		sh.ids[si] = []uint64{id}
		sh.owner[id] = si
		sh.unflushed[si], sh.clearedUF[si] = true, false
		return
	}
	if !sh.known(si) {
		sh.ids[si] = []uint64{id}
		sh.owner[id] = si
		sh.unflushed[si], sh.clearedUF[si] = true, false
		r.seriesEpochReopen[si], r.seriesEpochClear[si] = r.epochReopen, r.epochClear
		return
	}
	for _, k := range sh.ids[si] {
		if k == id {
			if k == sh.ids[si][0] {
				if r.seriesEpochReopen[si] != r.epochReopen {
					r.nReinsertSameAfterReopen++
				}
				if r.seriesEpochClear[si] != r.epochClear {
					r.nReinsertSameAfterClear++
				}
			}
			return
		}
	}
	cause := "plain"
	switch {
	case sh.clearedUF[si]:
		cause = "cache-cleared-before-index-flush"
	case how == "concurrent":
		cause = "concurrent-insert"
	case r.seriesEpochReopen[si] != r.epochReopen:
		cause = "after-reopen"
	case r.seriesEpochClear[si] != r.epochClear:
		cause = "after-cache-clear"
	}
	r.violation("one-series-two-ids:"+cause, fmt.Sprintf("series %q had id %d and was given id %d on a later insert through %s (%s)",
		sh.u[si].Listing(), sh.ids[si][0], id, path, cause), nil, map[string]any{"series": sh.u[si], "first_id": sh.ids[si][0], "second_id": id})
	sh.ids[si] = append(sh.ids[si], id)
	sh.owner[id] = si
}

func (r *runner) doInsert(op *Op) error {
	c := r.c
	if op.Par > 1 && op.Path == "builder" {
		type res struct {
			items []int
			ids   []uint64
			err   error
		}
		out := make([]res, op.Par)
		var wg sync.WaitGroup
		for g := 0; g < op.Par; g++ {
			// every goroutine writes the whole batch, rotated: maximal overlap
			n := len(op.Items)
			items := make([]int, 0, n)
			for k := 0; k < n; k++ {
				items = append(items, op.Items[(k+g*n/op.Par)%n])
			}
			out[g].items = items
			wg.Add(1)
			go func(g int) {
				defer wg.Done()
				if p := vf.Catch(func() { out[g].ids, out[g].err = r.x.Insert(r.sh.u, out[g].items, "builder", op.Empty, r.st) }); p != nil {
					out[g].err = fmt.Errorf("panic: %v", p)
				}
			}(g)
		}
		wg.Wait()
		for g := range out {
			if out[g].err != nil {
				return out[g].err
			}
			for k, it := range out[g].items {
				r.record(it, out[g].ids[k], "builder", "concurrent")
			}
		}
		c.Count("insert-batches-concurrent", 1)
		c.Count("series-inserts", int64(len(op.Items)*op.Par))
		return nil
	}
	var ids []uint64
	var err error
	if p := vf.Catch(func() { ids, err = r.x.Insert(r.sh.u, op.Items, op.Path, op.Empty, r.st) }); p != nil {
		return fmt.Errorf("panic: %v", p)
	}
	if err != nil {
		return err
	}
	for k, it := range op.Items {
		r.record(it, ids[k], op.Path, "sequential")
	}
	c.Count("insert-batches-"+op.Path, 1)
	c.Count("series-inserts", int64(len(op.Items)))
	return nil
}

// checkLookups: GetSeriesIdBySeriesKey must give the recorded id. Before the index
// flush a series that fell out of the cache may legitimately not be found yet (0).
func (r *runner) checkLookups(when string, exact bool) {
	sh := r.sh
	for si := range sh.u {
		if !sh.known(si) {
			continue
		}
		var id uint64
		var err error
		if p := vf.Catch(func() { id, err = r.x.Lookup(&sh.u[si]) }); p != nil || err != nil {
			r.violation("lookup-error:"+when, fmt.Sprintf("GetSeriesIdBySeriesKey(%q): %v %v", sh.u[si].Listing(), err, p), nil, nil)
			return
		}
		r.c.Count("id-lookups", 1)
		if sh.dead[si] {
			if id != 0 {
				r.violation("lookup-finds-deleted-series:"+when, fmt.Sprintf("deleted series %q still resolves to id %d", sh.u[si].Listing(), id), nil, nil)
			}
			continue
		}
		if id == sh.ids[si][0] {
			continue
		}
		if id == 0 && !exact && sh.unflushed[si] {
			r.c.Count("lookups-not-yet-visible", 1)
			continue
		}
		r.violation("lookup-differs:"+when, fmt.Sprintf("series %q has id %d, GetSeriesIdBySeriesKey %s gives %d", sh.u[si].Listing(), sh.ids[si][0], when, id), nil,
			map[string]any{"series": sh.u[si], "recorded": sh.ids[si], "got": id})
	}
}

func (r *runner) markFlushed() {
	for i := range r.sh.unflushed {
		r.sh.unflushed[i] = false
		r.sh.clearedUF[i] = false
	}
}

func (r *runner) step(op *Op) error {
	switch op.Kind {
	case "insert":
		return r.doInsert(op)
	case "flush":
		r.x.Flush()
		r.markFlushed()
		r.nFlush++
		r.c.Count("op-flush", 1)
		r.checkLookups("after-flush", true)
	case "clear":
		if err := r.x.ClearCache(); err != nil {
			return err
		}
		for i := range r.sh.unflushed {
			if r.sh.unflushed[i] {
				r.sh.clearedUF[i] = true
			}
		}
		r.nClear++
		r.epochClear++
		r.c.Count("op-cache-clear", 1)
		if !op.Quiet {
			r.checkLookups("after-cache-clear", false)
		}
	case "reopen":
		if err := r.x.Reopen(); err != nil {
			return err
		}
		r.markFlushed()
		r.nReopen++
		r.epochReopen++
		r.c.Count("op-reopen", 1)
		if !op.Quiet {
			r.checkLookups("after-reopen", true)
		}
	case "delete":
		r.doDelete(op)
	case "check":
		// queries are judged on flushed state only (visibility rule)
		r.x.Flush()
		r.markFlushed()
		if r.replay != nil {
			return nil // replay evaluates only the stored predicate
		}
		r.checkLookups(op.Label, true)
		r.checkListings(op.Label)
		if op.NPred > 0 {
			r.predicatePhase(r.c.Rand(uint64(500000+r.h.ID*1000+r.opIdx)), op.NPred, op.Label)
			r.anchoredAndPhase(r.c.Rand(uint64(900000+r.h.ID*1000+r.opIdx)), max(3, op.NPred/12), op.Label)
		}
	default:
		return fmt.Errorf("unknown op %q", op.Kind)
	}
	return nil
}

func (r *runner) doDelete(op *Op) {
	c := r.c
	leaves := []Leaf{*op.Del}
	lp := &Pred{Kind: "leaf", Leaf: 0}
	pc := &predCase{M: op.DelM, Leaves: leaves}
	e, text, _, err := buildExpr(lp, leaves)
	if err != nil {
		c.Broken("delete condition: %v", err)
		return
	}
	if pnc := vf.Catch(func() { err = r.x.Delete(op.DelM, e) }); pnc != nil || err != nil {
		r.violation("delete-error", fmt.Sprintf("DeleteTSIDs(%q WHERE %s): %v %v", op.DelM, text, err, pnc), pc, nil)
		return
	}
	c.Count("op-delete", 1)
	n := 0
	for si := range r.sh.u {
		s := &r.sh.u[si]
		if s.M != op.DelM || !r.sh.live(si) || s.Get(op.Del.Key) != op.Del.Val {
			continue
		}
		n++
		r.sh.dead[si] = true
		for _, id := range r.sh.ids[si] {
			r.sh.retired[id] = si
			delete(r.sh.owner, id)
		}
	}
	c.Count("series-deleted", int64(n))
}

// ---------------------------------------------------------------- listings

func (r *runner) liveViews() []*mstView { return views(r.sh.u, r.sh.live) }

func multisetEq(a, b []string) bool {
	if len(a) != len(b) {
		return false
	}
	for i := range a {
		if a[i] != b[i] {
			return false
		}
	}
	return true
}

func clip(xs []string, n int) []string {
	if len(xs) > n {
		return append(append([]string(nil), xs[:n]...), fmt.Sprintf("... (%d more)", len(xs)-n))
	}
	return xs
}

func listDiff(want, got []string) (missing, extra []string) {
	cnt := map[string]int{}
	for _, w := range want {
		cnt[w]++
	}
	for _, g := range got {
		if cnt[g] > 0 {
			cnt[g]--
		} else {
			extra = append(extra, g)
		}
	}
	for _, w := range want {
		if cnt[w] > 0 {
			cnt[w]--
			missing = append(missing, w)
		}
	}
	return
}

// checkListings: what SHOW SERIES / SHOW TAG VALUES / cardinalities are built from.
func (r *runner) checkListings(when string) {
	c := r.c
	for _, v := range r.liveViews() {
		var want []string
		for _, si := range v.Series {
			want = append(want, r.sh.u[si].Listing())
		}
		sort.Strings(want)
		var got []string
		var err error
		if p := vf.Catch(func() { got, err = r.x.SearchKeys(v.M, nil) }); p != nil || err != nil {
			r.violation("listing-error:series-keys", fmt.Sprintf("SearchSeriesKeys(%q): %v %v", v.M, err, p), nil, nil)
			continue
		}
		c.Count("listings-series-keys", 1)
		if !multisetEq(want, got) {
			miss, extra := listDiff(want, got)
			r.violation("listing-differs:series-keys:"+when, fmt.Sprintf("SearchSeriesKeys(%q) %s: %d keys, written %d", v.M, when, len(got), len(want)), nil,
				map[string]any{"measurement": v.M, "missing": clip(miss, 20), "extra": clip(extra, 20)})
		}
		if n, err := r.x.Cardinality(v.M, nil); err != nil || n != uint64(len(v.Series)) {
			dead := 0
			for _, si := range r.sh.retired {
				if r.sh.u[si].M == v.M {
					dead++
				}
			}
			if err == nil && dead > 0 && n == uint64(len(v.Series)+dead) {
				r.violation("listing-differs:series-cardinality-counts-deleted-series", fmt.Sprintf("SeriesCardinality(%q) without condition = %d: %d live series plus the %d deleted ones", v.M, n, len(v.Series), dead), nil, nil)
			} else {
				r.violation("listing-differs:series-cardinality:"+when, fmt.Sprintf("SeriesCardinality(%q) = %d (err %v), written %d", v.M, n, err, len(v.Series)), nil, nil)
			}
		}
		c.Count("listings-cardinality", 1)
		// tag values of every written key plus an absent one
		keys := append(append([]string(nil), v.Keys...), "nokey")
		var tv [][]string
		if p := vf.Catch(func() { tv, err = r.x.TagValues(v.M, keys, nil) }); p != nil || err != nil {
			r.violation("listing-error:tag-values", fmt.Sprintf("SearchTagValues(%q): %v %v", v.M, err, p), nil, nil)
			continue
		}
		c.Count("listings-tag-values", int64(len(keys)))
		if len(tv) != len(keys) {
			r.violation("listing-differs:tag-values:shape:"+when, fmt.Sprintf("SearchTagValues(%q) returned %d lists for %d keys", v.M, len(tv), len(keys)), nil, nil)
			continue
		}
		for i, k := range keys {
			wantV := v.Vals[k]
			if !multisetEq(wantV, tv[i]) {
				miss, extra := listDiff(wantV, tv[i])
				r.violation("listing-differs:tag-values:"+valueClassOfAny(append(miss, extra...))+":"+when,
					fmt.Sprintf("SearchTagValues(%q, key %q) %s: %d values, written %d", v.M, k, when, len(tv[i]), len(wantV)), nil,
					map[string]any{"measurement": v.M, "key": k, "missing": clip(miss, 20), "extra": clip(extra, 20)})
			}
			if k != "nokey" {
				if n, err := r.x.TagValuesCardinality(v.M, k); err != nil || n != uint64(len(wantV)) {
					r.violation("listing-differs:tag-values-cardinality:"+when, fmt.Sprintf("SearchTagValuesCardinality(%q,%q) = %d (err %v), written %d", v.M, k, n, err, len(wantV)), nil, nil)
				}
			}
		}
	}
	// a measurement that was never written lists nothing
	if got, err := r.x.SearchKeys("never_written", nil); err != nil || len(got) != 0 {
		r.violation("listing-differs:unknown-measurement", fmt.Sprintf("SearchSeriesKeys of an unknown measurement: %v %v", got, err), nil, nil)
	}
}

func valueClassOfAny(vs []string) string {
	cl := "plain"
	for _, v := range vs {
		if k := valueClass(v); k != "plain" {
			cl = k
		}
	}
	return cl
}

// ---------------------------------------------------------------- predicates

type idsResult struct {
	set     bitset
	err     error
	dup     bool // a series was returned under two ids / twice
	junk    []uint64
	retired int // ids of deleted incarnations among the result
}

// toSet maps returned ids to positions in the view.
func (r *runner) toSet(v *mstView, pos map[int]int, ids []uint64, err error) idsResult {
	res := idsResult{set: newBits(len(v.Series)), err: err}
	if err != nil {
		return res
	}
	for _, id := range ids {
		if _, dead := r.sh.retired[id]; dead {
			res.retired++
			continue
		}
		si, ok := r.sh.owner[id]
		p, in := pos[si]
		if !ok || !in {
			res.junk = append(res.junk, id)
			continue
		}
		if res.set.has(p) {
			res.dup = true
		}
		res.set.set(p)
	}
	return res
}

func (r *runner) describe(v *mstView, b bitset, n int) []string {
	var out []string
	for _, p := range b.list() {
		if p < len(v.Series) {
			out = append(out, r.sh.u[v.Series[p]].Listing())
		}
	}
	return clip(out, n)
}

var searchPaths = []string{"show", "select"}

func (r *runner) queryOnce(v *mstView, pos map[int]int, path string, p *Pred, leaves []Leaf) (idsResult, string, bool) {
	e, text, ph, err := buildExpr(p, leaves)
	if err != nil {
		return idsResult{err: fmt.Errorf("cannot build condition: %w", err)}, text, ph
	}
	var ids []uint64
	if pnc := vf.Catch(func() {
		switch path {
		case "show":
			ids, err = r.x.SearchIDs(v.M, e)
		case "select":
			ids, err = r.x.ScanIDs(v.M, e, false)
		default:
			ids, err = r.x.ScanIDs(v.M, e, true)
		}
	}); pnc != nil {
		err = fmt.Errorf("panic: %v", pnc)
	}
	return r.toSet(v, pos, ids, err), text, ph
}

// query asks one search path. The SELECT path answers single comparisons from a cache
// of earlier answers that the index invalidates only when it notices new items (at the
// latest ten seconds after they were flushed): an answer that differs from the
// expectation is therefore asked again after the caches were dropped, and only the
// second answer is judged. The first one is counted (visibility lag, not a verdict).
func (r *runner) query(v *mstView, pos map[int]int, path string, p *Pred, leaves []Leaf, want bitset) (idsResult, string, bool) {
	res, text, ph := r.queryOnce(v, pos, path, p, leaves)
	if path == "show" || res.err != nil || (res.set.eq(want) && res.retired == 0 && len(res.junk) == 0) {
		return res, text, ph
	}
	if err := r.x.ClearCache(); err != nil {
		return res, text, ph
	}
	res2, _, _ := r.queryOnce(v, pos, path, p, leaves)
	if res2.err == nil && (!res2.set.eq(res.set) || res2.retired != res.retired) {
		r.c.Count("select-answers-from-a-not-yet-invalidated-filter-cache", 1)
	}
	return res2, text, ph
}

type leafObs struct {
	want bitset
	got  map[string]bitset // per path; absent when the call failed
	bad  bool
}

type viewCtx struct {
	v       *mstView
	pos     map[int]int
	full    bitset
	tagless bool
}

func (r *runner) newViewCtx(v *mstView) *viewCtx {
	vc := newViewCtx(v)
	for _, si := range v.Series {
		if len(r.sh.u[si].Tags) == 0 {
			vc.tagless = true
		}
	}
	return vc
}

func newViewCtx(v *mstView) *viewCtx {
	vc := &viewCtx{v: v, pos: map[int]int{}, full: newBits(len(v.Series))}
	for p, si := range v.Series {
		vc.pos[si] = p
		vc.full.set(p)
	}
	return vc
}

// checkLeaf asks both search paths for one comparison and judges the answers against
// brute force.
func (r *runner) checkLeaf(vc *viewCtx, leaves []Leaf, i int, when string) leafObs {
	c, v := r.c, vc.v
	l := &leaves[i]
	lp := &Pred{Kind: "leaf", Leaf: i}
	o := leafObs{want: evalLeaf(r.sh.u, v, l), got: map[string]bitset{}}
	pc := &predCase{M: v.M, Leaves: []Leaf{*l}}
	c.LogInput(map[string]any{"history": r.h.ID, "m": v.M, "leaf": l})
	for _, path := range searchPaths {
		if r.replay != nil && r.replay.Path != "" && r.replay.Path != path && r.replay.Tree == nil {
			continue
		}
		res, text, ph := r.query(v, vc.pos, path, lp, leaves, o.want)
		c.Eval(1)
		r.coverLeaf(l, v, ph, o.want, vc.full)
		pc := &predCase{M: pc.M, Leaves: pc.Leaves, Path: path}
		if res.err != nil {
			o.bad = true
			r.violation("search-error:"+path+":"+errClass(res.err), fmt.Sprintf("%s WHERE %s on %q: %v", path, text, v.M, res.err), pc, nil)
			continue
		}
		o.got[path] = res.set
		if len(res.junk) > 0 || res.dup || res.retired > 0 {
			o.bad = true
			r.violation("search-returns-foreign-deleted-or-duplicate-ids:"+path, fmt.Sprintf("%s WHERE %s on %q returned ids that are not live series of the measurement: unknown %v, deleted %d, duplicates %v", path, text, v.M, res.junk, res.retired, res.dup), pc, nil)
			continue
		}
		if res.set.eq(o.want) {
			if r.replay != nil {
				fmt.Printf("REPLAY: %s WHERE %s on %q agrees with brute force (%d series)\n", path, text, v.M, o.want.count())
			}
			continue
		}
		o.bad = true
		detail := map[string]any{"query": text, "measurement": v.M, "expected_n": o.want.count(), "got_n": res.set.count(),
			"expected": r.describe(v, o.want, 12), "got": r.describe(v, res.set, 12)}
		if l.IsRegex() {
			shape, expl := regexShape(l.Val), explainRegex(r.sh.u, v, l, res.set)
			sig := fmt.Sprintf("regex-leaf:%s:%s", shape, expl)
			detail["regex_shape"], detail["reading"] = shape, expl
			r.violation(sig, fmt.Sprintf("%s WHERE %s on %q %s: %d series, brute force %d (pattern class %s; the returned set equals the reading %q)",
				path, text, v.M, when, res.set.count(), o.want.count(), shape, expl), pc, detail)
			dist(c, "regex-misreadings", shape+" -> "+expl)
		} else {
			keyCl := "present-key"
			if len(v.Vals[l.Key]) == 0 {
				keyCl = "absent-key"
			}
			sig := fmt.Sprintf("plain-leaf:%s:%s:%s-value:%s:%s", path, l.Op, valueClass(l.Val), keyCl, diffKind(o.want, res.set))
			r.violation(sig, fmt.Sprintf("%s WHERE %s on %q %s: %d series, brute force %d", path, text, v.M, when, res.set.count(), o.want.count()), pc, detail)
		}
	}
	if l.IsRegex() && r.replay == nil {
		// A series without any tag makes the PromQL flavour of the search panic in
		// SeriesGroup2MapOfProm (slice bounds; outside this property, reported to C18):
		// measurements holding one are not asked that way.
		if vc.tagless {
			c.Count("prom-regex-leaves-skipped (measurement holds a series without tags)", 1)
		} else {
			r.checkPromLeaf(vc, leaves, i, when)
		}
	}
	return o
}

// checkPromLeaf: the same comparison asked the way a PromQL selector asks it
// (IndexBuilder.Scan with PromQuery set); there the regexp is fully anchored.
func (r *runner) checkPromLeaf(vc *viewCtx, leaves []Leaf, i int, when string) {
	c, v := r.c, vc.v
	l := &leaves[i]
	anchored := Leaf{Key: l.Key, Op: l.Op, Val: "^(?:" + l.Val + ")$"}
	want := evalLeaf(r.sh.u, v, &anchored)
	res, text, _ := r.query(v, vc.pos, "prom", &Pred{Kind: "leaf", Leaf: i}, leaves, want)
	c.Eval(1)
	c.Count("prom-regex-leaves", 1)
	pc := &predCase{M: v.M, Leaves: []Leaf{*l}, Path: "prom"}
	switch {
	case res.err != nil:
		r.violation("search-error:prom:"+errClass(res.err), fmt.Sprintf("prom WHERE %s on %q: %v", text, v.M, res.err), pc, nil)
	case len(res.junk) > 0 || res.dup || res.retired > 0:
		r.violation("search-returns-foreign-deleted-or-duplicate-ids:prom", fmt.Sprintf("prom WHERE %s on %q returned ids that are not live series of the measurement: unknown %v, deleted %d, duplicates %v", text, v.M, res.junk, res.retired, res.dup), pc, nil)
	case !res.set.eq(want):
		r.violation("regex-leaf-prom:"+regexShape(l.Val)+":"+diffKind(want, res.set), fmt.Sprintf("PromQL-style search WHERE %s on %q %s: %d series, brute force with ^(?:...)$ %d",
			text, v.M, when, res.set.count(), want.count()), pc,
			map[string]any{"query": text, "expected": r.describe(v, want, 12), "got": r.describe(v, res.set, 12)})
	}
}

// checkTree asks both search paths for a tree over already judged leaves.
func (r *runner) checkTree(vc *viewCtx, leaves []Leaf, obs []leafObs, tree *Pred, when string) (bitset, *predCase, bool) {
	c, v := r.c, vc.v
	used := tree.Leaves(nil)
	wantSets := make([]bitset, len(leaves))
	for i := range obs {
		wantSets[i] = obs[i].want
	}
	want := evalTree(tree, wantSets)
	// the witness carries only the leaves of this tree
	sub := make([]Leaf, 0, len(used))
	remap := map[int]int{}
	for _, li := range used {
		if _, ok := remap[li]; !ok {
			remap[li] = len(sub)
			sub = append(sub, leaves[li])
		}
	}
	base := predCase{M: v.M, Leaves: sub, Tree: remapTree(tree, remap)}
	showAgrees := false
	c.LogInput(map[string]any{"history": r.h.ID, "m": v.M, "pred": base})
	for _, path := range searchPaths {
		if r.replay != nil && r.replay.Path != "" && r.replay.Path != path {
			continue
		}
		pc := base
		pc.Path = path
		res, text, _ := r.query(v, vc.pos, path, tree, leaves, want)
		c.Eval(1)
		c.Count("trees-"+path, 1)
		dist(c, "tree-shapes", tree.Shape())
		dist(c, "tree-depths", fmt.Sprint(tree.Depth()))
		if res.err != nil {
			r.violation("search-error:"+path+":"+errClass(res.err), fmt.Sprintf("%s WHERE %s on %q: %v", path, text, v.M, res.err), &pc, nil)
			continue
		}
		if len(res.junk) > 0 || res.dup || res.retired > 0 {
			r.violation("search-returns-foreign-deleted-or-duplicate-ids:"+path, fmt.Sprintf("%s WHERE %s on %q returned ids that are not live series of the measurement: unknown %v, deleted %d, duplicates %v", path, text, v.M, res.junk, res.retired, res.dup), &pc, nil)
			continue
		}
		if want.count() > 0 && want.count() < len(v.Series) {
			c.Nontrivial("pred:" + hashOf(fmt.Sprint(r.h.ID, v.M, text)))
		}
		if res.set.eq(want) {
			c.Count("trees-agree", 1)
			if path == "show" {
				showAgrees = true
			}
			if r.replay != nil {
				fmt.Printf("REPLAY: %s WHERE %s on %q agrees with brute force (%d series)\n", path, text, v.M, want.count())
			}
			continue
		}
		// Leaves that are misread on their own were reported by checkLeaf. The tree is
		// still held to set algebra: its result must follow from SOME consistent choice,
		// per defective leaf, of the brute-force set or a set the index itself returned
		// for that leaf.
		if r.explainedByLeaves(tree, obs, res.set) {
			c.Count("trees-consistent-with-reported-leaf-misreadings", 1)
			if r.replay != nil {
				fmt.Printf("REPLAY: %s WHERE %s on %q differs from brute force only through the misread leaves reported above\n", path, text, v.M)
			}
			continue
		}
		r.violation("tree:"+path+":"+diffKind(want, res.set), fmt.Sprintf("%s WHERE %s on %q %s: %d series, brute force %d, and no combination of the leaf results explains it",
			path, text, v.M, when, res.set.count(), want.count()), &pc,
			map[string]any{"query": text, "expected": r.describe(v, want, 12), "got": r.describe(v, res.set, 12)})
	}
	return want, &base, showAgrees
}

// predicatePhase evaluates n predicates over the live series: every generated leaf on
// its own, then trees over those leaves.
func (r *runner) predicatePhase(rng *rand.Rand, n int, when string) {
	vs := r.liveViews()
	if len(vs) == 0 {
		return
	}
	var allKeys []string
	for _, v := range vs {
		allKeys = append(allKeys, v.Keys...)
	}
	perView := max(6, n/len(vs))
	for _, v := range vs {
		vc := r.newViewCtx(v)
		nLeaves := max(3, perView*2/5)
		nTrees := perView - nLeaves
		leaves := make([]Leaf, nLeaves)
		obs := make([]leafObs, nLeaves)
		for i := range leaves {
			leaves[i] = genLeaf(rng, v, allKeys)
			obs[i] = r.checkLeaf(vc, leaves, i, when)
			// the listing and the count behind the same condition
			if i%4 == 0 && !obs[i].bad {
				r.checkCondListing(v, &Pred{Kind: "leaf", Leaf: i}, leaves, obs[i].want, &predCase{M: v.M, Leaves: []Leaf{leaves[i]}})
			}
		}
		for t := 0; t < nTrees; t++ {
			tree := genTree(rng, nLeaves, 1+rng.IntN(3))
			if tree.Kind == "leaf" {
				tree = &Pred{Kind: pick(rng, []string{"and", "or"}), L: tree, R: &Pred{Kind: "leaf", Leaf: rng.IntN(nLeaves)}}
			}
			want, pc, showAgrees := r.checkTree(vc, leaves, obs, tree, when)
			// an OR-free AND is answered from remembered filter costs the second time:
			// every other one is asked again, each answer judged
			if isPureAnd(tree) && t%2 == 0 && showAgrees {
				r.askRepeated(vc, leaves, tree, "select", 2, when)
			}
			if t%5 == 0 && showAgrees {
				r.checkCondListing(v, tree, leaves, want, pc)
			}
		}
		// a measurement whose tag values are shared by more series than one index row
		// holds: listings restricted to ONE series taken from anywhere in the id range
		// (the rows of a shared value are scanned one after the other)
		if len(v.Series) > 64 {
			for k := 0; k < 6; k++ {
				pos := (len(v.Series) - 1) * k / 5
				if k == 5 {
					pos = rng.IntN(len(v.Series))
				}
				s := &r.sh.u[v.Series[pos]]
				if len(s.Tags) == 0 {
					continue
				}
				// the tag of the series with the longest value is the most selective one here
				best := 0
				for i := range s.Tags {
					if len(s.Tags[i].V) > len(s.Tags[best].V) {
						best = i
					}
				}
				one := []Leaf{{Key: s.Tags[best].K, Op: "=", Val: s.Tags[best].V, Shape: "one-series-of-a-wide-measurement"}}
				o := r.checkLeaf(vc, one, 0, when)
				if !o.bad {
					r.checkCondListing(v, &Pred{Kind: "leaf", Leaf: 0}, one, o.want, &predCase{M: v.M, Leaves: one})
					r.c.Count("listings-restricted-to-one-series-of-a-wide-measurement", 1)
				}
			}
		}
	}
}

func remapTree(p *Pred, m map[int]int) *Pred {
	if p.Kind == "leaf" {
		return &Pred{Kind: "leaf", Leaf: m[p.Leaf], Paren: p.Paren}
	}
	return &Pred{Kind: p.Kind, L: remapTree(p.L, m), R: remapTree(p.R, m), Paren: p.Paren}
}

func (r *runner) explainedByLeaves(tree *Pred, obs []leafObs, got bitset) bool {
	used := tree.Leaves(nil)
	var bad []int
	seen := map[int]bool{}
	for _, li := range used {
		if obs[li].bad && !seen[li] && len(obs[li].got) > 0 {
			seen[li] = true
			bad = append(bad, li)
		}
	}
	if len(bad) == 0 || len(bad) > 6 {
		return false
	}
	sets := make([]bitset, len(obs))
	for i := range obs {
		sets[i] = obs[i].want
	}
	var rec func(k int) bool
	rec = func(k int) bool {
		if k == len(bad) {
			return evalTree(tree, sets).eq(got)
		}
		li := bad[k]
		alts := []bitset{obs[li].want}
		for _, path := range searchPaths {
			if s, ok := obs[li].got[path]; ok {
				alts = append(alts, s)
			}
		}
		for _, a := range alts {
			sets[li] = a
			if rec(k + 1) {
				return true
			}
		}
		sets[li] = obs[li].want
		return false
	}
	return rec(0)
}

// checkCondListing: SearchSeriesKeys / SeriesCardinality / SearchTagValues with a
// condition must agree with the brute-force set.
func (r *runner) checkCondListing(v *mstView, p *Pred, leaves []Leaf, want bitset, pc *predCase) {
	e, text, _, err := buildExpr(p, leaves)
	if err != nil {
		return
	}
	var wantKeys []string
	vals := map[string]map[string]bool{}
	for _, ps := range want.list() {
		s := &r.sh.u[v.Series[ps]]
		wantKeys = append(wantKeys, s.Listing())
		for _, t := range s.Tags {
			if vals[t.K] == nil {
				vals[t.K] = map[string]bool{}
			}
			vals[t.K][t.V] = true
		}
	}
	sort.Strings(wantKeys)
	var got []string
	if pnc := vf.Catch(func() { got, err = r.x.SearchKeys(v.M, e) }); pnc != nil || err != nil {
		r.violation("listing-error:series-keys-where", fmt.Sprintf("SearchSeriesKeys(%q WHERE %s): %v %v", v.M, text, err, pnc), pc, nil)
		return
	}
	r.c.Count("listings-series-keys-where", 1)
	if !multisetEq(wantKeys, got) {
		miss, extra := listDiff(wantKeys, got)
		r.violation("listing-differs:series-keys-where", fmt.Sprintf("SearchSeriesKeys(%q WHERE %s): %d keys, brute force %d", v.M, text, len(got), len(wantKeys)), pc,
			map[string]any{"missing": clip(miss, 12), "extra": clip(extra, 12)})
	}
	var n uint64
	e2, _, _, _ := buildExpr(p, leaves)
	if pnc := vf.Catch(func() { n, err = r.x.Cardinality(v.M, e2) }); pnc != nil || err != nil || n != uint64(len(wantKeys)) {
		r.violation("listing-differs:series-cardinality-where", fmt.Sprintf("SeriesCardinality(%q WHERE %s) = %d (%v %v), brute force %d", v.M, text, n, err, pnc, len(wantKeys)), pc, nil)
	}
	if len(v.Keys) == 0 {
		return
	}
	e3, _, _, _ := buildExpr(p, leaves)
	var tv [][]string
	if pnc := vf.Catch(func() { tv, err = r.x.TagValues(v.M, v.Keys, e3) }); pnc != nil || err != nil {
		r.violation("listing-error:tag-values-where", fmt.Sprintf("SearchTagValues(%q WHERE %s): %v %v", v.M, text, err, pnc), pc, nil)
		return
	}
	r.c.Count("listings-tag-values-where", 1)
	for i, k := range v.Keys {
		var wv []string
		for x := range vals[k] {
			wv = append(wv, x)
		}
		sort.Strings(wv)
		var gv []string
		if i < len(tv) {
			gv = tv[i]
		}
		if !multisetEq(wv, gv) {
			miss, extra := listDiff(wv, gv)
			r.violation("listing-differs:tag-values-where", fmt.Sprintf("SearchTagValues(%q, key %q WHERE %s): %d values, brute force %d", v.M, k, text, len(gv), len(wv)), pc,
				map[string]any{"missing": clip(miss, 12), "extra": clip(extra, 12)})
			return
		}
	}
}

func (r *runner) coverLeaf(l *Leaf, v *mstView, placeholder bool, want, full bitset) {
	c := r.c
	dist(c, "leaf-ops", l.Op)
	if l.IsRegex() {
		dist(c, "regex-generator-shapes", l.Shape)
		dist(c, "regex-classes", regexShape(l.Val))
	} else {
		dist(c, "literal-classes", l.Op+" "+valueClass(l.Val))
	}
	if len(v.Vals[l.Key]) == 0 {
		dist(c, "key-classes", "absent-key")
	} else {
		dist(c, "key-classes", "present-key:"+valueClass(l.Key))
	}
	if placeholder {
		c.Count("conditions-built-with-placeholders", 1)
	} else {
		c.Count("conditions-parsed-from-text", 1)
	}
	switch {
	case want.count() == 0:
		c.Count("leaf-selects-none", 1)
	case want.eq(full):
		c.Count("leaf-selects-all", 1)
	default:
		c.Count("leaf-selects-some", 1)
	}
}

func errClass(err error) string {
	s := err.Error()
	if i := strings.IndexAny(s, ":("); i > 0 {
		s = s[:i]
	}
	if len(s) > 60 {
		s = s[:60]
	}
	return s
}

func hashOf(s string) string {
	h := fnv.New64a()
	h.Write([]byte(s))
	return fmt.Sprintf("%016x", h.Sum64())
}

// ---------------------------------------------------------------- one history

func runHistory(c *vf.Ctx, h *History, dir string, rp *witness) {
	n := len(h.Universe)
	r := &runner{c: c, h: h, sh: newShadow(h.Universe), st: &rowStats{}, seriesEpochReopen: make([]int, n), seriesEpochClear: make([]int, n)}
	if rp != nil {
		r.replay = rp.Pred
		if r.replay == nil {
			r.replay = &predCase{}
		}
	}
	x, err := OpenIdx(filepath.Join(dir, fmt.Sprintf("h%d", h.ID)), h.WithDel)
	if err != nil {
		c.Broken("open index: %v", err)
		return
	}
	r.x = x
	defer func() {
		if r.x != nil {
			_ = r.x.Close()
		}
	}()
	stop := len(h.Ops)
	if rp != nil && rp.AtOp >= 0 && rp.AtOp < stop {
		stop = rp.AtOp // a predicate observed inside the check op AtOp: everything before it
		if rp.Pred == nil {
			stop = rp.AtOp + 1 // an id / listing observation made by op AtOp itself
		}
	}
	for i := 0; i < stop; i++ {
		r.opIdx = i
		op := &h.Ops[i]
		c.LogInput(map[string]any{"history": h.ID, "op_index": i, "op": op.Kind, "path": op.Path, "par": op.Par, "n_items": len(op.Items), "label": op.Label})
		if err := r.step(op); err != nil {
			r.violation("op-error:"+op.Kind+":"+errClass(err), fmt.Sprintf("%s failed: %v", op.Kind, err), nil, nil)
			return
		}
		c.Eval(1)
	}
	r.opIdx = stop
	if rp != nil {
		r.x.Flush()
		r.markFlushed()
		if rp.Pred != nil && len(rp.Pred.Leaves) > 0 {
			r.replayPred(rp.Pred)
		} else {
			label := "replay"
			if rp.AtOp >= 0 && rp.AtOp < len(h.Ops) && h.Ops[rp.AtOp].Kind == "check" {
				label = h.Ops[rp.AtOp].Label
			}
			r.checkLookups(label, true)
			r.checkListings(label)
		}
		return
	}
	// coverage
	c.Count("histories", 1)
	c.Count("series-created", int64(len(r.sh.owner)+len(r.sh.retired)))
	c.Count("rows-through-line-protocol-parser", r.st.viaLP)
	c.Count("rows-with-empty-tags-in-line", r.st.emptyLP)
	c.Count("rows-built-directly", r.st.direct)
	c.Count("reinserts-same-id-after-reopen", int64(r.nReinsertSameAfterReopen))
	c.Count("reinserts-same-id-after-cache-clear", int64(r.nReinsertSameAfterClear))
	if h.Bloom {
		dist(c, "index-config", "bloom-filter")
	} else {
		dist(c, "index-config", "no-bloom-filter")
	}
	if h.Compress {
		dist(c, "index-config", "cache-compress")
	} else {
		dist(c, "index-config", "cache-plain")
	}
	if r.nReopen > 0 && r.nClear > 0 && r.nReinsertSameAfterReopen > 0 && r.nReinsertSameAfterClear > 0 {
		c.Nontrivial(fmt.Sprintf("history:%d", h.ID))
	}
	for _, s := range h.Universe {
		dist(c, "measurement-classes", valueClass(s.M))
		for _, t := range s.Tags {
			dist(c, "tag-key-classes", valueClass(t.K))
			dist(c, "tag-value-classes", valueClass(t.V))
		}
	}
	if len(h.Universe) > 150 {
		dist(c, "index-size", ">150 series (tag value shared by >64 series)")
	} else {
		dist(c, "index-size", "<=150 series")
	}
}

func (r *runner) replayPred(pc *predCase) {
	for _, v := range r.liveViews() {
		if v.M != pc.M {
			continue
		}
		vc := r.newViewCtx(v)
		if pc.Repeat > 1 && pc.Tree != nil {
			r.askRepeated(vc, pc.Leaves, pc.Tree, pc.Path, pc.Repeat, "replay")
			return
		}
		obs := make([]leafObs, len(pc.Leaves))
		for i := range pc.Leaves {
			obs[i] = r.checkLeaf(vc, pc.Leaves, i, "replay")
		}
		if pc.Tree != nil {
			_, _, _ = r.checkTree(vc, pc.Leaves, obs, pc.Tree, "replay")
		}
		return
	}
	fmt.Printf("REPLAY: measurement %q has no live series at this point\n", pc.M)
}

// ---------------------------------------------------------------- repeated evaluation

// askRepeated asks the same condition n times in a row on one search path with no cache
// operation in between and judges EVERY answer against brute force: the index plans an
// AND of tag filters from what earlier evaluations cost, so a later answer can come from
// other code than the first. Only the first answer may be re-asked after a cache drop
// (visibility rule of the filter cache); nothing was written between the evaluations, so
// a later answer that differs is a verdict. For the PromQL flavour regexps are judged as
// ^(?:pattern)$.
func (r *runner) askRepeated(vc *viewCtx, leaves []Leaf, tree *Pred, path string, n int, when string) {
	c, v := r.c, vc.v
	if path == "prom" && vc.tagless {
		return
	}
	sets := make([]bitset, len(leaves))
	for i := range leaves {
		l := leaves[i]
		if path == "prom" && l.IsRegex() {
			l.Val = "^(?:" + l.Val + ")$"
		}
		sets[i] = evalLeaf(r.sh.u, v, &l)
	}
	want := evalTree(tree, sets)
	pc := &predCase{M: v.M, Leaves: leaves, Tree: tree, Path: path, Repeat: n}
	c.LogInput(map[string]any{"history": r.h.ID, "m": v.M, "pred": pc})
	if want.count() > 0 && want.count() < len(v.Series) {
		c.Nontrivial("repeat:" + hashOf(fmt.Sprint(r.h.ID, v.M, path, render(tree, leaves, func(i int) string { return renderLeaf(&leaves[i]) }))))
	}
	for k := 1; k <= n; k++ {
		var res idsResult
		var text string
		if k == 1 {
			res, text, _ = r.query(v, vc.pos, path, tree, leaves, want)
		} else {
			res, text, _ = r.queryOnce(v, vc.pos, path, tree, leaves)
		}
		c.Eval(1)
		c.Count(fmt.Sprintf("repeated-and-%s-evaluation#%d", path, k), 1)
		ok := res.err == nil && len(res.junk) == 0 && !res.dup && res.retired == 0 && res.set.eq(want)
		if ok {
			if r.replay != nil {
				fmt.Printf("REPLAY: %s WHERE %s on %q, evaluation #%d agrees with brute force (%d series)\n", path, text, v.M, k, want.count())
			}
			continue
		}
		sig := fmt.Sprintf("repeated-and:%s:evaluation#1-differs-from-brute-force", path)
		if k > 1 {
			sig = fmt.Sprintf("repeated-and:%s:evaluation#%d-differs-from-evaluation#1:%s", path, k, diffKind(want, res.set))
		}
		r.violation(sig, fmt.Sprintf("%s WHERE %s on %q %s: evaluation #%d of %d in a row gives %d series (err %v), brute force %d",
			path, text, v.M, when, k, n, res.set.count(), res.err, want.count()), pc,
			map[string]any{"query": text, "evaluation": k, "expected": r.describe(v, want, 12), "got": r.describe(v, res.set, 12)})
		return
	}
}

// anchoredAndPhase: pure ANDs with a regexp that starts with an anchored literal, over
// the measurement laid out for pruning, three evaluations in a row on the SELECT path and
// on its PromQL flavour.
func (r *runner) anchoredAndPhase(rng *rand.Rand, n int, when string) {
	if r.h.PruneM == "" {
		return
	}
	for _, v := range r.liveViews() {
		if v.M != r.h.PruneM {
			continue
		}
		vc := r.newViewCtx(v)
		for i := 0; i < n; i++ {
			leaves, tree := genAnchoredAnd(rng, v, false)
			r.askRepeated(vc, leaves, tree, "select", 3, when)
			dist(r.c, "anchored-and-patterns", leaves[1].Op+" /"+leaves[1].Val+"/")
			leaves, tree = genAnchoredAnd(rng, v, true)
			r.askRepeated(vc, leaves, tree, "prom", 3, when)
		}
	}
}
