package main

import (
	"fmt"
	"regexp"
	"regexp/syntax"
	"sort"
	"strings"

	"github.com/openGemini/openGemini/lib/util/lifted/influx/influxql"
)

// ---------------------------------------------------------------- text rendering

func isBareIdent(s string) bool {
	if s == "" {
		return false
	}
	for i, c := range s {
		ok := c == '_' || (c >= 'a' && c <= 'z') || (c >= 'A' && c <= 'Z') || (i > 0 && c >= '0' && c <= '9')
		if !ok {
			return false
		}
	}
	// keep clear of keywords: only a few plain names are rendered bare
	switch s {
	case "host", "h", "ho", "hos", "hostname", "region", "z", "nokey", "seq":
		return true
	}
	return false
}

func renderKey(k string) string {
	if isBareIdent(k) {
		return k
	}
	r := strings.NewReplacer(`\`, `\\`, `"`, `\"`, "\n", `\n`)
	return `"` + r.Replace(k) + `"`
}

func renderString(v string) string {
	r := strings.NewReplacer(`\`, `\\`, `'`, `\'`, "\n", `\n`)
	return `'` + r.Replace(v) + `'`
}

func renderRegex(p string) string {
	return "/" + strings.ReplaceAll(p, "/", `\/`) + "/"
}

func renderLeaf(l *Leaf) string {
	if l.IsRegex() {
		return renderKey(l.Key) + " " + l.Op + " " + renderRegex(l.Val)
	}
	return renderKey(l.Key) + " " + l.Op + " " + renderString(l.Val)
}

// render prints the tree with the parentheses that standard precedence (AND binds
// tighter than OR, both left-associative) needs, plus the redundant ones the generator
// asked for.
func render(p *Pred, leaves []Leaf, leafText func(i int) string) string {
	var s string
	switch p.Kind {
	case "leaf":
		s = leafText(p.Leaf)
	default:
		l := render(p.L, leaves, leafText)
		r := render(p.R, leaves, leafText)
		if p.Kind == "and" && p.L.Kind == "or" && !p.L.Paren {
			l = "(" + l + ")"
		}
		// a compound right operand is always parenthesised: keeps the tree shape
		if p.R.Kind != "leaf" && !p.R.Paren {
			r = "(" + r + ")"
		}
		s = l + " " + strings.ToUpper(p.Kind) + " " + r
	}
	if p.Paren {
		s = "(" + s + ")"
	}
	return s
}

// ---------------------------------------------------------------- real parser

func parseExpr(text string) (influxql.Expr, error) {
	var e influxql.Expr
	var err error
	if pnc := catch(func() {
		p := influxql.NewParser(strings.NewReader(text))
		defer p.Release()
		e, err = p.ParseExpr()
	}); pnc != nil {
		return nil, fmt.Errorf("parser panic: %v", pnc)
	}
	return e, err
}

func catch(f func()) (p any) {
	defer func() {
		if r := recover(); r != nil {
			p = r
		}
	}()
	f()
	return nil
}

// exprLeaves returns the comparison nodes of a parsed condition in source order.
func exprLeaves(e influxql.Expr, dst []*influxql.BinaryExpr) []*influxql.BinaryExpr {
	switch n := e.(type) {
	case *influxql.ParenExpr:
		return exprLeaves(n.Expr, dst)
	case *influxql.BinaryExpr:
		if n.Op == influxql.AND || n.Op == influxql.OR {
			return exprLeaves(n.RHS, exprLeaves(n.LHS, dst))
		}
		return append(dst, n)
	}
	return dst
}

func leafMatches(be *influxql.BinaryExpr, l *Leaf) bool {
	ref, ok := be.LHS.(*influxql.VarRef)
	if !ok || ref.Val != l.Key {
		return false
	}
	switch l.Op {
	case "=":
		if be.Op != influxql.EQ {
			return false
		}
	case "!=":
		if be.Op != influxql.NEQ {
			return false
		}
	case "=~":
		if be.Op != influxql.EQREGEX {
			return false
		}
	case "!~":
		if be.Op != influxql.NEQREGEX {
			return false
		}
	}
	if l.IsRegex() {
		rl, ok := be.RHS.(*influxql.RegexLiteral)
		return ok && rl.Val != nil && rl.Val.String() == l.Val
	}
	sl, ok := be.RHS.(*influxql.StringLiteral)
	return ok && sl.Val == l.Val
}

// buildExpr turns a predicate tree into the influxql.Expr the index is called with.
// The text goes through the real parser. Where the scanner cannot carry a literal (NUL
// bytes, invalid UTF-8, ...) the text is parsed with placeholders and the literal is put
// into the parsed node afterwards. Returns the expression, the query text (with the real
// literals where they could be carried) and whether placeholders were needed.
func buildExpr(p *Pred, leaves []Leaf) (influxql.Expr, string, bool, error) {
	used := p.Leaves(nil)
	text := render(p, leaves, func(i int) string { return renderLeaf(&leaves[i]) })
	if e, err := parseExpr(text); err == nil {
		bes := exprLeaves(e, nil)
		ok := len(bes) == len(used)
		for i := 0; ok && i < len(bes); i++ {
			ok = leafMatches(bes[i], &leaves[used[i]])
		}
		if ok {
			typeTags(e)
			return e, text, false, nil
		}
	}
	// placeholder path
	n := 0
	ptext := render(p, leaves, func(i int) string {
		n++
		l := &leaves[i]
		if l.IsRegex() {
			return fmt.Sprintf("k%d %s /r%d/", n, l.Op, n)
		}
		return fmt.Sprintf("k%d %s 'v%d'", n, l.Op, n)
	})
	e, err := parseExpr(ptext)
	if err != nil {
		return nil, text, true, fmt.Errorf("placeholder text %q: %v", ptext, err)
	}
	bes := exprLeaves(e, nil)
	if len(bes) != len(used) {
		return nil, text, true, fmt.Errorf("placeholder text %q: %d comparisons, want %d", ptext, len(bes), len(used))
	}
	for i, be := range bes {
		l := &leaves[used[i]]
		ref, ok := be.LHS.(*influxql.VarRef)
		if !ok {
			return nil, text, true, fmt.Errorf("placeholder text %q: lhs %T", ptext, be.LHS)
		}
		ref.Val = l.Key
		if l.IsRegex() {
			rl, ok := be.RHS.(*influxql.RegexLiteral)
			if !ok {
				return nil, text, true, fmt.Errorf("placeholder text %q: rhs %T", ptext, be.RHS)
			}
			re, err := regexp.Compile(l.Val) // what the parser does with the scanned pattern
			if err != nil {
				return nil, text, true, err
			}
			rl.Val = re
		} else {
			sl, ok := be.RHS.(*influxql.StringLiteral)
			if !ok {
				return nil, text, true, fmt.Errorf("placeholder text %q: rhs %T", ptext, be.RHS)
			}
			sl.Val = l.Val
		}
	}
	typeTags(e)
	return e, text, true, nil
}

// typeTags marks every reference as a tag, which is what the query layer does for tag
// keys (and what makes "absent tag" a tag comparison, not a field comparison).
func typeTags(e influxql.Expr) {
	influxql.WalkFunc(e, func(n influxql.Node) {
		if r, ok := n.(*influxql.VarRef); ok {
			r.Type = influxql.Tag
		}
	})
}

// ---------------------------------------------------------------- oracle

type bitset []uint64

func newBits(n int) bitset { return make(bitset, (n+63)/64) }
func (b bitset) set(i int) { b[i/64] |= 1 << (i % 64) }
func (b bitset) has(i int) bool {
	return b[i/64]&(1<<(i%64)) != 0
}
func (b bitset) eq(o bitset) bool {
	for i := range b {
		if b[i] != o[i] {
			return false
		}
	}
	return true
}
func (b bitset) and(o bitset) bitset {
	r := make(bitset, len(b))
	for i := range b {
		r[i] = b[i] & o[i]
	}
	return r
}
func (b bitset) or(o bitset) bitset {
	r := make(bitset, len(b))
	for i := range b {
		r[i] = b[i] | o[i]
	}
	return r
}
func (b bitset) count() int {
	n := 0
	for _, w := range b {
		for ; w != 0; w &= w - 1 {
			n++
		}
	}
	return n
}
func (b bitset) list() []int {
	var out []int
	for i := 0; i < len(b)*64; i++ {
		if b.has(i) {
			out = append(out, i)
		}
	}
	return out
}

// evalLeafWith evaluates one comparison over the series of a measurement (positions in
// view.Series) with InfluxQL semantics: an absent tag is the empty string; =~ is Go
// regexp's unanchored MatchString. conv lets the classifier look at variants.
func evalLeafWith(u []Series, v *mstView, l *Leaf, match func(val string) bool) bitset {
	out := newBits(len(v.Series))
	for pos, si := range v.Series {
		if match(u[si].Get(l.Key)) {
			out.set(pos)
		}
	}
	return out
}

func evalLeaf(u []Series, v *mstView, l *Leaf) bitset {
	switch l.Op {
	case "=":
		return evalLeafWith(u, v, l, func(x string) bool { return x == l.Val })
	case "!=":
		return evalLeafWith(u, v, l, func(x string) bool { return x != l.Val })
	}
	re := regexp.MustCompile(l.Val)
	if l.Op == "=~" {
		return evalLeafWith(u, v, l, re.MatchString)
	}
	return evalLeafWith(u, v, l, func(x string) bool { return !re.MatchString(x) })
}

func evalTree(p *Pred, leafSets []bitset) bitset {
	switch p.Kind {
	case "leaf":
		return leafSets[p.Leaf]
	case "and":
		return evalTree(p.L, leafSets).and(evalTree(p.R, leafSets))
	default:
		return evalTree(p.L, leafSets).or(evalTree(p.R, leafSets))
	}
}

// ---------------------------------------------------------------- regex classification

// regexShape names the syntactic class of a pattern.
func regexShape(p string) string {
	re, err := syntax.Parse(p, syntax.Perl)
	if err != nil {
		return "unparsable"
	}
	if regexp.MustCompile(p).MatchString("") {
		return "empty-matching"
	}
	re = re.Simplify()
	if re.Op == syntax.OpLiteral && re.Flags&syntax.FoldCase == 0 {
		return "literal"
	}
	begin, end := false, false
	if re.Op == syntax.OpConcat && len(re.Sub) > 0 {
		begin = re.Sub[0].Op == syntax.OpBeginText
		end = re.Sub[len(re.Sub)-1].Op == syntax.OpEndText
	}
	switch {
	case begin && end:
		return "anchored-both"
	case begin:
		return "anchored-start"
	case end:
		return "anchored-end"
	}
	return "unanchored"
}

func stripAnchors(re *syntax.Regexp) *syntax.Regexp {
	switch re.Op {
	case syntax.OpBeginText, syntax.OpEndText, syntax.OpBeginLine, syntax.OpEndLine:
		return &syntax.Regexp{Op: syntax.OpEmptyMatch}
	}
	for i, s := range re.Sub {
		re.Sub[i] = stripAnchors(s)
	}
	return re
}

// escapeStored is the byte form in which the index stores a tag value.
func escapeStored(v string) string {
	r := strings.NewReplacer("\x00", "\x000", "\x01", "\x001", "\x02", "\x002")
	return r.Replace(v)
}

// explainRegex looks for a named misreading of the pattern whose result over the shadow
// set equals what the index returned. Only used to name a violation, never to judge.
func explainRegex(u []Series, v *mstView, l *Leaf, got bitset) string {
	neg := l.Op == "!~"
	try := func(m func(string) bool) bool {
		return evalLeafWith(u, v, l, func(x string) bool { return m(x) != neg }).eq(got)
	}
	compile := func(p string) *regexp.Regexp {
		re, err := regexp.Compile(p)
		if err != nil {
			return nil
		}
		return re
	}
	type cand struct {
		name string
		re   *regexp.Regexp
	}
	var cands []cand
	cands = append(cands,
		cand{"as-fully-anchored", compile("^(?:" + l.Val + ")$")},
		cand{"as-start-anchored", compile("^(?:" + l.Val + ")")},
		cand{"as-end-anchored", compile("(?:" + l.Val + ")$")},
	)
	if sre, err := syntax.Parse(l.Val, syntax.Perl); err == nil {
		cands = append(cands, cand{"anchors-ignored", compile(stripAnchors(sre).String())})
	}
	re := compile(l.Val)
	// separator bytes first: only a pattern/value pair that involves the bytes 0x00-0x02
	// can tell this reading from the plain one
	if re != nil && try(func(x string) bool { return re.MatchString(escapeStored(x)) }) {
		return "matched-on-escaped-bytes"
	}
	for _, c := range cands {
		if c.re != nil && try(c.re.MatchString) {
			return c.name
		}
	}
	if re != nil {
		if re.MatchString("") && try(func(string) bool { return true }) {
			return "empty-match-as-match-all"
		}
		for _, c := range cands {
			if c.re != nil && try(func(x string) bool { return c.re.MatchString(escapeStored(x)) }) {
				return c.name + "+escaped-bytes"
			}
		}
	}
	return "unexplained"
}

func valueClass(v string) string {
	switch {
	case v == "":
		return "empty"
	case strings.ContainsAny(v, "\x00\x01\x02"):
		return "sepbyte"
	case strings.ContainsAny(v, ", ="):
		return "lp-special"
	case !isASCII(v):
		return "non-ascii"
	}
	return "plain"
}

func isASCII(s string) bool {
	for i := 0; i < len(s); i++ {
		if s[i] >= 0x80 {
			return false
		}
	}
	return true
}

func diffKind(want, got bitset) string {
	missing, extra := false, false
	for i := range want {
		if want[i]&^got[i] != 0 {
			missing = true
		}
		if got[i]&^want[i] != 0 {
			extra = true
		}
	}
	switch {
	case missing && extra:
		return "missing+extra"
	case missing:
		return "missing"
	case extra:
		return "extra"
	}
	return "equal"
}

func sortedCopy(xs []string) []string {
	out := append([]string(nil), xs...)
	sort.Strings(out)
	return out
}
