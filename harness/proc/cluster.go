package proc

import (
	"fmt"
	"os"
	"os/exec"
	"path/filepath"
	"strings"
	"syscall"
	"time"
)

// Cluster: 3 ts-meta, 3 ts-store, 1 ts-sql on three loopback addresses
// (base.1, base.2, base.3), ha-policy = "replication". The sql node runs on the first
// address. Every process is built from /repo's working tree with -tags verif.
type Cluster struct {
	Dir    string
	Base   string // e.g. "127.15.3" -> nodes .1 .2 .3
	Bins   map[string]string
	Metas  [3]*Node
	Stores [3]*Node
	SQL    *Node
	Front  *Server // HTTP client view of the sql node (Write/Query helpers)
	Extra  map[string][]string
}

type Node struct {
	Kind   string // ts-meta ts-store ts-sql
	Idx    int
	IP     string
	Bin    string
	Conf   string
	Dir    string
	Env    []string
	cmd    *exec.Cmd
	done   chan struct{}
	gen    int
	Paused bool
}

func (n *Node) Name() string { return fmt.Sprintf("%s-%d", n.Kind, n.Idx+1) }

func (n *Node) Start(extraEnv ...string) error {
	n.gen++
	logf, err := os.OpenFile(filepath.Join(n.Dir, fmt.Sprintf("%s-stdout-%d.log", n.Name(), n.gen)), os.O_CREATE|os.O_WRONLY|os.O_TRUNC, 0o644)
	if err != nil {
		return err
	}
	cmd := exec.Command(n.Bin, "-config", n.Conf)
	cmd.Dir = n.Dir
	cmd.Stdout, cmd.Stderr = logf, logf
	cmd.Env = append(os.Environ(), n.Env...)
	cmd.Env = append(cmd.Env, extraEnv...)
	cmd.SysProcAttr = &syscall.SysProcAttr{Setpgid: true, Pdeathsig: syscall.SIGKILL}
	if err := cmd.Start(); err != nil {
		logf.Close()
		return err
	}
	n.cmd = cmd
	n.done = make(chan struct{})
	n.Paused = false
	go func(c *exec.Cmd, d chan struct{}) {
		_ = c.Wait()
		logf.Close()
		close(d)
	}(cmd, n.done)
	return nil
}

func (n *Node) Alive() bool {
	if n.done == nil {
		return false
	}
	select {
	case <-n.done:
		return false
	default:
		return true
	}
}

func (n *Node) Kill() {
	if n.cmd == nil || n.cmd.Process == nil || !n.Alive() {
		return
	}
	_ = syscall.Kill(-n.cmd.Process.Pid, syscall.SIGKILL)
	<-n.done
}

func (n *Node) Pause() {
	if n.Alive() {
		_ = syscall.Kill(-n.cmd.Process.Pid, syscall.SIGSTOP)
		n.Paused = true
	}
}

func (n *Node) Resume() {
	if n.Alive() {
		_ = syscall.Kill(-n.cmd.Process.Pid, syscall.SIGCONT)
		n.Paused = false
	}
}

func (n *Node) Stop(d time.Duration) {
	if !n.Alive() {
		return
	}
	_ = syscall.Kill(-n.cmd.Process.Pid, syscall.SIGTERM)
	select {
	case <-n.done:
	case <-time.After(d):
		n.Kill()
	}
}

func (n *Node) StdoutTail(k int) string {
	b, _ := os.ReadFile(filepath.Join(n.Dir, fmt.Sprintf("%s-stdout-%d.log", n.Name(), n.gen)))
	if len(b) > k {
		b = b[len(b)-k:]
	}
	return string(b)
}

func NewCluster(repo, outDir, dir, base string, race bool, extra map[string][]string) (*Cluster, error) {
	c := &Cluster{Dir: dir, Base: base, Bins: map[string]string{}, Extra: extra}
	for _, b := range []string{"ts-meta", "ts-store", "ts-sql"} {
		p, err := Build(repo, outDir, b, race && b == "ts-store")
		if err != nil {
			return nil, err
		}
		c.Bins[b] = p
	}
	if err := os.MkdirAll(dir, 0o755); err != nil {
		return nil, err
	}
	tmpl, err := os.ReadFile(filepath.Join(repo, "config", "openGemini.conf"))
	if err != nil {
		return nil, err
	}
	for i := 0; i < 3; i++ {
		ip := fmt.Sprintf("%s.%d", base, i+1)
		ndir := filepath.Join(dir, fmt.Sprintf("n%d", i+1))
		_ = os.MkdirAll(filepath.Join(ndir, "logs"), 0o755)
		conf := string(tmpl)
		rep := strings.NewReplacer(
			"{{meta_addr_1}}", base+".1", "{{meta_addr_2}}", base+".2", "{{meta_addr_3}}", base+".3",
			"{{addr}}", ip, "{{id}}", fmt.Sprint(i+1),
			"/tmp/openGemini/data", ndir+"/data", "/tmp/openGemini/logs", ndir+"/logs",
			`# ha-policy = "write-available-first"`, `ha-policy = "replication"`,
		)
		conf = rep.Replace(conf)
		conf = injectExtra(conf, extra)
		cp := filepath.Join(ndir, "node.conf")
		if err := os.WriteFile(cp, []byte(conf), 0o644); err != nil {
			return nil, err
		}
		c.Metas[i] = &Node{Kind: "ts-meta", Idx: i, IP: ip, Bin: c.Bins["ts-meta"], Conf: cp, Dir: ndir}
		c.Stores[i] = &Node{Kind: "ts-store", Idx: i, IP: ip, Bin: c.Bins["ts-store"], Conf: cp, Dir: ndir,
			Env: []string{"VERIF_CTL=" + ip + ":8999"}}
		if i == 0 {
			c.SQL = &Node{Kind: "ts-sql", Idx: 0, IP: ip, Bin: c.Bins["ts-sql"], Conf: cp, Dir: ndir}
		}
	}
	c.Front = New(Config{IP: base + ".1", Dir: filepath.Join(dir, "n1")})
	return c, nil
}

// injectExtra appends "key = value" lines right after the [section] header.
func injectExtra(conf string, extra map[string][]string) string {
	for sec, lines := range extra {
		hdr := "[" + sec + "]"
		i := strings.Index(conf, "\n"+hdr)
		if i < 0 {
			conf += "\n" + hdr + "\n  " + strings.Join(lines, "\n  ") + "\n"
			continue
		}
		j := i + 1 + len(hdr)
		conf = conf[:j] + "\n  " + strings.Join(lines, "\n  ") + conf[j:]
	}
	return conf
}

// StartAll brings the cluster up and waits until the sql node answers and all three
// stores are registered.
func (c *Cluster) StartAll(wd time.Duration) error {
	for _, m := range c.Metas {
		if err := m.Start(); err != nil {
			return err
		}
	}
	time.Sleep(3 * time.Second)
	for _, s := range c.Stores {
		if err := s.Start(); err != nil {
			return err
		}
		time.Sleep(200 * time.Millisecond)
	}
	time.Sleep(2 * time.Second)
	if err := c.SQL.Start(); err != nil {
		return err
	}
	deadline := time.Now().Add(wd)
	for time.Now().Before(deadline) {
		if c.Front.pingOK() {
			res, err := c.Front.Query("", "SHOW CLUSTER", nil)
			if err == nil && strings.Count(res.Raw, `"data"`) >= 3 && strings.Count(res.Raw, `"alive"`) >= 6 {
				return nil
			}
		}
		time.Sleep(300 * time.Millisecond)
	}
	return fmt.Errorf("cluster not ready within %s: %s", wd, c.SQL.StdoutTail(1500))
}

func (c *Cluster) KillAll() {
	if c.SQL != nil {
		c.SQL.Kill()
	}
	for _, s := range c.Stores {
		if s != nil {
			s.Resume()
			s.Kill()
		}
	}
	for _, m := range c.Metas {
		if m != nil {
			m.Kill()
		}
	}
}

// StoreState asks a store's control port.
func (c *Cluster) StoreState(i int) (map[string]any, error) {
	s := New(Config{IP: c.Stores[i].IP})
	var out map[string]any
	err := s.Ctl("GET", "/verif/state", "", &out)
	return out, err
}

// StoreCtl calls the control port of store i.
func (c *Cluster) StoreCtl(i int, method, path, body string) error {
	s := New(Config{IP: c.Stores[i].IP})
	return s.Ctl(method, path, body, nil)
}
