// Package proc starts and controls real openGemini server processes built from
// /repo's working tree with -tags verif, on private loopback addresses.
package proc

import (
	"bytes"
	"encoding/json"
	"fmt"
	"io"
	"net"
	"net/http"
	"net/url"
	"os"
	"os/exec"
	"path/filepath"
	"sort"
	"strings"
	"sync"
	"syscall"
	"time"
)

var buildMu sync.Mutex
var built = map[string]string{}

// Build builds app/<name> from the repository working tree with -tags verif (and -race
// if asked) and returns the binary path. Go's build cache makes this incremental; a
// source edit under /repo is always picked up.
func Build(repo, outDir, name string, race bool) (string, error) {
	buildMu.Lock()
	defer buildMu.Unlock()
	key := name
	if race {
		key += ".race"
	}
	if p, ok := built[key]; ok {
		return p, nil
	}
	_ = os.MkdirAll(filepath.Join(outDir, "bin"), 0o755)
	out := filepath.Join(outDir, "bin", key)
	args := []string{"build", "-tags", "verif"}
	if race {
		args = append(args, "-race")
	}
	args = append(args, "-o", out, "./app/"+name)
	cmd := exec.Command("go", args...)
	cmd.Dir = repo
	b, err := cmd.CombinedOutput()
	if err != nil {
		return "", fmt.Errorf("go %s: %v\n%s", strings.Join(args, " "), err, b)
	}
	built[key] = out
	return out, nil
}

// Config of one single-node ts-server instance.
type Config struct {
	Bin     string
	Dir     string              // instance directory (data, wal, meta, logs, conf)
	IP      string              // loopback address, e.g. 127.12.0.1
	PtNum   int                 // [meta] ptnum-pernode (0 = default)
	CPUs    int                 // >0: run under taskset -c 0-(CPUs-1) (number of WAL partitions)
	Extra   map[string][]string // section -> extra "key = value" lines
	Env     []string
	Auth    bool
	FS      bool // enable the VFS recorder (VERIF_FS=1)
	FSMatch string
	BGOff   bool // keep background compaction / out-of-order merge switched off (VERIF_BG_OFF)
}

type Server struct {
	Cfg         Config
	cmd         *exec.Cmd
	done        chan struct{}
	waitErr     error
	gen         int
	HTTP        *http.Client
	ReadyParams url.Values // credentials for the readiness probe when auth is on
	mu          sync.Mutex
}

func (s *Server) URL() string     { return "http://" + s.Cfg.IP + ":8086" }
func (s *Server) CtlURL() string  { return "http://" + s.Cfg.IP + ":8999" }
func (s *Server) DataDir() string { return filepath.Join(s.Cfg.Dir, "data") }
func (s *Server) LogDir() string  { return filepath.Join(s.Cfg.Dir, "logs") }

func New(cfg Config) *Server {
	tr := &http.Transport{MaxIdleConnsPerHost: 16, DisableKeepAlives: false}
	return &Server{Cfg: cfg, HTTP: &http.Client{Transport: tr, Timeout: 120 * time.Second}}
}

func (s *Server) writeConf() (string, error) {
	c := s.Cfg
	d := c.Dir
	sec := map[string][]string{
		"common": {`meta-join = ["` + c.IP + `:8092"]`, `ha-policy = "write-available-first"`, `ignore-empty-tag = true`},
		"meta": {`bind-address = "` + c.IP + `:8088"`, `http-bind-address = "` + c.IP + `:8091"`,
			`rpc-bind-address = "` + c.IP + `:8092"`, `dir = "` + d + `/meta"`},
		"http": {`bind-address = "` + c.IP + `:8086"`, `flight-address = "` + c.IP + `:8087"`, `flight-enabled = false`,
			`flight-auth-enabled = false`},
		"data": {`store-ingest-addr = "` + c.IP + `:8400"`, `store-select-addr = "` + c.IP + `:8401"`,
			`store-data-dir = "` + d + `/data"`, `store-wal-dir = "` + d + `/data"`, `store-meta-dir = "` + d + `/meta"`,
			`enable-mmap-read = false`, `lazy-load-shard-enable = false`},
		"coordinator": {`query-timeout = "0s"`},
		"index":       {`cache-compress-enable = false`},
		"logging":     {`path = "` + d + `/logs/"`},
		"gossip":      {`enabled = false`},
		"spec-limit":  {`enable-query-when-exceed = true`, `query-series-limit = 100000`, `query-schema-limit = 1000000`},
		"monitor": {`pushers = ""`, `store-enabled = false`, `store-database = "_internal"`, `store-interval = "10s"`,
			`store-path = "` + d + `/metric/{{id}}/metric.data"`, `compress = false`, `https-enabled = false`,
			`http-endpoint = "` + c.IP + `:8086"`},
		"record-write":         {`enabled = false`, `auth-enabled = false`, `rpc-address = "` + c.IP + `:8305"`},
		"hierarchical_storage": {`enabled = false`, `index-enabled = false`},
	}
	if c.PtNum > 0 {
		sec["meta"] = append(sec["meta"], fmt.Sprintf("ptnum-pernode = %d", c.PtNum))
	}
	if c.Auth {
		sec["http"] = append(sec["http"], "auth-enabled = true")
	}
	for k, lines := range c.Extra {
		// an extra line replaces a default line with the same key
		for _, ln := range lines {
			key := strings.TrimSpace(strings.SplitN(ln, "=", 2)[0])
			kept := sec[k][:0]
			for _, old := range sec[k] {
				if strings.TrimSpace(strings.SplitN(old, "=", 2)[0]) != key {
					kept = append(kept, old)
				}
			}
			sec[k] = append(kept, ln)
		}
	}
	names := make([]string, 0, len(sec))
	for k := range sec {
		names = append(names, k)
	}
	sort.Strings(names)
	var b strings.Builder
	for _, k := range names {
		fmt.Fprintf(&b, "[%s]\n", k)
		for _, ln := range sec[k] {
			fmt.Fprintf(&b, "  %s\n", ln)
		}
		b.WriteString("\n")
	}
	if err := os.MkdirAll(d, 0o755); err != nil {
		return "", err
	}
	p := filepath.Join(d, "server.conf")
	return p, os.WriteFile(p, []byte(b.String()), 0o644)
}

// Start launches the process (does not wait for readiness). extraEnv is appended for
// this start only (e.g. VERIF_FS_ARM for a crash during recovery).
func (s *Server) Start(extraEnv ...string) error {
	conf, err := s.writeConf()
	if err != nil {
		return err
	}
	s.gen++
	logf, err := os.OpenFile(filepath.Join(s.Cfg.Dir, fmt.Sprintf("stdout-%d.log", s.gen)), os.O_CREATE|os.O_WRONLY|os.O_TRUNC, 0o644)
	if err != nil {
		return err
	}
	args := []string{s.Cfg.Bin, "run", "-config", conf}
	if s.Cfg.CPUs > 0 {
		args = append([]string{"taskset", "-c", fmt.Sprintf("0-%d", s.Cfg.CPUs-1)}, args...)
	}
	cmd := exec.Command(args[0], args[1:]...)
	cmd.Dir = s.Cfg.Dir
	cmd.Stdout, cmd.Stderr = logf, logf
	cmd.Env = append(os.Environ(), "VERIF_CTL="+s.Cfg.IP+":8999")
	if s.Cfg.FS {
		cmd.Env = append(cmd.Env, "VERIF_FS=1", "VERIF_FS_DIELOG="+filepath.Join(s.Cfg.Dir, "dielog"))
		if s.Cfg.FSMatch != "" {
			cmd.Env = append(cmd.Env, "VERIF_FS_MATCH="+s.Cfg.FSMatch)
		}
	}
	if s.Cfg.BGOff {
		cmd.Env = append(cmd.Env, "VERIF_BG_OFF=1")
	}
	cmd.Env = append(cmd.Env, s.Cfg.Env...)
	cmd.Env = append(cmd.Env, extraEnv...)
	cmd.SysProcAttr = &syscall.SysProcAttr{Setpgid: true, Pdeathsig: syscall.SIGKILL}
	if err := cmd.Start(); err != nil {
		logf.Close()
		return err
	}
	s.cmd = cmd
	s.done = make(chan struct{})
	go func(c *exec.Cmd, d chan struct{}) {
		s.waitErr = c.Wait()
		logf.Close()
		close(d)
	}(cmd, s.done)
	return nil
}

// Alive reports whether the process is still running.
func (s *Server) Alive() bool {
	if s.done == nil {
		return false
	}
	select {
	case <-s.done:
		return false
	default:
		return true
	}
}

func (s *Server) Pid() int {
	if s.cmd == nil || s.cmd.Process == nil {
		return 0
	}
	return s.cmd.Process.Pid
}

// Kill sends SIGKILL to the process group and waits for it to be gone.
func (s *Server) Kill() {
	if s.cmd == nil || s.cmd.Process == nil {
		return
	}
	_ = syscall.Kill(-s.cmd.Process.Pid, syscall.SIGKILL)
	<-s.done
	s.HTTP.CloseIdleConnections()
}

// Signal sends sig to the server process group.
func (s *Server) Signal(sig syscall.Signal) {
	if s.cmd != nil && s.cmd.Process != nil {
		_ = syscall.Kill(-s.cmd.Process.Pid, sig)
	}
}

// WaitExit waits until the process has exited or d elapsed; returns true if exited.
func (s *Server) WaitExit(d time.Duration) bool {
	if s.done == nil {
		return true
	}
	select {
	case <-s.done:
		s.HTTP.CloseIdleConnections()
		return true
	case <-time.After(d):
		return false
	}
}

// Stop asks for a clean shutdown (SIGTERM) and waits up to d, then kills.
func (s *Server) Stop(d time.Duration) bool {
	if !s.Alive() {
		return true
	}
	s.Signal(syscall.SIGTERM)
	if s.WaitExit(d) {
		return true
	}
	s.Kill()
	return false
}

// ExitError returns the Wait error of the last exited process.
func (s *Server) ExitError() error { return s.waitErr }

// StdoutTail returns the tail of the current generation's stdout/stderr file.
func (s *Server) StdoutTail(n int) string {
	b, _ := os.ReadFile(filepath.Join(s.Cfg.Dir, fmt.Sprintf("stdout-%d.log", s.gen)))
	if len(b) > n {
		b = b[len(b)-n:]
	}
	return string(b)
}

// WaitReady waits until /ping answers, the control port answers, every shard known to
// the engine is opened and not replaying its WAL, and a trivial query succeeds. It
// returns an error if the process exits first or the watchdog expires.
func (s *Server) WaitReady(wd time.Duration) error {
	deadline := time.Now().Add(wd)
	for time.Now().Before(deadline) {
		if !s.Alive() {
			return fmt.Errorf("server exited during start-up: %v\n%s", s.waitErr, s.StdoutTail(2000))
		}
		if s.pingOK() {
			if s.shardsReady() {
				return nil
			}
		}
		time.Sleep(100 * time.Millisecond)
	}
	return fmt.Errorf("server not ready within %s\n%s", wd, s.StdoutTail(2000))
}

// shardsReady: every shard directory on disk that belongs to an existing database is
// known to the engine, opened and not replaying its WAL.
func (s *Server) shardsReady() bool {
	st, err := s.State("")
	if err != nil || !st.Ready {
		return false
	}
	res, err := s.Query("", "SHOW DATABASES", s.ReadyParams)
	if err != nil || len(res.Results) == 0 {
		return false
	}
	dbs := map[string]bool{}
	for _, se := range res.Results[0].Series {
		for _, row := range se.Values {
			if len(row) > 0 {
				dbs[fmt.Sprint(row[0])] = true
			}
		}
	}
	have := map[uint64]ShardState{}
	for _, sh := range st.Shards {
		have[sh.ID] = sh
		if !sh.Opened || sh.ReplayingWal {
			return false
		}
	}
	dirs, _ := filepath.Glob(filepath.Join(s.Cfg.Dir, "data", "data", "*", "*", "*", "*_*_*_*"))
	for _, d := range dirs {
		rel, _ := filepath.Rel(filepath.Join(s.Cfg.Dir, "data", "data"), d)
		parts := strings.Split(rel, string(filepath.Separator))
		if len(parts) != 4 || !dbs[parts[0]] {
			continue
		}
		var id uint64
		if _, err := fmt.Sscanf(strings.SplitN(parts[3], "_", 2)[0], "%d", &id); err != nil {
			continue
		}
		if _, ok := have[id]; !ok {
			return false
		}
	}
	return true
}

func (s *Server) pingOK() bool {
	c, err := net.DialTimeout("tcp", s.Cfg.IP+":8086", 300*time.Millisecond)
	if err != nil {
		return false
	}
	c.Close()
	resp, err := s.HTTP.Get(s.URL() + "/ping")
	if err != nil {
		return false
	}
	io.Copy(io.Discard, resp.Body)
	resp.Body.Close()
	return resp.StatusCode == 204 || resp.StatusCode == 200
}

type ShardState struct {
	ID           uint64 `json:"id"`
	DB           string `json:"db"`
	RP           string `json:"rp"`
	PT           uint32 `json:"pt"`
	Opened       bool   `json:"opened"`
	ReplayingWal bool   `json:"replayingWal"`
	ActiveMem    int64  `json:"activeMem"`
	SnapshotTbl  bool   `json:"snapshotTbl"`
	DataPath     string `json:"dataPath"`
	WalPath      string `json:"walPath"`
	EngineType   int    `json:"engineType"`
}

type State struct {
	Ready     bool             `json:"ready"`
	Shards    []ShardState     `json:"shards"`
	Points    map[string]int64 `json:"points"`
	FSCount   int64            `json:"fs_count"`
	FSEnabled bool             `json:"fs_enabled"`
}

func (s *Server) State(db string) (*State, error) {
	var st State
	err := s.Ctl("GET", "/verif/state?db="+url.QueryEscape(db), "", &st)
	return &st, err
}

// Ctl calls the control port; out may be nil.
func (s *Server) Ctl(method, path, body string, out any) error {
	req, _ := http.NewRequest(method, s.CtlURL()+path, strings.NewReader(body))
	resp, err := s.HTTP.Do(req)
	if err != nil {
		return err
	}
	defer resp.Body.Close()
	b, _ := io.ReadAll(resp.Body)
	if resp.StatusCode/100 != 2 {
		return fmt.Errorf("ctl %s: %d %s", path, resp.StatusCode, b)
	}
	if out != nil {
		return json.Unmarshal(b, out)
	}
	return nil
}

func (s *Server) Flush() error { return s.Ctl("POST", "/verif/flush", "", nil) }
func (s *Server) Compact(mode string) error {
	return s.Ctl("POST", "/verif/compact?mode="+mode, "", nil)
}
func (s *Server) Merge() error { return s.Ctl("POST", "/verif/merge", "", nil) }
func (s *Server) FsCount() (int64, error) {
	var r struct {
		Count int64 `json:"count"`
	}
	err := s.Ctl("GET", "/verif/fs/count", "", &r)
	return r.Count, err
}
func (s *Server) FsArm(k, torn int64) error {
	return s.Ctl("POST", fmt.Sprintf("/verif/fs/arm?k=%d&torn=%d", k, torn), "", nil)
}

// FsArmPattern: die before the n-th mutation of the given kind whose path contains substr.
func (s *Server) FsArmPattern(kind, substr, not string, n int64) error {
	return s.Ctl("POST", fmt.Sprintf("/verif/fs/armpat?kind=%s&path=%s&not=%s&n=%d", url.QueryEscape(kind), url.QueryEscape(substr), url.QueryEscape(not), n), "", nil)
}

// FsFail: the first rename/remove at or after the k-th mutation from now fails with EIO
// (once, without being executed).
func (s *Server) FsFail(k int64) error {
	return s.Ctl("POST", fmt.Sprintf("/verif/fs/fail?k=%d", k), "", nil)
}
func (s *Server) Points(spec string) error { return s.Ctl("POST", "/verif/points", spec, nil) }

// DieLog returns what the VFS recorder wrote before killing the process ("" if none)
// and removes it.
func (s *Server) DieLog() string {
	p := filepath.Join(s.Cfg.Dir, "dielog")
	b, _ := os.ReadFile(p)
	_ = os.Remove(p)
	return strings.TrimSpace(string(b))
}

// WriteResult of a /write call.
type WriteResult struct {
	Status int
	Body   string
	Err    error // transport error (connection reset, timeout): outcome unknown
}

func (w WriteResult) Acked() bool { return w.Err == nil && w.Status == 204 }

// Write posts line protocol. params may carry precision, rp, u, p …
func (s *Server) Write(db, body string, params url.Values) WriteResult {
	q := url.Values{}
	for k, v := range params {
		q[k] = v
	}
	q.Set("db", db)
	resp, err := s.HTTP.Post(s.URL()+"/write?"+q.Encode(), "text/plain", strings.NewReader(body))
	if err != nil {
		return WriteResult{Err: err}
	}
	defer resp.Body.Close()
	b, _ := io.ReadAll(resp.Body)
	return WriteResult{Status: resp.StatusCode, Body: string(b)}
}

// Series is one series of a query result.
type Series struct {
	Name    string            `json:"name"`
	Tags    map[string]string `json:"tags"`
	Columns []string          `json:"columns"`
	Values  [][]any           `json:"values"` // numbers are json.Number
	Partial bool              `json:"partial"`
}

type StmtResult struct {
	ID      int      `json:"statement_id"`
	Series  []Series `json:"series"`
	Err     string   `json:"error"`
	Partial bool     `json:"partial"`
}

type QueryResult struct {
	Results []StmtResult `json:"results"`
	Err     string       `json:"error"`
	Status  int          `json:"-"`
	Raw     string       `json:"-"`
}

// Query runs q (GET for SELECT/SHOW, POST otherwise) with epoch=ns and decodes numbers
// as json.Number. A chunked response (several JSON documents) is re-assembled.
func (s *Server) Query(db, q string, params url.Values) (*QueryResult, error) {
	v := url.Values{}
	v.Set("epoch", "ns")
	for k, x := range params {
		v[k] = x
	}
	if db != "" {
		v.Set("db", db)
	}
	v.Set("q", q)
	method := "POST"
	uq := strings.ToUpper(strings.TrimSpace(q))
	if strings.HasPrefix(uq, "SELECT") && !strings.Contains(uq, " INTO ") || strings.HasPrefix(uq, "SHOW") {
		method = "GET"
	}
	req, _ := http.NewRequest(method, s.URL()+"/query?"+v.Encode(), nil)
	resp, err := s.HTTP.Do(req)
	if err != nil {
		return nil, err
	}
	defer resp.Body.Close()
	b, err := io.ReadAll(resp.Body)
	if err != nil {
		return nil, err
	}
	res, err := DecodeQuery(b)
	if err != nil {
		return nil, fmt.Errorf("status %d: undecodable body %q: %v", resp.StatusCode, trunc(string(b), 300), err)
	}
	res.Status = resp.StatusCode
	res.Raw = string(b)
	if res.Err != "" {
		return res, fmt.Errorf("query error: %s", res.Err)
	}
	for _, r := range res.Results {
		if r.Err != "" {
			return res, fmt.Errorf("statement error: %s", r.Err)
		}
	}
	return res, nil
}

// DecodeQuery decodes one or several concatenated JSON result documents, merging
// chunked pieces (same statement id; same series name+tags+columns are appended).
func DecodeQuery(b []byte) (*QueryResult, error) {
	dec := json.NewDecoder(bytes.NewReader(b))
	dec.UseNumber()
	out := &QueryResult{}
	n := 0
	for {
		var one QueryResult
		if err := dec.Decode(&one); err == io.EOF {
			break
		} else if err != nil {
			return nil, err
		}
		n++
		if one.Err != "" {
			out.Err = one.Err
		}
		for _, r := range one.Results {
			var tgt *StmtResult
			for i := range out.Results {
				if out.Results[i].ID == r.ID {
					tgt = &out.Results[i]
				}
			}
			if tgt == nil {
				out.Results = append(out.Results, StmtResult{ID: r.ID})
				tgt = &out.Results[len(out.Results)-1]
			}
			if r.Err != "" {
				tgt.Err = r.Err
			}
			for _, se := range r.Series {
				if k := len(tgt.Series); k > 0 && sameSeries(&tgt.Series[k-1], &se) {
					tgt.Series[k-1].Values = append(tgt.Series[k-1].Values, se.Values...)
				} else {
					tgt.Series = append(tgt.Series, se)
				}
			}
		}
	}
	if n == 0 {
		return nil, fmt.Errorf("empty body")
	}
	return out, nil
}

func sameSeries(a, b *Series) bool {
	if a.Name != b.Name || len(a.Tags) != len(b.Tags) || len(a.Columns) != len(b.Columns) {
		return false
	}
	for k, v := range a.Tags {
		if bv, ok := b.Tags[k]; !ok || bv != v {
			return false
		}
	}
	for i := range a.Columns {
		if a.Columns[i] != b.Columns[i] {
			return false
		}
	}
	return true
}

func trunc(s string, n int) string {
	if len(s) > n {
		return s[:n] + "…"
	}
	return s
}

// IP returns a private loopback address for (property number, worker); the last octet
// mixes in the pid so that two runs of the same check do not collide.
func IP(prop, worker int) string {
	return fmt.Sprintf("127.%d.%d.%d", 10+prop, worker%250+1, os.Getpid()%250+1)
}
