package main

import (
	"encoding/json"
	"os"
	"path/filepath"
	"sync"

	"verifharness/vf"
)

// Side channel between the worker processes and the parent: which coverage category
// members were observed (vf only exposes set sizes) and the fragment totals needed for the
// global pruning ratio. Workers write $C20_SIDE/<arg>.json when they finish.

type sideData struct {
	Seen          map[string]bool `json:"seen"`
	FragsTotal    int64           `json:"frags_total"`
	FragsReturned int64           `json:"frags_returned"`
	FragsNeeded   int64           `json:"frags_needed"`
	Scans         int64           `json:"scans"`
	PruningScans  int64           `json:"pruning_scans"`
}

var (
	sideMu sync.Mutex
	side   = sideData{Seen: map[string]bool{}}
)

// note records a coverage category member in the evidence and in the side channel.
func note(c *vf.Ctx, cat, key string) {
	c.Distinct(cat, key)
	sideMu.Lock()
	side.Seen[cat+"="+key] = true
	sideMu.Unlock()
}

func sideAddStats(st *inprocStats) {
	sideMu.Lock()
	side.FragsTotal += st.fragsTotal
	side.FragsReturned += st.fragsReturned
	side.FragsNeeded += st.fragsNeeded
	side.Scans += st.scans
	side.PruningScans += st.pruningScans
	sideMu.Unlock()
}

func sideWrite(name string) {
	dir := os.Getenv("C20_SIDE")
	if dir == "" {
		return
	}
	sideMu.Lock()
	b, _ := json.Marshal(side)
	sideMu.Unlock()
	_ = os.MkdirAll(dir, 0o755)
	_ = os.WriteFile(filepath.Join(dir, name+".json"), b, 0o644)
}

// sideMerge reads every worker's file into the parent's side data.
func sideMerge(dir string) {
	files, _ := filepath.Glob(filepath.Join(dir, "*.json"))
	for _, f := range files {
		b, err := os.ReadFile(f)
		if err != nil {
			continue
		}
		var d sideData
		if json.Unmarshal(b, &d) != nil {
			continue
		}
		sideMu.Lock()
		for k := range d.Seen {
			side.Seen[k] = true
		}
		side.FragsTotal += d.FragsTotal
		side.FragsReturned += d.FragsReturned
		side.FragsNeeded += d.FragsNeeded
		side.Scans += d.Scans
		side.PruningScans += d.PruningScans
		sideMu.Unlock()
	}
}
