package main

import "strings"

// Independent evaluator of a condition tree over the rows of a table (written from the
// query language's meaning, not from the engine's filter): used alongside the engine's
// row filter on null-free data; a disagreement is a non-gating observation.

// Null cells never satisfy a comparison (this is also what the engine's row filter does).

// evaluable reports whether the evaluator models every operator of the tree.
func evaluable(n *Node) bool {
	ok := true
	n.walk(func(x *Node) {
		switch x.Op {
		case "=", "!=", "<", "<=", ">", ">=":
		default:
			ok = false
		}
	})
	return ok
}

func cmpOrdered[T int64 | float64 | string](a, b T) int {
	switch {
	case a < b:
		return -1
	case a > b:
		return 1
	}
	return 0
}

func evalLeaf(ty string, v Val, n *Node) bool {
	if v.Null {
		return false
	}
	op := n.Op
	if n.LitLeft { // literal op column  ==  column op' literal
		switch op {
		case "<":
			op = ">"
		case "<=":
			op = ">="
		case ">":
			op = "<"
		case ">=":
			op = "<="
		}
	}
	var c int
	switch ty {
	case tInt:
		if n.Lit.Kind == tFloat {
			c = cmpOrdered(float64(v.I), n.Lit.F)
		} else {
			c = cmpOrdered(v.I, n.Lit.I)
		}
	case tFloat:
		if n.Lit.Kind == tInt {
			c = cmpOrdered(v.F, float64(n.Lit.I))
		} else {
			c = cmpOrdered(v.F, n.Lit.F)
		}
	case tString, tTag:
		c = strings.Compare(v.S, n.Lit.S)
	case tBool:
		if v.B == n.Lit.B {
			c = 0
		} else {
			c = 1
		}
	}
	switch op {
	case "=":
		return c == 0
	case "!=":
		return c != 0
	case "<":
		return c < 0
	case "<=":
		return c <= 0
	case ">":
		return c > 0
	case ">=":
		return c >= 0
	}
	return false
}

// three-valued result: atoms the evaluator does not model (MATCHPHRASE, LIKE, IN) are "maybe"
const (
	vFalse = 0
	vMaybe = 1
	vTrue  = 2
)

func evalNode(t *Table, vals []Val, n *Node) int {
	if !n.leaf() {
		l, r := evalNode(t, vals, n.L), evalNode(t, vals, n.R)
		if n.Op == "AND" {
			return min(l, r)
		}
		return max(l, r)
	}
	switch n.Op {
	case "=", "!=", "<", "<=", ">", ">=":
	default:
		return vMaybe
	}
	i, c := t.col(n.Col)
	if evalLeaf(c.Type, vals[i], n) {
		return vTrue
	}
	return vFalse
}

// evalRow: vFalse means the row certainly does not satisfy condition and time bounds.
func evalRow(t *Table, vals []Val, tm int64, n *Node, tb TimeBounds) int {
	if tb.HasMin && tm < tb.Min {
		return vFalse
	}
	if tb.HasMax && tm > tb.Max {
		return vFalse
	}
	return evalNode(t, vals, n)
}
