package main

import (
	"fmt"
	"math/rand/v2"

	"verifharness/vf"
)

// Directed generator class (added after a seeded regression in checkInAnyRange was missed by
// uniformly random conditions): tables with three key columns, few distinct values of the
// first key and many (k1,k2) combinations below each, and conjunctions over all three (or two)
// key columns BUILT FROM EXISTING ROWS, so that every range of marks the exclusion search
// visits — also the coarse ones that span a change of k0 — is probed with rows from its
// left strip, its middle and its right strip. Every table is laid out with the
// one-fragment-per-key layout (> 8 distinct keys, coarse ranges) and with fixed and variable
// fragment sizes that cycle through 1..17.

func genDirectedTable(r *rand.Rand) Table {
	t := Table{Mode: "directed"}
	types := []string{tInt, tFloat, tString, tBool}
	for i := 0; i < 3; i++ {
		ty := pick(r, types)
		if ty == tBool && (i > 0 || r.IntN(2) == 0) && r.IntN(4) != 0 {
			ty = pick(r, types[:3])
		}
		t.Cols = append(t.Cols, ColSpec{Name: fmt.Sprintf("k%d", i), Type: ty, Key: true})
	}
	t.Cols = append(t.Cols, ColSpec{Name: "v0", Type: tInt}, ColSpec{Name: "v1", Type: tString})
	sub := []int{2 + r.IntN(2), 4 + r.IntN(5), 4 + r.IntN(5), 3, 3}
	off := []int{r.IntN(8), r.IntN(8), r.IntN(8), 0, 0}
	n := 50 + r.IntN(70)
	for i := 0; i < n; i++ {
		row := Row{V: make([]Val, len(t.Cols)), T: int64(r.IntN(10))}
		for j, c := range t.Cols {
			k := off[j] + r.IntN(sub[j])
			switch c.Type {
			case tInt:
				row.V[j].I = intDomain[k%len(intDomain)]
			case tFloat:
				row.V[j].F = floatDomain[k%len(floatDomain)]
			case tString, tTag:
				row.V[j].S = strDomain[k%len(strDomain)]
			case tBool:
				row.V[j].B = k%2 == 1
			}
		}
		t.Rows = append(t.Rows, row)
	}
	return t
}

func litOf(ty string, v Val) *Lit {
	switch ty {
	case tInt:
		return &Lit{Kind: tInt, I: v.I}
	case tFloat:
		return &Lit{Kind: tFloat, F: v.F}
	case tBool:
		return &Lit{Kind: tBool, B: v.B}
	}
	return &Lit{Kind: tString, S: v.S}
}

// directedAtom: an atom on key column j that the target row satisfies. kind 0: equality;
// 1: negation of another row's value; 2: a range that starts or ends at the row's value.
func directedAtom(r *rand.Rand, t *Table, target Row, j int, kind int) *Node {
	c := t.Cols[j]
	v := target.V[j]
	switch kind {
	case 1:
		for try := 0; try < 8; try++ {
			o := t.Rows[r.IntN(len(t.Rows))].V[j]
			if o != v {
				return &Node{Op: "!=", Col: c.Name, Lit: litOf(c.Type, o)}
			}
		}
		if c.Type == tBool {
			return &Node{Op: "!=", Col: c.Name, Lit: &Lit{Kind: tBool, B: !v.B}}
		}
	case 2:
		if c.Type != tBool {
			return &Node{Op: pick(r, []string{"<=", ">="}), Col: c.Name, Lit: litOf(c.Type, v)}
		}
	}
	return &Node{Op: "=", Col: c.Name, Lit: litOf(c.Type, v)}
}

// directedConds: conjunctions built from the target row.
func directedConds(r *rand.Rand, t *Table, target Row) []*Node {
	and := func(a, b *Node) *Node { return &Node{Op: "AND", L: a, R: b} }
	eq := func(j int) *Node { return directedAtom(r, t, target, j, 0) }
	var out []*Node
	// the full-key point query, both nestings
	out = append(out, and(and(eq(0), eq(1)), eq(2)))
	// one atom negated or relaxed
	j := r.IntN(3)
	atoms := []*Node{eq(0), eq(1), eq(2)}
	atoms[j] = directedAtom(r, t, target, j, 1+r.IntN(2))
	n := and(atoms[0], and(atoms[1], atoms[2]))
	n.R.Paren = r.IntN(2) == 0
	out = append(out, n)
	// k0 = a AND (k1 != b' AND k2 = c)
	out = append(out, and(eq(0), and(directedAtom(r, t, target, 1, 1), eq(2))))
	// 2-of-3 (always with the third key column or the second)
	switch r.IntN(3) {
	case 0:
		out = append(out, and(eq(0), eq(2)))
	case 1:
		out = append(out, and(eq(1), eq(2)))
	default:
		out = append(out, and(eq(0), directedAtom(r, t, target, 2, 2)))
	}
	return out
}

func directedPhase(c *vf.Ctx, st *inprocStats, stream uint64) {
	r := c.Rand(3000 + stream)
	nTables := c.Pick(10, 60)
	nTargets := c.Pick(16, 30)
	settings := []Setting{{Coarse: 8}, {Coarse: 2}, {Coarse: 3, MinRowsForSeek: 4}}
	for ti := 0; ti < nTables; ti++ {
		t := genDirectedTable(r)
		fs1 := 1 + (int(stream)*nTables+ti)%17
		fs2 := 1 + (int(stream)*nTables+ti+8)%17
		var sizes []int
		for left := len(t.Rows); left > 0; {
			s := 1 + r.IntN(17)
			if s > left {
				s = left
			}
			sizes = append(sizes, s)
			left -= s
		}
		layouts := []Layout{{Kind: "pkfetch"}, {Kind: "build-fixed", FragSize: fs1}, {Kind: "build-fixed", FragSize: fs2}, {Kind: "build-var", FragSizes: sizes}}
		// the same targets and conditions for every layout
		var conds []*Node
		for k := 0; k < nTargets; k++ {
			conds = append(conds, directedConds(r, &t, t.Rows[r.IntN(len(t.Rows))])...)
		}
		for li, l := range layouts {
			var ix *indexed
			var err error
			c.LogInput(map[string]any{"stage": "build", "table": t, "layout": l})
			if p := vf.Catch(func() { ix, err = buildIndex(&t, l) }); p != nil || err != nil {
				c.Count("index-build-failed", 1)
				continue
			}
			noteTable(c, ix)
			if l.Kind == "pkfetch" && ix.fragCount > 8 {
				note(c, "directed", "one-fragment-per-key-layout-with->8-distinct-keys")
			}
			for ci, cond := range conds {
				c.LogInput(Case{Part: "inproc", Table: t, Layout: l, Cond: cond})
				runCond(c, st, ix, cond, TimeBounds{}, settings, fmt.Sprintf("w%d/d%d/l%d/c%d", stream, ti, li, ci))
			}
			c.Count("directed/conditions-built-from-existing-rows", int64(len(conds)))
		}
	}
}
