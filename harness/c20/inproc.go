package main

import (
	"bytes"
	"fmt"
	"sort"
	"strings"

	"github.com/openGemini/openGemini/engine/immutable"
	"github.com/openGemini/openGemini/engine/immutable/colstore"
	"github.com/openGemini/openGemini/engine/index/sparseindex"
	"github.com/openGemini/openGemini/lib/binaryfilterfunc"
	"github.com/openGemini/openGemini/lib/bitmap"
	"github.com/openGemini/openGemini/lib/fragment"
	"github.com/openGemini/openGemini/lib/record"
	"github.com/openGemini/openGemini/lib/util"
	"github.com/openGemini/openGemini/lib/util/lifted/influx/influxql"
	"github.com/openGemini/openGemini/lib/util/lifted/influx/query"
	"github.com/openGemini/openGemini/lib/util/lifted/vm/protoparser/influx"
)

func influxType(ty string) int {
	switch ty {
	case tInt:
		return influx.Field_Type_Int
	case tFloat:
		return influx.Field_Type_Float
	case tString:
		return influx.Field_Type_String
	case tTag:
		return influx.Field_Type_Tag
	case tBool:
		return influx.Field_Type_Boolean
	}
	panic("type " + ty)
}

func qlType(ty string) influxql.DataType {
	switch ty {
	case tInt:
		return influxql.Integer
	case tFloat:
		return influxql.Float
	case tString:
		return influxql.String
	case tTag:
		return influxql.Tag
	case tBool:
		return influxql.Boolean
	}
	panic("type " + ty)
}

// buildRecord renders the table as the engine's record (columns of the table, then time).
func buildRecord(t *Table) *record.Record {
	var schema record.Schemas
	for _, c := range t.Cols {
		schema = append(schema, record.Field{Name: c.Name, Type: influxType(c.Type)})
	}
	schema = append(schema, record.Field{Name: record.TimeField, Type: influx.Field_Type_Int})
	rec := record.NewRecord(schema, false)
	for _, r := range t.Rows {
		for j, c := range t.Cols {
			cv := rec.Column(j)
			v := r.V[j]
			switch c.Type {
			case tInt:
				if v.Null {
					cv.AppendIntegerNull()
				} else {
					cv.AppendInteger(v.I)
				}
			case tFloat:
				if v.Null {
					cv.AppendFloatNull()
				} else {
					cv.AppendFloat(v.F)
				}
			case tString, tTag:
				if v.Null {
					cv.AppendStringNull()
				} else {
					cv.AppendString(v.S)
				}
			case tBool:
				if v.Null {
					cv.AppendBooleanNull()
				} else {
					cv.AppendBoolean(v.B)
				}
			}
		}
		rec.Column(len(t.Cols)).AppendInteger(r.T)
	}
	return rec
}

func pkSchemaOf(t *Table) record.Schemas {
	var pk record.Schemas
	for _, c := range t.Cols {
		if c.Key {
			pk = append(pk, record.Field{Name: c.Name, Type: influxType(c.Type)})
		}
	}
	if t.TimeInPK {
		pk = append(pk, record.Field{Name: record.TimeField, Type: influx.Field_Type_Int})
	}
	return pk
}

func cloneRecord(src *record.Record) *record.Record {
	dst := &record.Record{}
	dst.Schema = append(record.Schemas{}, src.Schema...)
	dst.ColVals = make([]record.ColVal, len(src.ColVals))
	for i := range src.ColVals {
		s := &src.ColVals[i]
		dst.ColVals[i] = record.ColVal{
			Val: append([]byte(nil), s.Val...), Offset: append([]uint32(nil), s.Offset...),
			Bitmap: append([]byte(nil), s.Bitmap...), BitMapOffset: s.BitMapOffset, Len: s.Len, NilCount: s.NilCount,
		}
	}
	return dst
}

func sameRecordData(a, b *record.Record) bool {
	if len(a.ColVals) != len(b.ColVals) {
		return false
	}
	for i := range a.ColVals {
		x, y := &a.ColVals[i], &b.ColVals[i]
		if x.Len != y.Len || x.NilCount != y.NilCount || !bytes.Equal(x.Val, y.Val) || !bytes.Equal(x.Bitmap, y.Bitmap) {
			return false
		}
	}
	return true
}

// indexed is a table laid out and indexed by the engine's own code.
type indexed struct {
	t         *Table
	layout    Layout
	rec       *record.Record // rows in the order the fragments refer to (sorted for build-*, as given for pkfetch)
	pkRec     *record.Record // pristine primary-index record (cloned before every Scan)
	pkMark    fragment.IndexFragment
	fragOfRow []int // fragment of every row of rec
	fragCount int
	rowsPer   int // rowsNumPerFragment given to the reader
}

// buildIndex sorts with the engine's sorter and builds the sparse index with the engine's writer.
func buildIndex(t *Table, l Layout) (*indexed, error) {
	ix := &indexed{t: t, layout: l}
	rec := buildRecord(t)
	pk := pkSchemaOf(t)
	n := rec.RowNums()
	switch l.Kind {
	case "build-fixed", "build-var":
		orderBy := make([]record.PrimaryKey, 0, len(pk))
		for _, f := range pk {
			orderBy = append(orderBy, record.PrimaryKey{Key: f.Name, Type: int32(f.Type)})
		}
		sh := record.NewSortHelper()
		sorted := sh.SortForColumnStore(rec, orderBy, false, 0)
		sorted = cloneRecord(sorted) // the helper owns its buffers
		sh.Release()
		if sorted.RowNums() != n {
			return nil, fmt.Errorf("engine sorter returned %d rows for %d", sorted.RowNums(), n)
		}
		var rowsIdx []int
		fix := 0
		if l.Kind == "build-fixed" {
			rowsIdx = immutable.GenFixRowsPerSegment(sorted, l.FragSize)
			fix = l.FragSize
			ix.rowsPer = l.FragSize
		} else {
			acc := 0
			for i, s := range l.FragSizes {
				acc += s
				if i == len(l.FragSizes)-1 {
					rowsIdx = append(rowsIdx, n-1)
				} else {
					rowsIdx = append(rowsIdx, acc)
				}
			}
			ix.rowsPer = 8
		}
		w := sparseindex.NewPKIndexWriter()
		pkRec, mark, err := w.Build(sorted, pk, rowsIdx, colstore.DefaultTCLocation, fix)
		if err != nil {
			return nil, fmt.Errorf("PKIndexWriterImpl.Build: %v", err)
		}
		ix.rec, ix.pkRec, ix.pkMark = sorted, pkRec, mark
		ix.fragCount = len(rowsIdx)
		ix.fragOfRow = make([]int, n)
		f := 0
		for r := 0; r < n; r++ {
			for f < len(rowsIdx)-1 && r >= rowsIdx[f] {
				f++
			}
			ix.fragOfRow[r] = f
		}
	case "pkfetch":
		// the attached flush path of the single-node server (ColumnStoreTSSPWriter.sortRecord):
		// one fragment per distinct primary-key tuple, tuples ordered by colstore.KeySorter
		var pkf colstore.PrimaryKeyFetcher
		pkRec, om, keys := pkf.Fetch(rec, pk)
		frags := make([]int64, len(keys))
		ix.fragOfRow = make([]int, n)
		for i := range keys {
			frags[i] = int64(i)<<32 | 1 // segment offset i, one segment
			for _, r := range om.AppendToIfExists(util.Bytes2str(keys[i]), nil) {
				ix.fragOfRow[r] = i
			}
		}
		immutable.AppendFragmentsToPKRecord(pkRec, frags)
		uts := util.Bytes2Uint64Slice(util.Int64Slice2byte(frags))
		ix.rec, ix.pkRec, ix.pkMark = rec, pkRec, fragment.NewIndexFragmentVariable(uts)
		ix.fragCount = len(keys)
		ix.rowsPer = 8
	default:
		return nil, fmt.Errorf("layout %q", l.Kind)
	}
	if int(ix.pkMark.GetFragmentCount()) != ix.fragCount {
		return nil, fmt.Errorf("mark has %d fragments, expected %d", ix.pkMark.GetFragmentCount(), ix.fragCount)
	}
	return ix, nil
}

// toExpr renders the tree as the AST the store receives (typed VarRefs, literals by kind).
func toExpr(t *Table, n *Node) influxql.Expr {
	if n == nil {
		return nil
	}
	var e influxql.Expr
	if !n.leaf() {
		op := influxql.AND
		if n.Op == "OR" {
			op = influxql.OR
		}
		e = &influxql.BinaryExpr{Op: influxql.Token(op), LHS: toExpr(t, n.L), RHS: toExpr(t, n.R)}
	} else {
		_, c := t.col(n.Col)
		ref := &influxql.VarRef{Val: n.Col, Type: qlType(c.Type)}
		var op influxql.Token
		switch n.Op {
		case "=":
			op = influxql.EQ
		case "!=":
			op = influxql.NEQ
		case "<":
			op = influxql.LT
		case "<=":
			op = influxql.LTE
		case ">":
			op = influxql.GT
		case ">=":
			op = influxql.GTE
		case "MATCHPHRASE":
			op = influxql.MATCHPHRASE
		case "LIKE":
			op = influxql.LIKE
		case "IN":
			op = influxql.IN
		}
		lit := litExpr(n.Lit)
		if n.LitLeft {
			e = &influxql.BinaryExpr{Op: op, LHS: lit, RHS: ref}
		} else {
			e = &influxql.BinaryExpr{Op: op, LHS: ref, RHS: lit}
		}
	}
	if n.Paren {
		return &influxql.ParenExpr{Expr: e}
	}
	return e
}

func litExpr(l *Lit) influxql.Expr {
	switch l.Kind {
	case tInt:
		return &influxql.IntegerLiteral{Val: l.I}
	case tFloat:
		return &influxql.NumberLiteral{Val: l.F}
	case tString:
		return &influxql.StringLiteral{Val: l.S}
	case tBool:
		return &influxql.BooleanLiteral{Val: l.B}
	case "set":
		vals := map[interface{}]bool{}
		for _, x := range l.Set {
			switch x.Kind {
			case tInt:
				vals[float64(x.I)] = true // as the parser does
			case tFloat:
				vals[x.F] = true
			case tString:
				vals[x.S] = true
			}
		}
		return &influxql.SetLiteral{Vals: vals}
	}
	panic("literal kind " + l.Kind)
}

func timeRange(tb TimeBounds) util.TimeRange {
	tr := util.TimeRange{Min: influxql.MinTime, Max: influxql.MaxTime}
	if tb.HasMin {
		tr.Min = tb.Min
	}
	if tb.HasMax {
		tr.Max = tb.Max
	}
	return tr
}

// engineAccepted runs the engine's own row-level filter (the one the column-store reader
// applies after pruning) over all rows and returns the accepted row numbers.
func engineAccepted(ix *indexed, cond *Node, tb TimeBounds) (rows []int, err error) {
	rec := cloneRecord(ix.rec)
	tr := timeRange(tb)
	timeCond := binaryfilterfunc.GetTimeCondition(tr, rec.Schema, len(rec.Schema)-1)
	opt := &query.ProcessorOptions{}
	c, err := binaryfilterfunc.NewCondition(timeCond, toExpr(ix.t, cond), rec.Schema, opt)
	if err != nil {
		return nil, err
	}
	if !c.HaveFilter() {
		rows = make([]int, rec.RowNums())
		for i := range rows {
			rows[i] = i
		}
		return rows, nil
	}
	fb := bitmap.NewFilterBitmap(c.NumFilter())
	if err := c.Filter(rec, fb); err != nil {
		return nil, err
	}
	return append([]int(nil), fb.ReserveId...), nil
}

type scanOut struct {
	binary   bool
	usedKeys int
	ranges   [][2]uint32
	covered  []bool // per fragment
	mutated  bool   // Scan changed the index record it was given
	pkAfter  *record.Record
}

func newKeyCondition(ix *indexed, pkSchema record.Schemas, cond *Node, tb TimeBounds) (*sparseindex.KeyConditionImpl, error) {
	tIdx := pkSchema.FieldIndex(record.TimeField)
	timeCond := binaryfilterfunc.GetTimeCondition(timeRange(tb), pkSchema, tIdx)
	return sparseindex.NewKeyCondition(timeCond, toExpr(ix.t, cond), pkSchema)
}

// scan runs PKIndexReaderImpl.Scan on pk (a private copy of the index record).
func scan(ix *indexed, pk *record.Record, cond *Node, tb TimeBounds, st Setting) (*scanOut, error) {
	before := cloneRecord(pk)
	kc, err := newKeyCondition(ix, pk.Schema, cond, tb)
	if err != nil {
		return nil, err
	}
	out := &scanOut{binary: kc.CanDoBinarySearch(), usedKeys: kc.GetMaxKeyIndex() + 1}
	rd := sparseindex.NewPKIndexReader(ix.rowsPer, st.Coarse, st.MinRowsForSeek)
	frs, err := rd.Scan("c20.idx", pk, ix.pkMark, kc)
	if err != nil {
		return out, err
	}
	out.covered = make([]bool, ix.fragCount)
	for _, fr := range frs {
		out.ranges = append(out.ranges, [2]uint32{fr.Start, fr.End})
		for f := fr.Start; f < fr.End && int(f) < ix.fragCount; f++ {
			out.covered[f] = true
		}
	}
	out.mutated = !sameRecordData(before, pk)
	out.pkAfter = pk
	return out, nil
}

// rowString renders row r of the laid-out record (for witnesses).
func rowString(ix *indexed, r int) string {
	var p []string
	for j, c := range ix.t.Cols {
		cv := ix.rec.Column(j)
		var s string
		switch c.Type {
		case tInt:
			v, isNil := cv.IntegerValue(r)
			s = fmt.Sprint(v)
			if isNil {
				s = "null"
			}
		case tFloat:
			v, isNil := cv.FloatValue(r)
			s = fmt.Sprint(v)
			if isNil {
				s = "null"
			}
		case tString, tTag:
			v, isNil := cv.StringValueSafe(r)
			s = fmt.Sprintf("%q", v)
			if isNil {
				s = "null"
			}
		case tBool:
			v, isNil := cv.BooleanValue(r)
			s = fmt.Sprint(v)
			if isNil {
				s = "null"
			}
		}
		p = append(p, c.Name+"="+s)
	}
	tv, _ := ix.rec.Column(len(ix.t.Cols)).IntegerValue(r)
	p = append(p, fmt.Sprintf("time=%d", tv))
	return strings.Join(p, " ")
}

func pkString(pk *record.Record, maxRows int) []string {
	var out []string
	n := 0
	if len(pk.ColVals) > 0 {
		n = pk.ColVals[0].Len
	}
	for r := 0; r < n && r < maxRows; r++ {
		var p []string
		for j, f := range pk.Schema {
			cv := pk.Column(j)
			if cv.IsNil(r) {
				p = append(p, "null")
				continue
			}
			switch f.Type {
			case influx.Field_Type_Int:
				v, _ := cv.IntegerValue(r)
				p = append(p, fmt.Sprint(v))
			case influx.Field_Type_Float:
				v, _ := cv.FloatValue(r)
				p = append(p, fmt.Sprint(v))
			case influx.Field_Type_Boolean:
				v, _ := cv.BooleanValue(r)
				p = append(p, fmt.Sprint(v))
			default:
				v, _ := cv.StringValueSafe(r)
				p = append(p, fmt.Sprintf("%q", v))
			}
		}
		out = append(out, strings.Join(p, ","))
	}
	return out
}

func neededFragments(ix *indexed, accepted []int) []int {
	seen := map[int]bool{}
	for _, r := range accepted {
		seen[ix.fragOfRow[r]] = true
	}
	out := make([]int, 0, len(seen))
	for f := range seen {
		out = append(out, f)
	}
	sort.Ints(out)
	return out
}
