package main

import (
	"fmt"
	"math"
	"math/rand/v2"
	"sort"
	"strconv"
	"strings"
)

// A Case is one self-contained in-process input: a small table, the layout of its
// sparse primary index, one condition tree, optional time bounds and one setting of the
// index reader. It is what is logged before the risky call and stored as a witness.

const (
	tInt    = "int"
	tFloat  = "float"
	tString = "string"
	tTag    = "tag" // string-valued, typed influx.Field_Type_Tag
	tBool   = "bool"
)

type ColSpec struct {
	Name string `json:"name"`
	Type string `json:"type"`
	Key  bool   `json:"key"`
}

// Val is one cell. Null cells have Null=true.
type Val struct {
	Null bool    `json:"null,omitempty"`
	I    int64   `json:"i,omitempty"`
	F    float64 `json:"f,omitempty"`
	S    string  `json:"s,omitempty"`
	B    bool    `json:"b,omitempty"`
}

type Row struct {
	V []Val `json:"v"` // one per column of Table.Cols
	T int64 `json:"t"` // time
}

type Table struct {
	Cols     []ColSpec `json:"cols"`       // key columns first, in primary-key order, then non-key columns
	TimeInPK bool      `json:"time_in_pk"` // "time" is appended as the last primary-key column
	Rows     []Row     `json:"rows"`       // unsorted; the engine's own sorter orders them
	Mode     string    `json:"mode"`       // plain | nulls | mixedlit | matchphrase | like | in
}

// Layout of the index over the sorted rows.
type Layout struct {
	Kind      string `json:"kind"`                 // build-fixed | build-var | pkfetch
	FragSize  int    `json:"frag_size,omitempty"`  // build-fixed
	FragSizes []int  `json:"frag_sizes,omitempty"` // build-var: size of each fragment
}

type Setting struct {
	Coarse         int `json:"coarse"`
	MinRowsForSeek int `json:"min_rows_for_seek"`
}

type Lit struct {
	Kind string  `json:"kind"` // int | float | string | bool
	I    int64   `json:"i,omitempty"`
	F    float64 `json:"f,omitempty"`
	S    string  `json:"s,omitempty"`
	B    bool    `json:"b,omitempty"`
	Set  []Lit   `json:"set,omitempty"` // IN
}

// Node is a condition tree: AND/OR inner nodes, comparison leaves.
type Node struct {
	Op      string `json:"op"` // AND OR = != < <= > >= MATCHPHRASE LIKE IN
	L       *Node  `json:"l,omitempty"`
	R       *Node  `json:"r,omitempty"`
	Col     string `json:"col,omitempty"`
	Lit     *Lit   `json:"lit,omitempty"`
	LitLeft bool   `json:"lit_left,omitempty"` // written as  <literal> op <column>
	Paren   bool   `json:"paren,omitempty"`
}

type TimeBounds struct {
	HasMin bool  `json:"has_min,omitempty"`
	Min    int64 `json:"min,omitempty"`
	HasMax bool  `json:"has_max,omitempty"`
	Max    int64 `json:"max,omitempty"`
}

type Case struct {
	Part    string     `json:"part"` // "inproc"
	Table   Table      `json:"table"`
	Layout  Layout     `json:"layout"`
	Cond    *Node      `json:"cond"`
	Time    TimeBounds `json:"time"`
	Setting Setting    `json:"setting"`
}

func (n *Node) leaf() bool { return n.Op != "AND" && n.Op != "OR" }

func (l *Lit) String() string {
	switch l.Kind {
	case tInt:
		return strconv.FormatInt(l.I, 10)
	case tFloat:
		s := strconv.FormatFloat(l.F, 'g', -1, 64)
		if !strings.ContainsAny(s, ".eE") {
			s += ".0"
		}
		return s
	case tString:
		return "'" + strings.ReplaceAll(l.S, "'", "\\'") + "'"
	case tBool:
		return strconv.FormatBool(l.B)
	}
	return "?"
}

func (n *Node) String() string {
	var s string
	switch {
	case n == nil:
		return "<nil>"
	case !n.leaf():
		// children that are themselves AND/OR are always printed in parentheses: the text shows
		// the tree exactly (Paren only says whether the AST carries an explicit ParenExpr node)
		l, r := n.L.String(), n.R.String()
		if !n.L.leaf() && !n.L.Paren {
			l = "(" + l + ")"
		}
		if !n.R.leaf() && !n.R.Paren {
			r = "(" + r + ")"
		}
		s = l + " " + n.Op + " " + r
	case n.Op == "MATCHPHRASE":
		s = "MATCHPHRASE(" + n.Col + ", " + n.Lit.String() + ")"
	case n.Op == "IN":
		parts := make([]string, len(n.Lit.Set))
		for i := range n.Lit.Set {
			parts[i] = n.Lit.Set[i].String()
		}
		s = n.Col + " IN (" + strings.Join(parts, ",") + ")"
	case n.LitLeft:
		s = n.Lit.String() + " " + n.Op + " " + n.Col
	default:
		s = n.Col + " " + n.Op + " " + n.Lit.String()
	}
	if n.Paren {
		return "(" + s + ")"
	}
	return s
}

func (tb TimeBounds) String() string {
	var p []string
	if tb.HasMin {
		p = append(p, fmt.Sprintf("time >= %d", tb.Min))
	}
	if tb.HasMax {
		p = append(p, fmt.Sprintf("time <= %d", tb.Max))
	}
	return strings.Join(p, " AND ")
}

// walk visits every leaf.
func (n *Node) walk(f func(*Node)) {
	if n == nil {
		return
	}
	if n.leaf() {
		f(n)
		return
	}
	n.L.walk(f)
	n.R.walk(f)
}

func (t *Table) col(name string) (int, *ColSpec) {
	for i := range t.Cols {
		if t.Cols[i].Name == name {
			return i, &t.Cols[i]
		}
	}
	return -1, nil
}

func (t *Table) keyCols() []ColSpec {
	var k []ColSpec
	for _, c := range t.Cols {
		if c.Key {
			k = append(k, c)
		}
	}
	return k
}

func (t *Table) hasNullKey() bool {
	for _, r := range t.Rows {
		for i, c := range t.Cols {
			if c.Key && r.V[i].Null {
				return true
			}
		}
	}
	return false
}

func (t *Table) hasNull() bool {
	for _, r := range t.Rows {
		for i := range t.Cols {
			if r.V[i].Null {
				return true
			}
		}
	}
	return false
}

// ---------------------------------------------------------------------------------
// generation

var (
	intDomain    = []int64{-3, -1, 0, 1, 2, 3, 5, 8}
	intLitExtra  = []int64{-4, -2, 4, 6, 7, 9}
	intRare      = []int64{math.MinInt64, math.MaxInt64, math.MinInt64 + 1, math.MaxInt64 - 1}
	floatDomain  = []float64{-2.5, -1, 0, 0.5, 1, 1.5, 3, 7.25}
	floatLitXtra = []float64{-3, -0.25, 0.75, 2, 5, 8}
	floatRare    = []float64{-1e300, 1e300, -math.MaxFloat64, math.MaxFloat64, math.SmallestNonzeroFloat64}
	strDomain    = []string{"", "a", "aa", "ab", "b", "ba", "c", "ca"}
	strLitExtra  = []string{"a0", "abc", "bb", "d", "A", "~"}
	phraseDomain = []string{"a", "a b", "b", "b c", "c a b", "ab", "a ab", "c"}
	phraseLits   = []string{"a", "b", "c", "ab", "a b", "b c", "d"}
	likeLits     = []string{"a%", "%b", "a", "%", "b%"}
)

func pick[T any](r *rand.Rand, xs []T) T { return xs[r.IntN(len(xs))] }

func genTable(r *rand.Rand, mode string) Table {
	t := Table{Mode: mode}
	nKeys := 1 + r.IntN(3)
	if nKeys <= 2 && r.IntN(4) == 0 {
		t.TimeInPK = true
	}
	types := []string{tInt, tFloat, tString, tBool}
	for i := 0; i < nKeys; i++ {
		ty := pick(r, types)
		if ty == tBool && r.IntN(2) == 0 { // bool keys have two values only; keep them less frequent
			ty = pick(r, types[:3])
		}
		if (mode == "matchphrase" || mode == "like") && i == 0 {
			ty = tString
		}
		t.Cols = append(t.Cols, ColSpec{Name: fmt.Sprintf("k%d", i), Type: ty, Key: true})
	}
	t.Cols = append(t.Cols, ColSpec{Name: "v0", Type: tInt}, ColSpec{Name: "v1", Type: tString})

	n := 1 + r.IntN(110)
	if r.IntN(8) == 0 {
		n = 1 + r.IntN(6)
	}
	// per-column sub-domain size: small sub-domains give long runs of duplicates
	sub := make([]int, len(t.Cols))
	for i := range sub {
		sub[i] = 1 + r.IntN(8)
	}
	nullP := 0
	if mode == "nulls" {
		nullP = 5 + r.IntN(30)
	}
	useRare := mode == "plain" && r.IntN(10) == 0
	tdom := 1 + r.IntN(20)
	for i := 0; i < n; i++ {
		row := Row{V: make([]Val, len(t.Cols)), T: int64(r.IntN(tdom))}
		for j, c := range t.Cols {
			if nullP > 0 && r.IntN(100) < nullP {
				row.V[j] = Val{Null: true}
				continue
			}
			k := r.IntN(sub[j])
			switch c.Type {
			case tInt:
				row.V[j].I = intDomain[k%len(intDomain)]
				if useRare && r.IntN(12) == 0 {
					row.V[j].I = pick(r, intRare)
				}
			case tFloat:
				row.V[j].F = floatDomain[k%len(floatDomain)]
				if useRare && r.IntN(12) == 0 {
					row.V[j].F = pick(r, floatRare)
				}
			case tString, tTag:
				if mode == "matchphrase" {
					row.V[j].S = phraseDomain[k%len(phraseDomain)]
				} else {
					row.V[j].S = strDomain[k%len(strDomain)]
				}
			case tBool:
				row.V[j].B = k%2 == 1
			}
		}
		t.Rows = append(t.Rows, row)
	}
	return t
}

func genLayout(r *rand.Rand, t *Table) Layout {
	n := len(t.Rows)
	switch r.IntN(10) {
	case 0, 1, 2:
		return Layout{Kind: "pkfetch"}
	case 3, 4:
		var sizes []int
		for left := n; left > 0; {
			s := 1 + r.IntN(17)
			if s > left {
				s = left
			}
			sizes = append(sizes, s)
			left -= s
		}
		return Layout{Kind: "build-var", FragSizes: sizes}
	default:
		return Layout{Kind: "build-fixed", FragSize: 1 + r.IntN(17)}
	}
}

func genLit(r *rand.Rand, ty string, t *Table, colIdx int, mode string) *Lit {
	// half of the literals are values that occur in the column (boundary hits)
	var fromData *Val
	if len(t.Rows) > 0 && r.IntN(2) == 0 {
		v := t.Rows[r.IntN(len(t.Rows))].V[colIdx]
		if !v.Null {
			fromData = &v
		}
	}
	switch ty {
	case tInt:
		l := &Lit{Kind: tInt}
		switch {
		case fromData != nil:
			l.I = fromData.I
		case r.IntN(3) == 0:
			l.I = pick(r, intLitExtra)
		case r.IntN(25) == 0:
			l.I = pick(r, intRare)
		default:
			l.I = pick(r, intDomain)
		}
		if mode == "mixedlit" && r.IntN(2) == 0 {
			// a float literal against an integer column
			f := float64(l.I)
			if r.IntN(2) == 0 {
				f += 0.5
			}
			if math.Abs(f) < 1e15 {
				return &Lit{Kind: tFloat, F: f}
			}
		}
		return l
	case tFloat:
		l := &Lit{Kind: tFloat}
		switch {
		case fromData != nil:
			l.F = fromData.F
		case r.IntN(3) == 0:
			l.F = pick(r, floatLitXtra)
		case r.IntN(25) == 0:
			l.F = pick(r, floatRare)
		default:
			l.F = pick(r, floatDomain)
		}
		if mode == "mixedlit" && r.IntN(2) == 0 && l.F == math.Trunc(l.F) && math.Abs(l.F) < 1e15 {
			// an integer literal against a float column (what the parser yields for `f > 3`)
			return &Lit{Kind: tInt, I: int64(l.F)}
		}
		return l
	case tString, tTag:
		l := &Lit{Kind: tString}
		switch {
		case fromData != nil:
			l.S = fromData.S
		case r.IntN(3) == 0:
			l.S = pick(r, strLitExtra)
		default:
			l.S = pick(r, strDomain)
		}
		return l
	default:
		return &Lit{Kind: tBool, B: r.IntN(2) == 0}
	}
}

var cmpOps = []string{"=", "!=", "<", "<=", ">", ">="}

func genLeaf(r *rand.Rand, t *Table, mode string) *Node {
	// 75% key columns, 25% non-key columns
	var idx int
	nk := len(t.keyCols())
	if r.IntN(4) == 0 {
		idx = nk + r.IntN(len(t.Cols)-nk)
	} else {
		idx = r.IntN(nk)
	}
	c := t.Cols[idx]
	n := &Node{Col: c.Name}
	switch {
	case c.Type == tBool:
		n.Op = pick(r, cmpOps[:2])
	case (c.Type == tString || c.Type == tTag) && mode == "matchphrase" && r.IntN(2) == 0:
		n.Op = "MATCHPHRASE"
		n.Lit = &Lit{Kind: tString, S: pick(r, phraseLits)}
		if len(t.Rows) > 0 && r.IntN(2) == 0 {
			// a token (or two adjacent tokens) of a value that occurs in the column
			if v := t.Rows[r.IntN(len(t.Rows))].V[idx]; !v.Null && v.S != "" {
				toks := strings.Split(v.S, " ")
				k := r.IntN(len(toks))
				n.Lit.S = toks[k]
				if k+1 < len(toks) && r.IntN(3) == 0 {
					n.Lit.S = toks[k] + " " + toks[k+1]
				}
			}
		}
		return n
	case (c.Type == tString || c.Type == tTag) && mode == "like" && r.IntN(2) == 0:
		n.Op = "LIKE"
		n.Lit = &Lit{Kind: tString, S: pick(r, likeLits)}
		return n
	case mode == "in" && r.IntN(2) == 0:
		n.Op = "IN"
		set := &Lit{Kind: "set"}
		for i, k := 0, 1+r.IntN(3); i < k; i++ {
			set.Set = append(set.Set, *genLit(r, c.Type, t, idx, "plain"))
		}
		n.Lit = set
		return n
	default:
		// != is over-represented: the design names it
		if r.IntN(4) == 0 {
			n.Op = "!="
		} else {
			n.Op = pick(r, cmpOps)
		}
	}
	n.Lit = genLit(r, c.Type, t, idx, mode)
	if r.IntN(10) == 0 {
		n.LitLeft = true
	}
	return n
}

func genCond(r *rand.Rand, t *Table, mode string, depth int) *Node {
	if depth == 0 || r.IntN(3) == 0 {
		return genLeaf(r, t, mode)
	}
	n := &Node{Op: "AND"}
	if r.IntN(2) == 0 {
		n.Op = "OR"
	}
	n.L = genCond(r, t, mode, depth-1)
	n.R = genCond(r, t, mode, depth-1)
	if r.IntN(3) == 0 {
		n.Paren = true
	}
	return n
}

func genTime(r *rand.Rand) TimeBounds {
	var tb TimeBounds
	switch r.IntN(6) {
	case 0, 1, 2:
	case 3:
		tb.HasMin, tb.Min = true, int64(r.IntN(20))
	case 4:
		tb.HasMax, tb.Max = true, int64(r.IntN(20))
	default:
		a, b := int64(r.IntN(20)), int64(r.IntN(20))
		if a > b {
			a, b = b, a
		}
		tb.HasMin, tb.Min, tb.HasMax, tb.Max = true, a, true, b
	}
	return tb
}

func settingsFor(l Layout) []Setting {
	fs := l.FragSize
	if fs == 0 {
		fs = 8
	}
	return []Setting{
		{Coarse: 8, MinRowsForSeek: 0}, // the engine's defaults (colstore.CoarseIndexFragment, MinRowsForSeek)
		{Coarse: 2, MinRowsForSeek: 0},
		{Coarse: 3, MinRowsForSeek: fs},
		{Coarse: 8, MinRowsForSeek: 3 * fs},
		{Coarse: 64, MinRowsForSeek: 0},
		{Coarse: 1, MinRowsForSeek: 0}, // exclusion search refuses this setting with an error
	}
}

// features of a condition, for coverage categories and signatures.
type condFeat struct {
	ops       map[string]bool
	keyCols   map[string]bool
	nonKey    bool
	hasAnd    bool
	hasOr     bool
	mixedLit  bool
	litLeft   bool
	neqMulti  bool // != on a key column while another key column is constrained too
	maxKeyIdx int
}

func features(t *Table, n *Node) condFeat {
	f := condFeat{ops: map[string]bool{}, keyCols: map[string]bool{}, maxKeyIdx: -1}
	var rec func(*Node)
	rec = func(x *Node) {
		if x == nil {
			return
		}
		if !x.leaf() {
			if x.Op == "AND" {
				f.hasAnd = true
			} else {
				f.hasOr = true
			}
			rec(x.L)
			rec(x.R)
			return
		}
		i, c := t.col(x.Col)
		if c == nil {
			return
		}
		if c.Key {
			f.keyCols[x.Col] = true
			f.ops[x.Op] = true
			if i > f.maxKeyIdx {
				f.maxKeyIdx = i
			}
			if x.Lit != nil && ((c.Type == tInt && x.Lit.Kind == tFloat) || (c.Type == tFloat && x.Lit.Kind == tInt)) {
				f.mixedLit = true
			}
		} else {
			f.nonKey = true
		}
		if x.LitLeft {
			f.litLeft = true
		}
	}
	rec(n)
	if f.ops["!="] && len(f.keyCols) >= 2 {
		f.neqMulti = true
	}
	return f
}

func (f condFeat) opList() string {
	var s []string
	for k := range f.ops {
		s = append(s, k)
	}
	sort.Strings(s)
	return strings.Join(s, ",")
}
