package main

import (
	"encoding/json"
	"fmt"
	"math/rand/v2"
	"path/filepath"
	"sort"
	"strings"
	"sync"
	"time"

	"verifharness/proc"
	"verifharness/vf"
)

// Black-box part. One ts-server; the same generated rows are written to several
// column-store measurements that differ only in primary key / skip index, and to a twin
// whose primary key is the constant tag z (never named in a condition), so the twin is read
// completely by the same reader and the same row filter. After flushing (two files per
// measurement) every generated condition is asked of every measurement; the ids a
// measurement returns must contain the ids the twin returns. The harness model (a plain list
// of rows and the independent evaluator) is compared with the twin as a non-gating
// observation. Half of the conditions are asked again after a restart, when the primary
// index and the bloom filters are re-read from the files.

const bbDB = "c20"

type bbVariant struct {
	name string
	pk   []string // primary key columns
	ddl  string   // option clause after the column list
	kind string   // signature part
}

var bbCols = "(ka tag, kb tag, z tag, ki int64, kf float64, kt bool, s string, w string, v int64, id int64)"

func bbVariants() []bbVariant {
	return []bbVariant{
		{name: "t_twin", pk: []string{"z"}, ddl: "WITH ENGINETYPE = columnstore PRIMARYKEY z", kind: "twin"},
		{name: "p_tag_int", pk: []string{"ka", "ki"}, ddl: "WITH ENGINETYPE = columnstore PRIMARYKEY ka,ki", kind: "pk:tag,int"},
		{name: "p_int_float_tag", pk: []string{"ki", "kf", "kb"}, ddl: "WITH ENGINETYPE = columnstore PRIMARYKEY ki,kf,kb", kind: "pk:int,float,tag"},
		{name: "p_float_int_tag", pk: []string{"kf", "ki", "ka"}, ddl: "WITH ENGINETYPE = columnstore PRIMARYKEY kf,ki,ka", kind: "pk:float,int,tag"},
		{name: "p_bool_tag", pk: []string{"kt", "kb"}, ddl: "WITH ENGINETYPE = columnstore PRIMARYKEY kt,kb", kind: "pk:bool,tag"},
		{name: "p_tag_time", pk: []string{"kb", "time"}, ddl: "WITH ENGINETYPE = columnstore PRIMARYKEY kb,time", kind: "pk:tag,time"},
		{name: "b_field", pk: []string{"ka"}, ddl: "WITH ENGINETYPE = columnstore INDEXTYPE bloomfilter INDEXLIST s PRIMARYKEY ka", kind: "bloomfilter:string-field+pk:tag"},
		{name: "b_tag", pk: []string{"ka"}, ddl: "WITH ENGINETYPE = columnstore INDEXTYPE bloomfilter INDEXLIST kb PRIMARYKEY ka", kind: "bloomfilter:tag+pk:tag"},
		{name: "b_phrase", pk: []string{"kt"}, ddl: "WITH ENGINETYPE = columnstore INDEXTYPE bloomfilter INDEXLIST w PRIMARYKEY kt", kind: "bloomfilter:multi-token-string-field+pk:bool"},
	}
}

// the black-box table: columns in the order of bbTable().Cols
func bbTable(r *rand.Rand, n int) Table {
	t := Table{Mode: "plain", Cols: []ColSpec{
		{Name: "ka", Type: tTag, Key: true}, {Name: "kb", Type: tTag, Key: true}, {Name: "ki", Type: tInt, Key: true},
		{Name: "kf", Type: tFloat, Key: true}, {Name: "kt", Type: tBool, Key: true},
		{Name: "s", Type: tString}, {Name: "w", Type: tString}, {Name: "v", Type: tInt},
	}}
	kas := []string{"a", "aa", "ab", "b", "ba", "c"}
	kbs := []string{"a", "a b", "b c", "c"}
	kis := []int64{-3, -1, 0, 1, 2, 5}
	kfs := []float64{-2.5, 0, 0.5, 1, 3}
	for i := 0; i < n; i++ {
		row := Row{V: make([]Val, len(t.Cols)), T: int64(i)}
		ai := r.IntN(len(kas))
		row.V[0].S = kas[ai]
		// kb, s and w are correlated with ka and kt, so that a bloom filter of one primary-key
		// group (one segment) lacks tokens that other groups have
		row.V[1].S = kbs[(ai+r.IntN(2))%len(kbs)]
		row.V[2].I = pick(r, kis)
		row.V[3].F = pick(r, kfs)
		row.V[4].B = r.IntN(2) == 0
		row.V[5].S = fmt.Sprintf("s%d", ai*5+r.IntN(5))
		if row.V[4].B {
			row.V[6].S = pick(r, phraseDomain[:4])
		} else {
			row.V[6].S = pick(r, phraseDomain[4:])
		}
		// rows of the second flush (i >= 3n/5, see bbRun): one in six carries a value / an extra
		// word that no row of the first file has - a reader that judged a block of the second
		// file by a filter of the first would prune it
		if i >= n*3/5 && r.IntN(6) == 0 {
			row.V[5].S = fmt.Sprintf("t%d", r.IntN(4))
			row.V[6].S += fmt.Sprintf(" late%d", r.IntN(3))
		}
		row.V[7].I = int64(r.IntN(10))
		t.Rows = append(t.Rows, row)
	}
	return t
}

const bbTimeBase = int64(1700000000) * 1e9

func lpEscapeTag(s string) string {
	return strings.NewReplacer(" ", "\\ ", ",", "\\,", "=", "\\=").Replace(s)
}

func bbLines(t *Table, mst string, from, to int) string {
	var b strings.Builder
	for i := from; i < to; i++ {
		r := t.Rows[i]
		fmt.Fprintf(&b, "%s,ka=%s,kb=%s,z=k ki=%di,kf=%s,kt=%t,s=%q,w=%q,v=%di,id=%di %d\n", mst,
			lpEscapeTag(r.V[0].S), lpEscapeTag(r.V[1].S), r.V[2].I, (&Lit{Kind: tFloat, F: r.V[3].F}).String(), r.V[4].B,
			r.V[5].S, r.V[6].S, r.V[7].I, i, bbTimeBase+r.T)
	}
	return b.String()
}

func bbWhere(cond *Node, tb TimeBounds) string {
	w := cond.String()
	if tb.HasMin || tb.HasMax {
		w = "(" + w + ")"
		if tb.HasMin {
			w += fmt.Sprintf(" AND time >= %d", bbTimeBase+tb.Min)
		}
		if tb.HasMax {
			w += fmt.Sprintf(" AND time <= %d", bbTimeBase+tb.Max)
		}
	}
	return w
}

// bbIDs runs SELECT id and returns the id set; ok=false with a class when the query failed.
func bbIDs(s *proc.Server, mst, where string) (ids map[int64]int, errClass string) {
	res, err := s.Query(bbDB, "SELECT id FROM "+mst+" WHERE "+where, nil)
	if err != nil {
		e := err.Error()
		if i := strings.Index(e, "%!"); i > 0 {
			e = e[:i]
		}
		if len(e) > 90 {
			e = e[:90]
		}
		return nil, e
	}
	ids = map[int64]int{}
	for _, r := range res.Results {
		for _, se := range r.Series {
			ci := -1
			for i, cn := range se.Columns {
				if cn == "id" {
					ci = i
				}
			}
			if ci < 0 {
				continue
			}
			for _, row := range se.Values {
				if n, ok := row[ci].(json.Number); ok {
					v, _ := n.Int64()
					ids[v]++
				}
			}
		}
	}
	return ids, ""
}

func bbCount(s *proc.Server, mst string) int64 {
	res, err := s.Query(bbDB, "SELECT count(id) FROM "+mst, nil)
	if err != nil || len(res.Results) == 0 || len(res.Results[0].Series) == 0 || len(res.Results[0].Series[0].Values) == 0 {
		return -1
	}
	if n, ok := res.Results[0].Series[0].Values[0][1].(json.Number); ok {
		v, _ := n.Int64()
		return v
	}
	return -1
}

type bbQuery struct {
	cond *Node
	tb   TimeBounds
	mode string
}

func bbGenQueries(r *rand.Rand, t *Table, n int) []bbQuery {
	var qs []bbQuery
	// the shapes the design names, first
	fixed := []string{}
	_ = fixed
	mk := func(col, op string, l Lit) *Node { return &Node{Op: op, Col: col, Lit: &l} }
	qs = append(qs,
		bbQuery{cond: &Node{Op: "OR", L: mk("ka", "!=", Lit{Kind: tString, S: "b"}), R: mk("ki", "=", Lit{Kind: tInt, I: 1})}, mode: "plain"},
		bbQuery{cond: &Node{Op: "AND", L: mk("ka", "=", Lit{Kind: tString, S: "ab"}), R: mk("ki", "!=", Lit{Kind: tInt, I: 1})}, mode: "plain"},
		bbQuery{cond: &Node{Op: "AND", L: mk("ka", "=", Lit{Kind: tString, S: "ab"}), R: mk("ki", ">=", Lit{Kind: tInt, I: 1})}, mode: "plain"},
		bbQuery{cond: mk("ki", "<", Lit{Kind: tFloat, F: -0.5}), mode: "mixedlit"},
		bbQuery{cond: &Node{Op: "AND", L: mk("ki", "=", Lit{Kind: tInt, I: 0}), R: mk("kf", "=", Lit{Kind: tInt, I: 3})}, mode: "mixedlit"},
		bbQuery{cond: mk("kb", "MATCHPHRASE", Lit{Kind: tString, S: "b"}), mode: "matchphrase"},
		bbQuery{cond: mk("kb", "MATCHPHRASE", Lit{Kind: tString, S: "a"}), mode: "matchphrase"},
		bbQuery{cond: mk("w", "MATCHPHRASE", Lit{Kind: tString, S: "a"}), mode: "matchphrase"},
		bbQuery{cond: mk("w", "MATCHPHRASE", Lit{Kind: tString, S: "ab"}), mode: "matchphrase"},
		bbQuery{cond: mk("w", "MATCHPHRASE", Lit{Kind: tString, S: "b c"}), mode: "matchphrase"},
		bbQuery{cond: &Node{Op: "OR", L: mk("w", "MATCHPHRASE", Lit{Kind: tString, S: "c"}), R: mk("v", "=", Lit{Kind: tInt, I: 3})}, mode: "matchphrase"},
		bbQuery{cond: mk("s", "=", Lit{Kind: tString, S: "s7"}), mode: "plain"},
		bbQuery{cond: mk("s", "MATCHPHRASE", Lit{Kind: tString, S: "s7"}), mode: "matchphrase"},
		bbQuery{cond: mk("s", "MATCHPHRASE", Lit{Kind: tString, S: "s21"}), mode: "matchphrase"},
		bbQuery{cond: &Node{Op: "AND", L: mk("s", "MATCHPHRASE", Lit{Kind: tString, S: "s13"}), R: mk("v", ">", Lit{Kind: tInt, I: 2})}, mode: "matchphrase"},
		bbQuery{cond: &Node{Op: "OR", L: mk("s", "MATCHPHRASE", Lit{Kind: tString, S: "s3"}), R: mk("s", "MATCHPHRASE", Lit{Kind: tString, S: "s28"})}, mode: "matchphrase"},
		bbQuery{cond: &Node{Op: "AND", L: mk("ka", "LIKE", Lit{Kind: tString, S: "a%"}), R: mk("ki", "=", Lit{Kind: tInt, I: 1})}, mode: "like"},
		bbQuery{cond: &Node{Op: "AND", L: &Node{Op: "AND", L: mk("kf", ">", Lit{Kind: tFloat, F: 0}), R: mk("ki", ">", Lit{Kind: tInt, I: 0})}, R: mk("ka", ">", Lit{Kind: tString, S: "a"})}, mode: "plain"},
	)
	// full-primary-key point queries (and one-atom-negated variants) built from written rows,
	// for the three-column keys (ki,kf,kb) and (kf,ki,ka)
	for k := 0; k < 12 && len(t.Rows) > 0; k++ {
		row := t.Rows[r.IntN(len(t.Rows))]
		ki := mk("ki", "=", Lit{Kind: tInt, I: row.V[2].I})
		kf := mk("kf", "=", Lit{Kind: tFloat, F: row.V[3].F})
		third, idx := "kb", 1
		if k%2 == 1 {
			third, idx = "ka", 0
		}
		ks := mk(third, "=", Lit{Kind: tString, S: row.V[idx].S})
		if k%3 == 2 {
			o := t.Rows[r.IntN(len(t.Rows))]
			if o.V[3].F != row.V[3].F {
				kf = mk("kf", "!=", Lit{Kind: tFloat, F: o.V[3].F})
			}
		}
		var cond *Node
		if k%2 == 1 {
			cond = &Node{Op: "AND", L: &Node{Op: "AND", L: kf, R: ki}, R: ks}
		} else {
			cond = &Node{Op: "AND", L: ki, R: &Node{Op: "AND", L: kf, R: ks}}
		}
		qs = append(qs, bbQuery{cond: cond, mode: "point"})
	}
	// phrase conjunctions built from written rows: MATCHPHRASE on the column a bloom
	// filter covers AND a MATCHPHRASE (or equality) on a column it does not cover, both
	// satisfied by an existing row, flat and nested with OR
	firstToken := func(v string) string {
		if i := strings.IndexByte(v, ' '); i > 0 {
			return v[:i]
		}
		return v
	}
	for k := 0; k < 16 && len(t.Rows) > 0; k++ {
		row := t.Rows[r.IntN(len(t.Rows))]
		other := t.Rows[r.IntN(len(t.Rows))]
		ps := mk("s", "MATCHPHRASE", Lit{Kind: tString, S: row.V[5].S})
		pw := mk("w", "MATCHPHRASE", Lit{Kind: tString, S: firstToken(row.V[6].S)})
		pkb := mk("kb", "MATCHPHRASE", Lit{Kind: tString, S: firstToken(row.V[1].S)})
		var cond *Node
		switch k % 8 {
		case 0:
			cond = &Node{Op: "AND", L: ps, R: pw}
		case 1:
			cond = &Node{Op: "AND", L: pw, R: ps}
		case 2:
			cond = &Node{Op: "AND", L: pkb, R: pw}
		case 3:
			cond = &Node{Op: "AND", L: ps, R: pkb}
		case 4:
			cond = &Node{Op: "AND", L: pw, R: &Node{Op: "OR", L: ps, R: mk("s", "MATCHPHRASE", Lit{Kind: tString, S: other.V[5].S})}}
		case 5:
			cond = &Node{Op: "AND", L: &Node{Op: "OR", L: pw, R: mk("w", "MATCHPHRASE", Lit{Kind: tString, S: firstToken(other.V[6].S)})}, R: ps}
		case 6:
			cond = &Node{Op: "AND", L: &Node{Op: "AND", L: ps, R: pw}, R: pkb}
		default:
			cond = &Node{Op: "AND", L: pkb, R: &Node{Op: "AND", L: mk("ka", "=", Lit{Kind: tString, S: row.V[0].S}), R: ps}}
		}
		qs = append(qs, bbQuery{cond: cond, mode: "matchphrase"})
	}
	// words and values that only rows of the second file carry, asked for on their own
	for k := 0; k < 4; k++ {
		qs = append(qs, bbQuery{cond: mk("s", "MATCHPHRASE", Lit{Kind: tString, S: fmt.Sprintf("t%d", k)}), mode: "matchphrase"})
		if k < 3 {
			qs = append(qs, bbQuery{cond: mk("w", "MATCHPHRASE", Lit{Kind: tString, S: fmt.Sprintf("late%d", k)}), mode: "matchphrase"})
		}
	}
	for len(qs) < n {
		mode := "plain"
		switch x := r.IntN(20); {
		case x < 3:
			mode = "mixedlit"
		case x < 7:
			mode = "matchphrase"
		case x == 7:
			mode = "like"
		}
		q := bbQuery{cond: genCond(r, t, mode, 1+r.IntN(3)), mode: mode}
		if r.IntN(3) == 0 {
			q.tb = genTime(r)
			// spread the bounds over the row range
			q.tb.Min *= int64(len(t.Rows) / 20)
			q.tb.Max *= int64(len(t.Rows) / 20)
		}
		// bool columns only support = and != ; MATCHPHRASE on tags/strings only (genLeaf ensures both)
		qs = append(qs, q)
	}
	return qs
}

// pkGroups: for a variant, the set of primary-key groups and which hold a model match.
func bbGroupStats(t *Table, v bbVariant, match []bool) (total, withMatch int) {
	groups := map[string]bool{}
	for i, r := range t.Rows {
		var k strings.Builder
		for _, c := range v.pk {
			if c == "time" {
				fmt.Fprintf(&k, "%d|", r.T)
				continue
			}
			if c == "z" {
				continue
			}
			j, _ := t.col(c)
			fmt.Fprintf(&k, "%v|", r.V[j])
		}
		key := k.String()
		if match[i] {
			groups[key] = true
		} else if _, ok := groups[key]; !ok {
			groups[key] = false
		}
	}
	for _, m := range groups {
		total++
		if m {
			withMatch++
		}
	}
	return
}

var bbMu sync.Mutex

func blackBox(c *vf.Ctx) {
	bin, err := proc.Build(c.RepoDir, c.Scratch, "ts-server", false)
	if err != nil {
		c.Broken("black-box: %v", err)
		return
	}
	var wg sync.WaitGroup
	nSrv := c.Pick(1, 3)
	for w := 0; w < nSrv; w++ {
		wg.Add(1)
		go func(w int) {
			defer wg.Done()
			if p := vf.Catch(func() { bbServer(c, bin, w) }); p != nil {
				c.Broken("black-box worker %d panicked: %v", w, p)
			}
		}(w)
	}
	wg.Add(1)
	go func() {
		defer wg.Done()
		if p := vf.Catch(func() { bbMinMax(c, bin) }); p != nil {
			c.Broken("black-box minmax probe panicked: %v", p)
		}
	}()
	wg.Wait()
}

// bbWrite posts one batch. Right after a measurement is created the store may answer
// "shard group not found" (the shard group exists in the catalogue, not yet in the store);
// nothing was written then, so the batch is sent again (bounded). Any other refusal is final:
// column-store rows are append-only and a blind retry could duplicate them (the row count is
// verified before the first query in any case).
func bbWrite(c *vf.Ctx, s *proc.Server, body string) proc.WriteResult {
	var wr proc.WriteResult
	for try := 0; try < 40; try++ {
		wr = s.Write(bbDB, body, nil)
		if wr.Acked() || wr.Err != nil || !strings.Contains(wr.Body, "shard group not found") {
			return wr
		}
		c.Count("black-box/writes-repeated-after-shard-group-not-found", 1)
		time.Sleep(250 * time.Millisecond)
	}
	return wr
}

func bbStart(c *vf.Ctx, bin string, w int, name string) *proc.Server {
	dir := filepath.Join(c.Scratch, name)
	s := proc.New(proc.Config{Bin: bin, Dir: dir, IP: proc.IP(20, w)})
	if err := s.Start(); err != nil {
		c.Broken("black-box: start: %v", err)
		return nil
	}
	if err := s.WaitReady(120 * time.Second); err != nil {
		s.Kill()
		c.Inconclusive("black-box:server-not-ready", 1)
		fmt.Printf("INCONCLUSIVE property=C20 black-box server %s not ready: %v\n", name, err)
		return nil
	}
	return s
}

func bbServer(c *vf.Ctx, bin string, w int) {
	r := c.Rand(5000 + uint64(w))
	s := bbStart(c, bin, w, fmt.Sprintf("bb%d", w))
	if s == nil {
		return
	}
	defer s.Kill()
	if _, err := s.Query("", "CREATE DATABASE "+bbDB, nil); err != nil {
		c.Broken("black-box: create database: %v", err)
		return
	}
	variants := bbVariants()
	for _, v := range variants {
		if _, err := s.Query(bbDB, fmt.Sprintf("CREATE MEASUREMENT %s.autogen.%s %s %s", bbDB, v.name, bbCols, v.ddl), nil); err != nil {
			c.Broken("black-box: create measurement %s: %v", v.name, err)
			return
		}
	}
	n := c.Pick(1200, 4000)
	t := bbTable(r, n)
	// two flushes => two files (two primary indexes, two sets of bloom filters) per measurement
	for part, rg := range [][2]int{{0, n * 3 / 5}, {n * 3 / 5, n}} {
		for _, v := range variants {
			wr := bbWrite(c, s, bbLines(&t, v.name, rg[0], rg[1]))
			if !wr.Acked() {
				c.Broken("black-box: write to %s part %d not acknowledged: %d %s %v", v.name, part, wr.Status, wr.Body, wr.Err)
				return
			}
		}
		if err := s.Flush(); err != nil {
			c.Broken("black-box: flush: %v", err)
			return
		}
	}
	complete := func() bool {
		for try := 0; try < 100; try++ {
			ok := true
			for _, v := range variants {
				if bbCount(s, v.name) != int64(n) {
					ok = false
					break
				}
			}
			if ok {
				return true
			}
			time.Sleep(100 * time.Millisecond)
		}
		return false
	}
	if !complete() {
		c.Inconclusive("black-box:rows-not-all-visible-after-flush", 1)
		return
	}
	files, _ := filepath.Glob(filepath.Join(s.DataDir(), "data", bbDB, "*", "*", "*", "columnstore", "*", "*"))
	nIdx, nBf := 0, 0
	for _, f := range files {
		if strings.HasSuffix(f, ".idx") {
			nIdx++
		}
		if strings.HasSuffix(f, ".bf") {
			nBf++
		}
	}
	c.Count("black-box/primary-index-files", int64(nIdx))
	c.Count("black-box/bloom-filter-files", int64(nBf))
	if nBf == 0 {
		c.Inconclusive("category-not-reached:bloom-filter-index-file-written", 1)
	}

	queries := bbGenQueries(r, &t, c.Pick(70, 260))
	ask := func(phase string, qs []bbQuery) {
		for qi, q := range qs {
			where := bbWhere(q.cond, q.tb)
			// model
			match := make([]bool, n)    // the model says the row matches
			ruledOut := make([]bool, n) // the model says the row certainly does not match
			nMatch, certain := 0, evaluable(q.cond)
			for i, row := range t.Rows {
				switch evalRow(&t, row.V, row.T, q.cond, q.tb) {
				case vTrue:
					match[i] = true
					nMatch++
				case vFalse:
					ruledOut[i] = true
				}
			}
			twin, ec := bbIDs(s, "t_twin", where)
			c.Eval(1)
			if ec != "" {
				c.Count("black-box/queries-refused-by-the-server", 1)
				c.Distinct("black-box/query-refusal", ec)
				// a refusal must be a refusal everywhere: a variant that answers is fine, one that
				// silently returns nothing cannot be told from "no rows", so nothing to judge
				continue
			}
			c.Count("black-box/queries-answered-by-twin", 1)
			c.Distinct("black-box/query-mode", q.mode)
			if certain {
				same := len(twin) == nMatch
				for id := range twin {
					if id < 0 || id >= int64(n) || !match[id] {
						same = false
					}
				}
				c.Count("black-box/twin-answers-cross-checked-with-model", 1)
				if !same {
					c.Count("NON-GATING:black-box/full-scan-twin-disagrees-with-harness-model", 1)
					if c.DistinctCount("black-box/twin-vs-model-sample") < 4 {
						c.Distinct("black-box/twin-vs-model-sample", where)
						twinOnly, modelOnly, exT, exM := 0, 0, "", ""
						for id := range twin {
							if id >= 0 && id < int64(n) && !match[id] {
								twinOnly++
								if exT == "" {
									exT = bbRowString(&t, int(id))
								}
							}
						}
						for i := range match {
							if match[i] && twin[int64(i)] == 0 {
								modelOnly++
								if exM == "" {
									exM = bbRowString(&t, i)
								}
							}
						}
						c.Sample(map[string]any{"non_gating_twin_vs_model": where, "twin_rows": len(twin), "model_rows": nMatch,
							"only_twin": twinOnly, "only_model": modelOnly, "example_only_twin": exT, "example_only_model": exM})
					}
				}
			}
			for _, v := range variants[1:] {
				got, ec := bbIDs(s, v.name, where)
				c.Eval(1)
				sigKind := v.kind + ":" + q.mode
				if ec != "" {
					// the twin answered, this measurement refuses: loud, not a pruning decision
					c.Count("black-box/variant-refuses-what-twin-answers", 1)
					c.Distinct("black-box/variant-refusal", v.kind+": "+ec)
					continue
				}
				// rows the full scan returns and the model does not rule out (a twin that over-returns,
				// e.g. ignores a time bound under OR, puts no obligation on the index)
				missingOf := func(got map[int64]int) (missing []int64, overReturned int) {
					for id := range twin {
						if got[id] != 0 {
							continue
						}
						if id >= 0 && id < int64(n) && ruledOut[id] {
							overReturned++
							continue
						}
						missing = append(missing, id)
					}
					return
				}
				missing, over := missingOf(got)
				if over > 0 {
					c.Count("NON-GATING:black-box/twin-returns-rows-the-model-rules-out-and-the-variant-does-not", 1)
				}
				if len(missing) > 0 {
					// a pruning decision is deterministic: ask again; only rows missing every time count
					persistent := map[int64]bool{}
					for _, id := range missing {
						persistent[id] = true
					}
					for k := 0; k < 4 && len(persistent) > 0; k++ {
						// the rows of a column-store flush are invisible to conditional reads for
						// about 100 ms around its completion (seen: the whole second file missing,
						// then returned): give the layout time to settle between the repetitions
						time.Sleep(time.Duration(100<<uint(2*k)) * time.Millisecond)
						again, ec2 := bbIDs(s, v.name, where)
						c.Eval(1)
						if ec2 != "" {
							continue
						}
						m2, _ := missingOf(again)
						in2 := map[int64]bool{}
						for _, id := range m2 {
							in2[id] = true
						}
						for id := range persistent {
							if !in2[id] {
								delete(persistent, id)
							}
						}
					}
					if len(persistent) < len(missing) {
						c.Count("NON-GATING:black-box/rows-missing-once-but-returned-when-the-same-query-is-repeated", 1)
						note(c, "black-box/unrepeatable-row-loss", v.kind)
						if c.DistinctCount("black-box/unrepeatable-row-loss-sample") < 3 {
							c.Distinct("black-box/unrepeatable-row-loss-sample", where)
							c.Sample(map[string]any{"non_gating_unrepeatable_row_loss": "SELECT id FROM " + v.name + " WHERE " + where,
								"missing_first_time": len(missing), "missing_every_time": len(persistent), "twin_rows": len(twin)})
						}
					}
					missing = missing[:0]
					for id := range persistent {
						missing = append(missing, id)
					}
				}
				extra := 0
				for id := range got {
					if twin[id] == 0 {
						extra++
					}
				}
				if extra > 0 {
					c.Count("NON-GATING:black-box/variant-returns-rows-the-twin-does-not", 1)
				}
				tot, wm := bbGroupStats(&t, v, match)
				if certain && wm > 0 && wm < tot {
					c.Nontrivial(fmt.Sprintf("bb%d/%s/%s/q%d", w, phase, v.name, qi))
					c.Count("black-box/non-trivial-queries/"+v.kind, 1)
				}
				c.Count("black-box/pk-groups-total", int64(tot))
				c.Count("black-box/pk-groups-with-model-match", int64(wm))
				if len(missing) > 0 {
					sort.Slice(missing, func(i, j int) bool { return missing[i] < missing[j] })
					ex := missing[0]
					vals := t.Rows[ex]
					var desc []string
					for j, cs := range t.Cols {
						desc = append(desc, fmt.Sprintf("%s=%v", cs.Name, valString(cs.Type, vals.V[j])))
					}
					sig := fmt.Sprintf("black-box:%s:%s:rows-of-the-full-scan-twin-missing", sigKind, phase)
					bbMu.Lock()
					c.Violation(sig, fmt.Sprintf("SELECT id FROM %s WHERE %s returns %d rows; the twin t_twin (same rows, primary key never constrained) returns %d; %d of the twin's rows are missing, e.g. id=%d (%s)",
						v.name, where, len(got), len(twin), len(missing), ex, strings.Join(desc, " ")),
						map[string]any{"part": "black-box", "phase": phase, "create": fmt.Sprintf("CREATE MEASUREMENT %s.autogen.%s %s %s", bbDB, v.name, bbCols, v.ddl),
							"twin": "same columns, WITH ENGINETYPE = columnstore PRIMARYKEY z", "query": "SELECT id FROM " + v.name + " WHERE " + where,
							"rows_written": n, "flushes": 2, "returned": len(got), "twin_returned": len(twin), "model_matches": nMatch,
							"missing_ids_first_20": missing[:min(20, len(missing))], "example_missing_row": strings.Join(desc, " "),
							"data": fmt.Sprintf("rows are generated by bbTable(c.Rand(%d), %d) at seed %d; re-run the tier with the same seed", 5000+w, n, c.Seed)})
					bbMu.Unlock()
				}
			}
		}
	}
	ask("after-flush", queries)
	// restart: primary index and bloom filters are now read back from the files
	s.Kill()
	if err := s.Start(); err != nil {
		c.Broken("black-box: restart: %v", err)
		return
	}
	if err := s.WaitReady(120 * time.Second); err != nil {
		c.Inconclusive("black-box:server-not-ready-after-restart", 1)
		return
	}
	if !complete() {
		c.Inconclusive("black-box:rows-not-all-visible-after-restart", 1)
		return
	}
	ask("after-restart", queries[:len(queries)/2])
	c.Distinct("black-box/phase", "after-flush")
	c.Distinct("black-box/phase", "after-restart")
}

func bbRowString(t *Table, i int) string {
	var desc []string
	for j, cs := range t.Cols {
		desc = append(desc, fmt.Sprintf("%s=%v", cs.Name, valString(cs.Type, t.Rows[i].V[j])))
	}
	return fmt.Sprintf("id=%d time=%d %s", i, bbTimeBase+t.Rows[i].T, strings.Join(desc, " "))
}

func valString(ty string, v Val) string {
	switch ty {
	case tInt:
		return fmt.Sprint(v.I)
	case tFloat:
		return fmt.Sprint(v.F)
	case tBool:
		return fmt.Sprint(v.B)
	}
	return fmt.Sprintf("%q", v.S)
}

// bbMinMax: a measurement declared with a min-max skip index. The min-max writer of this
// tree writes no file, and the flush then fails renaming it; whether the server survives
// the flush is observed, and if it does the measurement is queried like the others.
func bbMinMax(c *vf.Ctx, bin string) {
	s := bbStart(c, bin, 100, "bbmm")
	if s == nil {
		return
	}
	defer s.Kill()
	if _, err := s.Query("", "CREATE DATABASE "+bbDB, nil); err != nil {
		c.Broken("black-box/minmax: create database: %v", err)
		return
	}
	ddl := "WITH ENGINETYPE = columnstore INDEXTYPE minmax INDEXLIST ki PRIMARYKEY ka"
	if _, err := s.Query(bbDB, fmt.Sprintf("CREATE MEASUREMENT %s.autogen.mm %s %s", bbDB, bbCols, ddl), nil); err != nil {
		c.Inconclusive("category-not-reached:minmax-index(create-refused)", 1)
		return
	}
	r := c.Rand(5999)
	t := bbTable(r, 200)
	if wr := bbWrite(c, s, bbLines(&t, "mm", 0, 200)); !wr.Acked() {
		c.Inconclusive("category-not-reached:minmax-index(write-refused)", 1)
		return
	}
	c.Eval(1)
	ferr := s.Flush()
	time.Sleep(300 * time.Millisecond)
	if !s.Alive() || s.WaitExit(2*time.Second) {
		tail := s.StdoutTail(1500)
		first := ""
		for _, ln := range strings.Split(tail, "\n") {
			if strings.HasPrefix(ln, "panic:") {
				first = ln
				if len(first) > 160 {
					first = first[:160]
				}
			}
		}
		c.Inconclusive("category-not-reached:minmax-skip-index-reader(flush-kills-the-server)", 1)
		c.Violation("black-box:minmax:flush-of-a-measurement-with-minmax-index-kills-the-server",
			"CREATE MEASUREMENT … INDEXTYPE minmax INDEXLIST ki, 200 rows, flush: the ts-server process dies ("+first+")",
			map[string]any{"part": "black-box", "create": "CREATE MEASUREMENT c20.autogen.mm " + bbCols + " " + ddl, "rows": 200, "flush_error": fmt.Sprint(ferr), "server_output_tail": tail})
		return
	}
	// survived: judge a few conditions against the model
	for _, q := range bbGenQueries(r, &t, 30) {
		if !evaluable(q.cond) {
			continue
		}
		where := bbWhere(q.cond, q.tb)
		got, ec := bbIDs(s, "mm", where)
		c.Eval(1)
		if ec != "" {
			continue
		}
		for i, row := range t.Rows {
			if evalRow(&t, row.V, row.T, q.cond, q.tb) == vTrue && got[int64(i)] == 0 {
				c.Violation("black-box:minmax:rows-of-the-model-missing", fmt.Sprintf("SELECT id FROM mm WHERE %s misses id=%d", where, i),
					map[string]any{"part": "black-box", "query": where})
				break
			}
		}
	}
}
