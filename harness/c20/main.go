// C20 — column-store sparse and skip indexes never prune a block with a match.
//
// Part 1 (in-process, child workers, built with -race => checkptr): tables sorted by the
// engine's sorter, indexed by the real PKIndexWriterImpl.Build (and by the real
// colstore.PrimaryKeyFetcher, the layout the single-node flush writes), scanned by the real
// PKIndexReaderImpl.Scan; the rows that match are the rows the engine's own row filter
// (lib/binaryfilterfunc) accepts; every fragment holding an accepted row must be inside the
// returned ranges.
//
// Part 2 (black-box): the real ts-server, column-store measurements with primary keys and
// a bloom-filter skip index, flushed files, generated conditions; the answer must contain
// every row that the same query returns from a twin measurement whose primary key is never
// constrained (a full scan by the same reader and row filter).
package main

import (
	"encoding/json"
	"fmt"
	"os"
	"path/filepath"
	"strconv"
	"strings"
	"sync"
	"time"

	"verifharness/vf"
)

func main() {
	c := vf.New("C20", "exploration")
	if vf.IsWorker() {
		arg := vf.WorkerArg()
		switch {
		case strings.HasPrefix(arg, "inproc-"):
			k, _ := strconv.Atoi(strings.TrimPrefix(arg, "inproc-"))
			inprocWorker(c, uint64(k))
		default:
			c.Broken("unknown worker %q", arg)
		}
		c.Finish()
	}
	if c.ReplayIn != "" {
		replay(c)
		c.Finish()
	}

	c.SetRule("in-process: one (table, condition, time bounds) is a case; it is non-trivial and distinct when, under at least one reader setting, " +
		"PKIndexReaderImpl.Scan returned a strict subset of the fragments while at least one fragment held a row accepted by the engine's row filter " +
		"(key = worker/table/condition ordinal). black-box: one (measurement, query) is non-trivial when the model says some but not all " +
		"primary-key groups (or bloom-filter segments) hold a matching row")
	c.Assume("the engine's own row-level filter (binaryfilterfunc.ConditionImpl.Filter) defines which rows match; its disagreements with the independent evaluator are counted, not gated")
	c.Assume("tables are ordered by the engine's own sorters (record.SortHelper.SortForColumnStore for Build layouts, colstore.KeySorter for the flush layout)")
	c.Assume("black-box: a twin measurement whose primary key is a constant column never named in a condition is read completely (no pruning possible) by the same reader and row filter")
	c.Assume("a query that the engine refuses with an explicit error is not a pruning decision")

	var wg sync.WaitGroup
	nIn := 12
	wd := time.Duration(c.Pick(8, 38)) * time.Minute // a quick worker needs ~15 s on an idle machine
	sideDir := filepath.Join(c.Scratch, "side")
	for k := 0; k < nIn; k++ {
		wg.Add(1)
		go func(k int) {
			defer wg.Done()
			c.RunWorker(fmt.Sprintf("inproc-%d", k), wd, "C20_SIDE="+sideDir)
		}(k)
	}
	wg.Add(1)
	go func() {
		defer wg.Done()
		blackBox(c)
	}()
	wg.Wait()
	sideMerge(sideDir)
	if side.FragsTotal > 0 {
		ratio := float64(side.FragsReturned) / float64(side.FragsTotal)
		c.Extra("pruning_in_process", map[string]any{"fragments_total": side.FragsTotal, "fragments_returned": side.FragsReturned,
			"fragments_with_accepted_rows": side.FragsNeeded, "returned_over_total": ratio, "needed_over_total": float64(side.FragsNeeded) / float64(side.FragsTotal),
			"scans": side.Scans, "scans_that_pruned": side.PruningScans})
		if ratio > 0.97 || side.PruningScans*20 < side.Scans {
			// the inclusion "needed fragments are inside the returned ranges" is vacuous when the
			// index returns (almost) everything: that is a collapse of what was observed, not a pass
			c.Inconclusive("pruning-collapsed:index-returns-(almost)-everything", 1)
			c.Broken("in-process part: Scan returned %.1f%% of all fragments and pruned in %d of %d scans; the check observed (almost) no pruning decision",
				100*ratio, side.PruningScans, side.Scans)
		}
	} else {
		c.Broken("in-process part: no scan was judged")
	}

	// categories the design requires; a category never produced is reported, not hidden
	req := map[string][]string{
		"strategy":        {"binary", "exclusion"},
		"layout":          {"build-fixed", "build-var", "pkfetch"},
		"first-key-type":  {tInt, tFloat, tString, tBool},
		"key-columns":     {"1", "2", "3"},
		"operator-on-key": {"=", "!=", "<", "<=", ">", ">=", "MATCHPHRASE"},
		"condition-shape": {"AND", "OR", "has-non-key-atom", "!=-with-second-key-column"},
		"time-bounds":     {"none", "lower", "upper", "both", "on-primary-key-time-column"},
		"null-keys":       {"present"},
		"directed":        {"one-fragment-per-key-layout-with->8-distinct-keys"},
		"mode":            {"directed"},
		"last-fragment":   {"short", "full"},
		"boundary":        {"literal-equals-a-key-stored-in-the-index", "same-key-tuple-on-both-sides-of-a-fragment-boundary"},
	}
	for cat, members := range req {
		for _, m := range members {
			if !side.Seen[cat+"="+m] {
				c.Inconclusive("category-not-reached:"+cat+"="+m, 1)
			}
		}
	}
	for s := 1; s <= 17; s++ {
		if !side.Seen["fragment-size="+fmt.Sprint(s)] {
			c.Inconclusive(fmt.Sprintf("category-not-reached:fragment-size=%d", s), 1)
		}
	}
	c.Finish()
}

func replay(c *vf.Ctx) {
	b, err := os.ReadFile(c.ReplayIn)
	if err != nil {
		c.Broken("replay: %v", err)
		return
	}
	var w struct {
		Signature string          `json:"finding_signature"`
		Witness   json.RawMessage `json:"witness"`
	}
	if err := json.Unmarshal(b, &w); err != nil {
		c.Broken("replay: %v", err)
		return
	}
	var wrap struct {
		Case *Case `json:"case"`
	}
	_ = json.Unmarshal(w.Witness, &wrap)
	cs := wrap.Case
	if cs == nil {
		cs = &Case{}
		if err := json.Unmarshal(w.Witness, cs); err != nil || cs.Cond == nil {
			fmt.Printf("REPLAY property=C20 the witness is not an in-process case (black-box witnesses carry the statements to re-issue by hand): %s\n", w.Signature)
			return
		}
	}
	if cs.Part != "inproc" {
		fmt.Printf("REPLAY property=C20 witness part %q is replayed by re-running the tier with the same seed\n", cs.Part)
		return
	}
	var ix *indexed
	if p := vf.Catch(func() { ix, err = buildIndex(&cs.Table, cs.Layout) }); p != nil || err != nil {
		c.Broken("replay: index build failed: %v %v", p, err)
		return
	}
	st := &inprocStats{}
	before := c.Violations()
	var accepted []int
	if p := vf.Catch(func() { accepted, err = engineAccepted(ix, cs.Cond, cs.Time) }); p != nil || err != nil {
		fmt.Printf("REPLAY property=C20 engine row filter refuses the condition now: %v %v\n", p, err)
		judge(c, st, ix, cs.Cond, cs.Time, []Setting{cs.Setting}, nil, nil)
	} else {
		judge(c, st, ix, cs.Cond, cs.Time, []Setting{cs.Setting}, accepted, neededFragments(ix, accepted))
	}
	if c.Violations() == before {
		fmt.Printf("REPLAY property=C20 no violation reproduced for `%s` (recorded signature %s)\n", cs.Cond, w.Signature)
	}
}
