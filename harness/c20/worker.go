package main

import (
	"fmt"
	"math/rand/v2"
	"strings"

	"verifharness/vf"
)

// inprocStats are per-process totals used for the pruning ratio.
type inprocStats struct {
	fragsTotal, fragsReturned, fragsNeeded int64
	scans, pruningScans                    int64
	sigSeen                                map[string]int
}

var sampledOnce, disagreeSampled bool

var modes = []struct {
	name   string
	weight int
}{{"plain", 58}, {"nulls", 15}, {"mixedlit", 10}, {"matchphrase", 8}, {"like", 5}, {"in", 4}}

func pickMode(r *rand.Rand) string {
	x := r.IntN(100)
	for _, m := range modes {
		if x < m.weight {
			return m.name
		}
		x -= m.weight
	}
	return "plain"
}

func rowVals(ix *indexed, r int) ([]Val, int64) {
	vals := make([]Val, len(ix.t.Cols))
	for j, c := range ix.t.Cols {
		cv := ix.rec.Column(j)
		switch c.Type {
		case tInt:
			v, isNil := cv.IntegerValue(r)
			vals[j] = Val{Null: isNil, I: v}
		case tFloat:
			v, isNil := cv.FloatValue(r)
			vals[j] = Val{Null: isNil, F: v}
		case tString, tTag:
			v, isNil := cv.StringValueSafe(r)
			vals[j] = Val{Null: isNil, S: v}
		case tBool:
			v, isNil := cv.BooleanValue(r)
			vals[j] = Val{Null: isNil, B: v}
		}
	}
	tv, _ := ix.rec.Column(len(ix.t.Cols)).IntegerValue(r)
	return vals, tv
}

func errClass(err error) string {
	s := err.Error()
	if i := strings.Index(s, "%!"); i > 0 {
		s = s[:i]
	}
	if len(s) > 70 {
		s = s[:70]
	}
	return s
}

func panicClass(p any) string {
	s := fmt.Sprint(p)
	// drop the volatile numbers of "index out of range [5] with length 3"
	var b strings.Builder
	for _, ch := range s {
		if ch >= '0' && ch <= '9' {
			b.WriteByte('N')
		} else {
			b.WriteRune(ch)
		}
	}
	s = b.String()
	if len(s) > 90 {
		s = s[:90]
	}
	return s
}

// violate reports at most 3 violations per signature per process (the rest are counted).
func (st *inprocStats) violate(c *vf.Ctx, sig, what string, witness any) {
	if st.sigSeen == nil {
		st.sigSeen = map[string]int{}
	}
	st.sigSeen[sig]++
	c.Count("violating-scans/"+sig, 1)
	if st.sigSeen[sig] <= 3 {
		c.Violation(sig, what, witness)
	}
}

type observed struct {
	Strategy      string      `json:"strategy"`
	UsedKeyCols   int         `json:"used_key_columns"`
	FragCount     int         `json:"fragment_count"`
	Ranges        [][2]uint32 `json:"ranges_returned"`
	Needed        []int       `json:"fragments_with_accepted_rows"`
	Missing       []int       `json:"needed_fragments_not_returned"`
	ExampleRow    string      `json:"example_accepted_row_in_pruned_fragment"`
	ExampleRowNum int         `json:"example_row_number"`
	IndexRows     []string    `json:"primary_index_rows"`
	PKSchema      string      `json:"pk_schema"`
	Cond          string      `json:"condition"`
	TimeBounds    string      `json:"time_bounds"`
}

// judge runs one (table, condition) under every reader setting. accepted are the rows the
// engine's row filter keeps. Returns whether some scan pruned (for the non-trivial rule).
func judge(c *vf.Ctx, st *inprocStats, ix *indexed, cond *Node, tb TimeBounds, settings []Setting, accepted []int, needed []int) (pruned bool) {
	t := ix.t
	feat := features(t, cond)
	for _, set := range settings {
		cs := Case{Part: "inproc", Table: *t, Layout: ix.layout, Cond: cond, Time: tb, Setting: set}
		var out *scanOut
		var err error
		pk := cloneRecord(ix.pkRec)
		p := vf.Catch(func() { out, err = scan(ix, pk, cond, tb, set) })
		c.Eval(1)
		st.scans++
		if p != nil {
			st.violate(c, fmt.Sprintf("inproc:%s:scan-panic:%s", t.Mode, panicClass(p)),
				fmt.Sprintf("PKIndexReaderImpl.Scan / NewKeyCondition panicked (%v) for condition %s", p, cond), cs)
			continue
		}
		if err != nil {
			note(c, "scan-refused-with-error", errClass(err))
			c.Count("scans-refused-with-error", 1)
			continue
		}
		strategy := "exclusion"
		if out.binary {
			strategy = "binary"
		}
		if out.usedKeys == 0 {
			strategy = "exclusion/no-key-atom"
		}
		note(c, "strategy", strategy)
		note(c, "used-key-columns", fmt.Sprint(out.usedKeys))
		note(c, "reader-setting", fmt.Sprintf("coarse=%d,minRowsForSeek=%s", set.Coarse, map[bool]string{true: "0", false: ">0"}[set.MinRowsForSeek == 0]))
		ret := 0
		for _, b := range out.covered {
			if b {
				ret++
			}
		}
		st.fragsTotal += int64(ix.fragCount)
		st.fragsReturned += int64(ret)
		st.fragsNeeded += int64(len(needed))
		c.Count("fragments-total/"+strategy, int64(ix.fragCount))
		c.Count("fragments-returned/"+strategy, int64(ret))
		c.Count("fragments-needed/"+strategy, int64(len(needed)))
		if ret < ix.fragCount {
			pruned = true
			st.pruningScans++
			c.Count("scans-that-pruned/"+strategy, 1)
		}
		var missing []int
		for _, f := range needed {
			if !out.covered[f] {
				missing = append(missing, f)
			}
		}
		mkObs := func(o *scanOut, miss []int) observed {
			ob := observed{Strategy: strategy, UsedKeyCols: o.usedKeys, FragCount: ix.fragCount, Ranges: o.ranges,
				Needed: needed, Missing: miss, IndexRows: pkString(ix.pkRec, 60), Cond: cond.String(), TimeBounds: tb.String()}
			for _, f := range ix.pkRec.Schema {
				ob.PKSchema += fmt.Sprintf("%s:%d ", f.Name, f.Type)
			}
			if len(miss) > 0 {
				for _, r := range accepted {
					if ix.fragOfRow[r] == miss[0] {
						ob.ExampleRow, ob.ExampleRowNum = rowString(ix, r), r
						break
					}
				}
			}
			return ob
		}
		if len(missing) > 0 {
			cls := violationClass(t, feat, out)
			sig := fmt.Sprintf("inproc:%s:%s:%s:needed-fragment-pruned", t.Mode, cls, strategy)
			ob := mkObs(out, missing)
			st.violate(c, sig, fmt.Sprintf("Scan pruned fragment %d of %d although the engine's row filter accepts row %d (%s) for `%s`%s; layout %s, keys %s",
				missing[0], ix.fragCount, ob.ExampleRowNum, ob.ExampleRow, cond, map[bool]string{true: " AND " + tb.String(), false: ""}[tb.String() != ""], ix.layout.Kind, ob.PKSchema),
				map[string]any{"case": cs, "observed": ob})
		}
		if out.mutated {
			// the reader changed the in-memory index record it was given; the engine keeps that
			// record per file, so the next query sees shifted keys: judge the same scan again on it
			c.Count("scans-that-modified-the-index-record", 1)
			st.violate(c, fmt.Sprintf("inproc:%s:index-record-modified-by-scan", t.Mode),
				fmt.Sprintf("Scan modified the primary-index record in place for `%s` (keys used %d)", cond, out.usedKeys),
				map[string]any{"case": cs, "index_before": pkString(ix.pkRec, 60), "index_after": pkString(out.pkAfter, 60)})
			if len(missing) == 0 {
				var out2 *scanOut
				p := vf.Catch(func() { out2, err = scan(ix, out.pkAfter, cond, tb, set) })
				if p == nil && err == nil {
					var miss2 []int
					for _, f := range needed {
						if !out2.covered[f] {
							miss2 = append(miss2, f)
						}
					}
					if len(miss2) > 0 {
						st.violate(c, fmt.Sprintf("inproc:%s:needed-fragment-pruned-on-second-scan-after-index-modification", t.Mode),
							fmt.Sprintf("the second identical Scan (on the index record the first one modified) pruned fragment %d for `%s`", miss2[0], cond),
							map[string]any{"case": cs, "observed": mkObs(out2, miss2), "index_after_first_scan": pkString(out.pkAfter, 60)})
					}
				}
			}
		}
	}
	return pruned
}

// violationClass names the input class of a pruning violation inside a generation mode.
func violationClass(t *Table, f condFeat, o *scanOut) string {
	switch t.Mode {
	case "nulls":
		if t.hasNullKey() {
			return "null-key-present"
		}
		return "no-null-key"
	case "mixedlit":
		if f.mixedLit {
			return "numeric-literal-of-other-type-on-key"
		}
	case "matchphrase":
		if f.ops["MATCHPHRASE"] {
			return "matchphrase-on-key"
		}
	case "like":
		if f.ops["LIKE"] {
			return "like-on-key"
		}
	}
	if o.usedKeys >= 2 {
		return "multi-key"
	}
	return "single-key"
}

func inprocWorker(c *vf.Ctx, stream uint64) {
	r := c.Rand(1000 + stream)
	nTables := c.Pick(70, 600)
	nConds := c.Pick(24, 40)
	st := &inprocStats{}
	if stream == 0 {
		designCases(c, st)
	}
	for ti := 0; ti < nTables; ti++ {
		mode := pickMode(r)
		t := genTable(r, mode)
		l := genLayout(r, &t)
		var ix *indexed
		var err error
		c.LogInput(map[string]any{"stage": "build", "table": t, "layout": l})
		if p := vf.Catch(func() { ix, err = buildIndex(&t, l) }); p != nil || err != nil {
			c.Count("index-build-failed", 1)
			note(c, "index-build-failure", fmt.Sprint(p, err))
			if c.DistinctCount("index-build-failure") <= 3 {
				c.Sample(map[string]any{"index_build_failure": fmt.Sprint(p, err), "table": t, "layout": l})
			}
			continue
		}
		noteTable(c, ix)
		settings := settingsFor(l)
		for ci := 0; ci < nConds; ci++ {
			cond := genCond(r, &t, mode, 1+r.IntN(3))
			tb := genTime(r)
			c.LogInput(Case{Part: "inproc", Table: t, Layout: l, Cond: cond, Time: tb})
			runCond(c, st, ix, cond, tb, settings, fmt.Sprintf("w%d/t%d/c%d", stream, ti, ci))
		}
	}
	directedPhase(c, st, stream)
	finishStats(c, st, fmt.Sprintf("inproc-%d", stream))
}

func finishStats(c *vf.Ctx, st *inprocStats, name string) {
	sideAddStats(st)
	sideWrite(name)
}

func noteTable(c *vf.Ctx, ix *indexed) {
	t := ix.t
	keys := t.keyCols()
	note(c, "mode", t.Mode)
	note(c, "layout", ix.layout.Kind)
	note(c, "key-columns", fmt.Sprint(len(keys)))
	note(c, "first-key-type", keys[0].Type)
	for _, k := range keys {
		note(c, "key-type", k.Type)
	}
	if t.TimeInPK {
		note(c, "time-in-primary-key", "yes")
	}
	if t.hasNullKey() {
		note(c, "null-keys", "present")
	}
	switch ix.layout.Kind {
	case "build-fixed":
		note(c, "fragment-size", fmt.Sprint(ix.layout.FragSize))
		if n := len(t.Rows); n%ix.layout.FragSize != 0 {
			note(c, "last-fragment", "short")
		} else {
			note(c, "last-fragment", "full")
		}
	case "build-var":
		for _, s := range ix.layout.FragSizes {
			note(c, "fragment-size", fmt.Sprint(s))
		}
	}
	if ix.fragCount == 1 {
		note(c, "fragment-count", "1")
	} else if ix.fragCount <= 8 {
		note(c, "fragment-count", "2..8")
	} else {
		note(c, "fragment-count", ">8")
	}
	// duplicates of the full key tuple across a fragment boundary
	for r := 1; r < len(ix.fragOfRow); r++ {
		if ix.fragOfRow[r] != ix.fragOfRow[r-1] && ix.layout.Kind != "pkfetch" {
			a, _ := rowVals(ix, r-1)
			b, _ := rowVals(ix, r)
			same := true
			for j := range keys {
				if a[j] != b[j] {
					same = false
				}
			}
			if same {
				note(c, "boundary", "same-key-tuple-on-both-sides-of-a-fragment-boundary")
			}
		}
	}
}

func runCond(c *vf.Ctx, st *inprocStats, ix *indexed, cond *Node, tb TimeBounds, settings []Setting, id string) {
	t := ix.t
	feat := features(t, cond)
	var accepted []int
	var err error
	if p := vf.Catch(func() { accepted, err = engineAccepted(ix, cond, tb) }); p != nil || err != nil {
		// the engine's own row filter refuses the condition: such a query fails, there is
		// nothing to compare a pruning decision with
		c.Count("conditions-refused-by-the-engine-row-filter", 1)
		if p != nil {
			note(c, "engine-row-filter-refusal", "panic: "+panicClass(p))
		} else {
			note(c, "engine-row-filter-refusal", errClass(err))
		}
		// the index side is still exercised for crashes
		judge(c, st, ix, cond, tb, settings, nil, nil)
		return
	}
	c.Count("conditions-judged", 1)
	for op := range feat.ops {
		note(c, "operator-on-key", op)
	}
	if feat.nonKey {
		note(c, "condition-shape", "has-non-key-atom")
	}
	if feat.hasAnd {
		note(c, "condition-shape", "AND")
	}
	if feat.hasOr {
		note(c, "condition-shape", "OR")
	}
	if feat.neqMulti {
		note(c, "condition-shape", "!=-with-second-key-column")
	}
	if feat.litLeft {
		note(c, "condition-shape", "literal-on-the-left")
	}
	if feat.mixedLit {
		note(c, "condition-shape", "numeric-literal-of-other-type")
	}
	switch {
	case tb.HasMin && tb.HasMax && tb.Min == tb.Max:
		note(c, "time-bounds", "point")
	case tb.HasMin && tb.HasMax:
		note(c, "time-bounds", "both")
	case tb.HasMin:
		note(c, "time-bounds", "lower")
	case tb.HasMax:
		note(c, "time-bounds", "upper")
	default:
		note(c, "time-bounds", "none")
	}
	if t.TimeInPK && (tb.HasMin || tb.HasMax) {
		note(c, "time-bounds", "on-primary-key-time-column")
	}
	// literal equal to a first key stored in the index (the boundary the property names)
	cond.walk(func(x *Node) {
		i, cs := t.col(x.Col)
		if cs == nil || !cs.Key || x.Lit == nil {
			return
		}
		cv := ix.pkRec.Column(i)
		for r := 0; r < cv.Len; r++ {
			if cv.IsNil(r) {
				continue
			}
			eq := false
			switch cs.Type {
			case tInt:
				v, _ := cv.IntegerValue(r)
				eq = x.Lit.Kind == tInt && v == x.Lit.I
			case tFloat:
				v, _ := cv.FloatValue(r)
				eq = x.Lit.Kind == tFloat && v == x.Lit.F
			case tString, tTag:
				v, _ := cv.StringValueSafe(r)
				eq = x.Lit.Kind == tString && v == x.Lit.S
			}
			if eq {
				note(c, "boundary", "literal-equals-a-key-stored-in-the-index")
				return
			}
		}
	})

	// independent evaluator alongside. On null-free data a disagreement with the engine's row
	// filter is counted as a separate, non-gating observation. A row that the engine's filter
	// accepts but that does not satisfy the condition (the filter over-accepts) puts no
	// obligation on the index, so the gated rows are those both agree on.
	gated := accepted
	{
		full := evaluable(cond)
		mine := map[int]bool{} // rows the evaluator does not rule out
		for r := 0; r < ix.rec.RowNums(); r++ {
			vals, tm := rowVals(ix, r)
			if evalRow(t, vals, tm, cond, tb) != vFalse {
				mine[r] = true
			}
		}
		gated = nil
		for _, r := range accepted {
			if mine[r] {
				gated = append(gated, r)
			}
		}
		if len(gated) < len(accepted) {
			c.Count("NON-GATING:engine-row-filter-accepts-rows-the-evaluator-rules-out", 1)
		}
		if !full {
			goto judged
		}
		same := len(mine) == len(accepted) && len(gated) == len(accepted)
		if !t.hasNull() {
			c.Count("conditions-cross-checked-with-independent-evaluator", 1)
		}
		if !same {
			if len(mine) > len(gated) {
				c.Count("NON-GATING:engine-row-filter-rejects-rows-the-evaluator-accepts", 1)
			}
			shape := "null-free"
			if t.hasNull() {
				shape = "with-nulls"
			}
			if feat.mixedLit {
				shape += ",numeric-literal-of-other-type"
			}
			if feat.hasOr && feat.hasAnd {
				shape += ",AND+OR"
			} else if feat.hasOr {
				shape += ",OR"
			} else if feat.hasAnd {
				shape += ",AND"
			}
			if !disagreeSampled && strings.HasPrefix(id, "w3/") {
				disagreeSampled = true
				c.Sample(map[string]any{"non_gating_row_filter_disagreement": cond.String(), "time": tb.String(),
					"engine_accepts_rows": len(accepted), "evaluator_accepts_rows": len(mine), "both": len(gated), "shape": shape})
			}
			note(c, "row-filter-disagreement-shape", shape)
		}
	}
judged:
	accepted = gated

	needed := neededFragments(ix, accepted)
	if judge(c, st, ix, cond, tb, settings, accepted, needed) && len(needed) > 0 {
		// non-trivial: the index really pruned something while at least one fragment had to stay
		c.Nontrivial(id)
		if !sampledOnce && len(needed) < ix.fragCount && (strings.HasPrefix(id, "w0/") || strings.HasPrefix(id, "w1/") || strings.HasPrefix(id, "w2/") || strings.HasPrefix(id, "design/l0/c1")) {
			sampledOnce = true
			c.Sample(map[string]any{"part": "inproc", "mode": t.Mode, "layout": ix.layout, "keys": pkSchemaString(t), "rows": len(t.Rows),
				"condition": cond.String(), "time": tb.String(), "fragments": ix.fragCount, "fragments_with_accepted_rows": len(needed)})
		}
	}
}

func pkSchemaString(t *Table) string {
	var p []string
	for _, k := range t.keyCols() {
		p = append(p, k.Name+":"+k.Type)
	}
	if t.TimeInPK {
		p = append(p, "time")
	}
	return strings.Join(p, ",")
}

// designCases: the two shapes DESIGN.md names (!= combined with a second key column) and the
// shape that shares their cause, on a fixed table, under every layout. On the unchanged
// tree (before the fix of checkRangeRightBound) each of them pruned fragments with matches.
func designCases(c *vf.Ctx, st *inprocStats) {
	t := Table{Mode: "plain", Cols: []ColSpec{{Name: "k0", Type: tString, Key: true}, {Name: "k1", Type: tInt, Key: true},
		{Name: "v0", Type: tInt}, {Name: "v1", Type: tString}}}
	i := 0
	for _, a := range []string{"A", "B", "C", "D", "E", "F"} {
		for b := int64(0); b < 6; b++ {
			for k := 0; k < 3; k++ {
				t.Rows = append(t.Rows, Row{V: []Val{{S: a}, {I: b}, {I: int64(k)}, {S: "x"}}, T: int64(i)})
				i++
			}
		}
	}
	s := func(col, op, v string) *Node { return &Node{Op: op, Col: col, Lit: &Lit{Kind: tString, S: v}} }
	n := func(col, op string, v int64) *Node { return &Node{Op: op, Col: col, Lit: &Lit{Kind: tInt, I: v}} }
	conds := []*Node{
		{Op: "OR", L: s("k0", "!=", "D"), R: n("k1", "=", 1)},
		{Op: "AND", L: s("k0", "=", "C"), R: n("k1", "!=", 1)},
		{Op: "AND", L: s("k0", "=", "C"), R: n("k1", ">=", 2)},
	}
	for li, l := range []Layout{{Kind: "pkfetch"}, {Kind: "build-fixed", FragSize: 8}, {Kind: "build-fixed", FragSize: 5}, {Kind: "build-var", FragSizes: []int{7, 13, 1, 17, 17, 17, 17, 9, 10}}} {
		ix, err := buildIndex(&t, l)
		if err != nil {
			c.Broken("design case: %v", err)
			return
		}
		noteTable(c, ix)
		for ci, cond := range conds {
			c.LogInput(Case{Part: "inproc", Table: t, Layout: l, Cond: cond})
			runCond(c, st, ix, cond, TimeBounds{}, settingsFor(l), fmt.Sprintf("design/l%d/c%d", li, ci))
			note(c, "design-shapes-run", cond.String())
		}
	}
}
