// Package model is the logical-contents oracle shared by the black-box drivers: points,
// their line-protocol rendering, a field-wise last-write-wins map, and the decoding of
// query results into the same shape.
package model

import (
	"encoding/json"
	"fmt"
	"math"
	"sort"
	"strconv"
	"strings"

	"verifharness/proc"
)

// Value is a typed field value; floats are compared by bit pattern.
type Value struct {
	Kind byte // 'i' 'f' 'b' 's'
	I    int64
	F    float64
	B    bool
	S    string
}

func Int(v int64) Value     { return Value{Kind: 'i', I: v} }
func Float(v float64) Value { return Value{Kind: 'f', F: v} }
func Bool(v bool) Value     { return Value{Kind: 'b', B: v} }
func Str(v string) Value    { return Value{Kind: 's', S: v} }

func (v Value) Equal(o Value) bool {
	if v.Kind != o.Kind {
		return false
	}
	switch v.Kind {
	case 'i':
		return v.I == o.I
	case 'f':
		return math.Float64bits(v.F) == math.Float64bits(o.F)
	case 'b':
		return v.B == o.B
	}
	return v.S == o.S
}

func (v Value) String() string {
	switch v.Kind {
	case 'i':
		return strconv.FormatInt(v.I, 10) + "i"
	case 'f':
		return strconv.FormatFloat(v.F, 'g', -1, 64)
	case 'b':
		return strconv.FormatBool(v.B)
	}
	return strconv.Quote(v.S)
}

func (v Value) MarshalJSON() ([]byte, error) { return json.Marshal(v.String()) }

// LP renders the value in line-protocol syntax (plain, safe strings only).
func (v Value) LP() string {
	switch v.Kind {
	case 'i':
		return strconv.FormatInt(v.I, 10) + "i"
	case 'f':
		s := strconv.FormatFloat(v.F, 'g', -1, 64)
		return s
	case 'b':
		if v.B {
			return "true"
		}
		return "false"
	}
	return `"` + strings.NewReplacer(`\`, `\\`, `"`, `\"`).Replace(v.S) + `"`
}

type Point struct {
	Mst    string
	Tags   map[string]string
	Fields map[string]Value
	T      int64
}

// SeriesKey is the canonical "k=v,k=v" of the tag set (sorted by key).
func SeriesKey(tags map[string]string) string {
	ks := make([]string, 0, len(tags))
	for k := range tags {
		ks = append(ks, k)
	}
	sort.Strings(ks)
	var b strings.Builder
	for i, k := range ks {
		if i > 0 {
			b.WriteByte(',')
		}
		b.WriteString(k)
		b.WriteByte('=')
		b.WriteString(tags[k])
	}
	return b.String()
}

// LP renders the point (identifiers must not need escaping).
func (p Point) LP() string {
	var b strings.Builder
	b.WriteString(p.Mst)
	ks := make([]string, 0, len(p.Tags))
	for k := range p.Tags {
		ks = append(ks, k)
	}
	sort.Strings(ks)
	for _, k := range ks {
		b.WriteByte(',')
		b.WriteString(k)
		b.WriteByte('=')
		b.WriteString(p.Tags[k])
	}
	b.WriteByte(' ')
	fs := make([]string, 0, len(p.Fields))
	for k := range p.Fields {
		fs = append(fs, k)
	}
	sort.Strings(fs)
	for i, k := range fs {
		if i > 0 {
			b.WriteByte(',')
		}
		b.WriteString(k)
		b.WriteByte('=')
		b.WriteString(p.Fields[k].LP())
	}
	b.WriteByte(' ')
	b.WriteString(strconv.FormatInt(p.T, 10))
	return b.String()
}

func LPBatch(ps []Point) string {
	var b strings.Builder
	for _, p := range ps {
		b.WriteString(p.LP())
		b.WriteByte('\n')
	}
	return b.String()
}

type RowKey struct {
	Mst    string
	Series string
	T      int64
}

func (k RowKey) String() string { return fmt.Sprintf("%s{%s}@%d", k.Mst, k.Series, k.T) }

// Contents: rows keyed by (measurement, series, time) holding field -> value.
type Contents map[RowKey]map[string]Value

// Model is the last-write-wins replay of acknowledged writes.
type Model struct {
	Rows   Contents
	Schema map[string]map[string]byte // mst -> field -> kind
}

func New() *Model {
	return &Model{Rows: Contents{}, Schema: map[string]map[string]byte{}}
}

func (m *Model) Clone() *Model {
	c := New()
	for k, fs := range m.Rows {
		nf := make(map[string]Value, len(fs))
		for f, v := range fs {
			nf[f] = v
		}
		c.Rows[k] = nf
	}
	for mst, fs := range m.Schema {
		nf := map[string]byte{}
		for f, k := range fs {
			nf[f] = k
		}
		c.Schema[mst] = nf
	}
	return c
}

// Apply replays one acknowledged batch in order.
func (m *Model) Apply(ps []Point) {
	for _, p := range ps {
		k := RowKey{p.Mst, SeriesKey(p.Tags), p.T}
		row := m.Rows[k]
		if row == nil {
			row = map[string]Value{}
			m.Rows[k] = row
		}
		sc := m.Schema[p.Mst]
		if sc == nil {
			sc = map[string]byte{}
			m.Schema[p.Mst] = sc
		}
		for f, v := range p.Fields {
			row[f] = v
			sc[f] = v.Kind
		}
	}
}

// DropMeasurement removes all rows (and the schema) of a measurement.
func (m *Model) DropMeasurement(mst string) {
	for k := range m.Rows {
		if k.Mst == mst {
			delete(m.Rows, k)
		}
	}
	delete(m.Schema, mst)
}

// DropSeries removes the rows of the series for which sel returns true.
func (m *Model) DropSeries(mst string, sel func(series string) bool) int {
	n := 0
	for k := range m.Rows {
		if (mst == "" || k.Mst == mst) && sel(k.Series) {
			delete(m.Rows, k)
			n++
		}
	}
	return n
}

func (m *Model) Measurements() []string {
	set := map[string]bool{}
	for k := range m.Rows {
		set[k.Mst] = true
	}
	out := make([]string, 0, len(set))
	for k := range set {
		out = append(out, k)
	}
	sort.Strings(out)
	return out
}

// ParseValue converts a JSON cell into a Value of the given kind.
func ParseValue(cell any, kind byte) (Value, error) {
	switch kind {
	case 'i':
		n, ok := cell.(json.Number)
		if !ok {
			return Value{}, fmt.Errorf("integer field returned as %T %v", cell, cell)
		}
		i, err := strconv.ParseInt(n.String(), 10, 64)
		if err != nil {
			return Value{}, fmt.Errorf("integer field returned as %q", n.String())
		}
		return Int(i), nil
	case 'f':
		n, ok := cell.(json.Number)
		if !ok {
			return Value{}, fmt.Errorf("float field returned as %T %v", cell, cell)
		}
		f, err := strconv.ParseFloat(n.String(), 64)
		if err != nil {
			return Value{}, fmt.Errorf("float field returned as %q", n.String())
		}
		return Float(f), nil
	case 'b':
		b, ok := cell.(bool)
		if !ok {
			return Value{}, fmt.Errorf("boolean field returned as %T %v", cell, cell)
		}
		return Bool(b), nil
	case 's':
		s, ok := cell.(string)
		if !ok {
			return Value{}, fmt.Errorf("string field returned as %T %v", cell, cell)
		}
		return Str(s), nil
	}
	return Value{}, fmt.Errorf("unknown kind")
}

// Problem found while decoding a result (structural: duplicates, ordering, types).
type Problem struct {
	Kind string
	Msg  string
}

// FromResult converts the series of "SELECT ... FROM mst GROUP BY *" into Contents.
// schema gives the kind of each field; unknown columns are reported as problems. desc
// tells the expected time order. Structural problems (duplicate timestamps, unsorted
// rows, wrong JSON types) are returned separately.
func FromResult(series []proc.Series, schema map[string]map[string]byte, desc bool) (Contents, []Problem) {
	out := Contents{}
	var probs []Problem
	for _, se := range series {
		sk := SeriesKey(se.Tags)
		ti := -1
		for i, c := range se.Columns {
			if c == "time" {
				ti = i
			}
		}
		if ti < 0 {
			probs = append(probs, Problem{"no-time-column", se.Name})
			continue
		}
		var prev int64
		for ri, row := range se.Values {
			tn, ok := row[ti].(json.Number)
			if !ok {
				probs = append(probs, Problem{"bad-time", fmt.Sprintf("%s{%s}: %v", se.Name, sk, row[ti])})
				continue
			}
			t, err := strconv.ParseInt(tn.String(), 10, 64)
			if err != nil {
				probs = append(probs, Problem{"bad-time", fmt.Sprintf("%s{%s}: %v", se.Name, sk, row[ti])})
				continue
			}
			if ri > 0 {
				if t == prev {
					probs = append(probs, Problem{"duplicate-timestamp", fmt.Sprintf("%s{%s}@%d", se.Name, sk, t)})
				} else if (t < prev) != desc {
					probs = append(probs, Problem{"unsorted", fmt.Sprintf("%s{%s}: %d after %d (desc=%v)", se.Name, sk, t, prev, desc)})
				}
			}
			prev = t
			k := RowKey{se.Name, sk, t}
			fields := out[k]
			if fields == nil {
				fields = map[string]Value{}
			} else {
				probs = append(probs, Problem{"duplicate-row", k.String()})
			}
			for ci, c := range se.Columns {
				if ci == ti || row[ci] == nil {
					continue
				}
				kind, ok := schema[se.Name][c]
				if !ok {
					probs = append(probs, Problem{"unknown-column", fmt.Sprintf("%s.%s=%v", se.Name, c, row[ci])})
					continue
				}
				v, err := ParseValue(row[ci], kind)
				if err != nil {
					probs = append(probs, Problem{"bad-cell", fmt.Sprintf("%s.%s: %v", k, c, err)})
					continue
				}
				fields[c] = v
			}
			out[k] = fields
		}
	}
	return out, probs
}

// Diff describes how got differs from want (restricted to measurement mst if non-empty).
// Empty result = equal. Rows whose every field is absent are treated as absent.
func Diff(want, got Contents, mst string, max int) []string {
	var out []string
	add := func(s string) {
		if len(out) < max {
			out = append(out, s)
		}
	}
	keys := map[RowKey]bool{}
	for k, fs := range want {
		if (mst == "" || k.Mst == mst) && len(fs) > 0 {
			keys[k] = true
		}
	}
	for k, fs := range got {
		if (mst == "" || k.Mst == mst) && len(fs) > 0 {
			keys[k] = true
		}
	}
	sorted := make([]RowKey, 0, len(keys))
	for k := range keys {
		sorted = append(sorted, k)
	}
	sort.Slice(sorted, func(i, j int) bool {
		a, b := sorted[i], sorted[j]
		if a.Mst != b.Mst {
			return a.Mst < b.Mst
		}
		if a.Series != b.Series {
			return a.Series < b.Series
		}
		return a.T < b.T
	})
	for _, k := range sorted {
		w, g := want[k], got[k]
		if len(w) == 0 {
			add(fmt.Sprintf("extra row %s %v", k, g))
			continue
		}
		if len(g) == 0 {
			add(fmt.Sprintf("missing row %s (want %v)", k, w))
			continue
		}
		fs := map[string]bool{}
		for f := range w {
			fs[f] = true
		}
		for f := range g {
			fs[f] = true
		}
		names := make([]string, 0, len(fs))
		for f := range fs {
			names = append(names, f)
		}
		sort.Strings(names)
		for _, f := range names {
			wv, wok := w[f]
			gv, gok := g[f]
			switch {
			case wok && !gok:
				add(fmt.Sprintf("%s.%s: null, want %s", k, f, wv))
			case !wok && gok:
				add(fmt.Sprintf("%s.%s: %s, want null", k, f, gv))
			case !wv.Equal(gv):
				add(fmt.Sprintf("%s.%s: %s, want %s", k, f, gv, wv))
			}
		}
	}
	return out
}

// ParseLP parses a line rendered by Point.LP (safe identifiers, no escapes except in
// string values) back into a Point. Used to replay witnesses.
func ParseLP(line string) (Point, error) {
	var p Point
	i := strings.IndexByte(line, ' ')
	if i < 0 {
		return p, fmt.Errorf("bad line %q", line)
	}
	head, rest := line[:i], line[i+1:]
	hp := strings.Split(head, ",")
	p.Mst = hp[0]
	p.Tags = map[string]string{}
	for _, kv := range hp[1:] {
		x := strings.SplitN(kv, "=", 2)
		if len(x) != 2 {
			return p, fmt.Errorf("bad tag %q", kv)
		}
		p.Tags[x[0]] = x[1]
	}
	j := strings.LastIndexByte(rest, ' ')
	if j < 0 {
		return p, fmt.Errorf("bad line %q", line)
	}
	t, err := strconv.ParseInt(rest[j+1:], 10, 64)
	if err != nil {
		return p, err
	}
	p.T = t
	p.Fields = map[string]Value{}
	fs := rest[:j]
	for len(fs) > 0 {
		eq := strings.IndexByte(fs, '=')
		if eq < 0 {
			return p, fmt.Errorf("bad fields %q", fs)
		}
		name := fs[:eq]
		fs = fs[eq+1:]
		var raw string
		if strings.HasPrefix(fs, `"`) {
			k := 1
			for k < len(fs) && fs[k] != '"' {
				if fs[k] == '\\' {
					k++
				}
				k++
			}
			raw = fs[:k+1]
			fs = fs[k+1:]
			s := strings.NewReplacer(`\"`, `"`, `\\`, `\`).Replace(raw[1 : len(raw)-1])
			p.Fields[name] = Str(s)
		} else {
			k := strings.IndexByte(fs, ',')
			if k < 0 {
				k = len(fs)
			}
			raw = fs[:k]
			fs = fs[k:]
			switch {
			case raw == "true" || raw == "false":
				p.Fields[name] = Bool(raw == "true")
			case strings.HasSuffix(raw, "i"):
				v, err := strconv.ParseInt(strings.TrimSuffix(raw, "i"), 10, 64)
				if err != nil {
					return p, err
				}
				p.Fields[name] = Int(v)
			default:
				v, err := strconv.ParseFloat(raw, 64)
				if err != nil {
					return p, err
				}
				p.Fields[name] = Float(v)
			}
		}
		fs = strings.TrimPrefix(fs, ",")
	}
	return p, nil
}
