package main

// Part 1b: whole columns through ColVal — a series record is encoded by the chunk
// builder (segment split, column headers with null bitmaps, block codecs, pre-
// aggregation, per-segment time ranges) and every segment is decoded again with the
// readers' functions, ascending and descending. No file is involved (part 2 adds it).

import (
	"fmt"
	"math"
	"math/rand/v2"
	"sort"

	"github.com/openGemini/openGemini/engine/immutable"
	"github.com/openGemini/openGemini/lib/record"
	"verifharness/vf"
)

// lrec is the logical form of one series record.
type lrec struct {
	Sid   uint64   `json:"sid"`
	Cols  []*lcol  `json:"cols"` // sorted by name
	Times []decI64 `json:"times"`
	TGen  string   `json:"tgen"`
	Head  int      `json:"head"` // rows cut off in front when the input record is a slice of a larger one
	Tail  int      `json:"tail"`
}

func (l *lrec) rows() int { return len(l.Times) }

var colTypes = []int{tInt, tFloat, tString, tBool}

// genRec draws a record of n rows with 1..maxCols field columns.
func genRec(r *rand.Rand, sid uint64, n, maxCols int, fixedSchema []*lcol) *lrec {
	l := &lrec{Sid: sid}
	for {
		name := timeGensSorted[r.IntN(len(timeGensSorted))]
		ts := genByName(timeGens, name).f(r, n)
		if strictlyIncreasing(ts) {
			l.TGen = name
			l.Times = make([]decI64, n)
			for i, t := range ts {
				l.Times[i] = decI64(t)
			}
			break
		}
	}
	if fixedSchema != nil {
		for _, f := range fixedSchema {
			l.Cols = append(l.Cols, genColDense(r, f.Name, f.Typ, n))
		}
		return l
	}
	k := 1 + r.IntN(maxCols)
	for i := 0; i < k; i++ {
		typ := colTypes[r.IntN(len(colTypes))]
		name := fmt.Sprintf("f%02d_%s", i, typeNames[typ])
		l.Cols = append(l.Cols, genColDense(r, name, typ, n))
	}
	return l
}

func schemaOf(cols []*lcol) record.Schemas {
	s := make(record.Schemas, 0, len(cols)+1)
	for _, c := range cols {
		s = append(s, record.Field{Name: c.Name, Type: c.Typ})
	}
	return append(s, record.Field{Name: record.TimeField, Type: tInt})
}

// build makes the input record. With head/tail > 0 the record handed to the encoder is
// a slice [head, head+n) of a larger record, so its bitmaps start at a bit offset.
func (l *lrec) build(r *rand.Rand) *record.Record {
	n := l.rows()
	big := record.NewRecord(schemaOf(l.Cols), false)
	if l.Head == 0 && l.Tail == 0 {
		for i, c := range l.Cols {
			c.appendTo(&big.ColVals[i], 0, n)
		}
		for _, t := range l.Times {
			big.ColVals[len(l.Cols)].AppendInteger(int64(t))
		}
		return big
	}
	// padding rows before and after; their values are irrelevant
	for i, c := range l.Cols {
		pre := genCol(r, c.Name, c.Typ, l.Head)
		post := genCol(r, c.Name, c.Typ, l.Tail)
		pre.appendTo(&big.ColVals[i], 0, l.Head)
		c.appendTo(&big.ColVals[i], 0, n)
		post.appendTo(&big.ColVals[i], 0, l.Tail)
	}
	t0 := int64(math.MinInt64)
	if n > 0 {
		t0 = int64(l.Times[0]) - int64(l.Head) - 1
	}
	tc := &big.ColVals[len(l.Cols)]
	for i := 0; i < l.Head; i++ {
		tc.AppendInteger(t0 + int64(i))
	}
	for _, t := range l.Times {
		tc.AppendInteger(int64(t))
	}
	for i := 0; i < l.Tail; i++ {
		tc.AppendInteger(int64(l.Times[n-1]) + 1 + int64(i))
	}
	rec := &record.Record{}
	rec.SliceFromRecord(big, l.Head, l.Head+n)
	return rec
}

// canSlice: SliceFromRecord needs room for the padding timestamps.
func (l *lrec) canSlice() bool {
	n := l.rows()
	return n > 0 && int64(l.Times[0]) > math.MinInt64+64 && int64(l.Times[n-1]) < math.MaxInt64-64
}

// ---------------------------------------------------------------- expected statistics

// checkPreAgg compares a decoded pre-aggregation block with the column it describes.
// Deliberately tolerant where the format leaves a choice: the time reported with min/max
// may be the time of any row holding that value; float min/max/sum are not judged when
// the column holds a NaN (no order is defined). Returns "" or (class, message).
func checkPreAgg(col *lcol, times []decI64, got immutable.VerifPreAgg) (string, string) {
	cnt := int64(col.nonNull())
	if got.Count != cnt {
		return "count", fmt.Sprintf("count %d, column has %d non-null rows", got.Count, cnt)
	}
	if cnt == 0 {
		return "", ""
	}
	timeOK := func(want func(i int) bool, t int64) bool {
		for i := range col.Null {
			if !col.Null[i] && want(i) && int64(times[i]) == t {
				return true
			}
		}
		return false
	}
	switch col.Typ {
	case tInt:
		mn, mx, sum := int64(math.MaxInt64), int64(math.MinInt64), int64(0)
		for i, v := range col.I {
			if col.Null[i] {
				continue
			}
			if int64(v) < mn {
				mn = int64(v)
			}
			if int64(v) > mx {
				mx = int64(v)
			}
			sum += int64(v)
		}
		if g, ok := got.Min.(int64); !ok || g != mn {
			return "min", fmt.Sprintf("min %v, column minimum is %d", got.Min, mn)
		}
		if g, ok := got.Max.(int64); !ok || g != mx {
			return "max", fmt.Sprintf("max %v, column maximum is %d", got.Max, mx)
		}
		if g, ok := got.Sum.(int64); !ok || g != sum {
			return "sum", fmt.Sprintf("sum %v, column sum (wrapping) is %d", got.Sum, sum)
		}
		if !timeOK(func(i int) bool { return int64(col.I[i]) == mn }, got.MinTime) {
			return "min-time", fmt.Sprintf("min time %d is not the time of a row holding the minimum %d", got.MinTime, mn)
		}
		if !timeOK(func(i int) bool { return int64(col.I[i]) == mx }, got.MaxTime) {
			return "max-time", fmt.Sprintf("max time %d is not the time of a row holding the maximum %d", got.MaxTime, mx)
		}
	case tFloat:
		hasNaN := false
		var mn, mx, sum float64
		first := true
		for i, b := range col.F {
			if col.Null[i] {
				continue
			}
			v := math.Float64frombits(uint64(b))
			if math.IsNaN(v) {
				hasNaN = true
			}
			if first {
				mn, mx, first = v, v, false
			}
			if v < mn {
				mn = v
			}
			if v > mx {
				mx = v
			}
			sum += v
		}
		if hasNaN {
			return "", ""
		}
		gs, ok := got.Sum.(float64)
		if !ok || !(gs == sum || math.IsNaN(gs) && math.IsNaN(sum)) {
			return "sum", fmt.Sprintf("sum %v, sequential sum of the column is %v", got.Sum, sum)
		}
		if g, ok := got.Min.(float64); !ok || g != mn {
			return "min", fmt.Sprintf("min %v, column minimum is %v", got.Min, mn)
		}
		if g, ok := got.Max.(float64); !ok || g != mx {
			return "max", fmt.Sprintf("max %v, column maximum is %v", got.Max, mx)
		}
		if !timeOK(func(i int) bool { return math.Float64frombits(uint64(col.F[i])) == mn }, got.MinTime) {
			return "min-time", fmt.Sprintf("min time %d is not the time of a row holding the minimum %v", got.MinTime, mn)
		}
		if !timeOK(func(i int) bool { return math.Float64frombits(uint64(col.F[i])) == mx }, got.MaxTime) {
			return "max-time", fmt.Sprintf("max time %d is not the time of a row holding the maximum %v", got.MaxTime, mx)
		}
	case tBool:
		anyT, anyF := false, false
		for i, v := range col.B {
			if col.Null[i] {
				continue
			}
			if v {
				anyT = true
			} else {
				anyF = true
			}
		}
		mn, mx := !anyF, anyT
		if g, ok := got.Min.(bool); !ok || g != mn {
			return "min", fmt.Sprintf("min %v, column minimum is %v", got.Min, mn)
		}
		if g, ok := got.Max.(bool); !ok || g != mx {
			return "max", fmt.Sprintf("max %v, column maximum is %v", got.Max, mx)
		}
		if !timeOK(func(i int) bool { return col.B[i] == mn }, got.MinTime) {
			return "min-time", fmt.Sprintf("min time %d is not the time of a non-null row holding the minimum %v", got.MinTime, mn)
		}
		if !timeOK(func(i int) bool { return col.B[i] == mx }, got.MaxTime) {
			return "max-time", fmt.Sprintf("max time %d is not the time of a non-null row holding the maximum %v", got.MaxTime, mx)
		}
	}
	return "", ""
}

// ---------------------------------------------------------------- chunk meta verification (shared with part 2)

type segWitness struct {
	Where   string   `json:"where"`
	Column  *lcol    `json:"column,omitempty"` // the expected rows of the failing segment
	Times   []decI64 `json:"times,omitempty"`
	Segment int      `json:"segment"`
}

// verifyChunkMeta checks everything the chunk meta states about a series against the
// logical record: segment count, per-segment time ranges, column names/types/order,
// pre-aggregation blocks. report(sigClass, what, segWitness).
func verifyChunkMeta(c *vf.Ctx, l *lrec, cm *immutable.ChunkMeta, maxRows int, report func(class, what string, w *segWitness)) bool {
	n := l.rows()
	segs := (n + maxRows - 1) / maxRows
	ok := true
	if cm.GetSid() != l.Sid {
		report("chunkmeta/sid", fmt.Sprintf("chunk meta says series %d, written as %d", cm.GetSid(), l.Sid), nil)
		return false
	}
	if cm.SegmentCount() != segs {
		report("chunkmeta/segment-count", fmt.Sprintf("%d rows with %d rows per segment: chunk meta has %d segments, expected %d", n, maxRows, cm.SegmentCount(), segs), nil)
		return false
	}
	for s := 0; s < segs; s++ {
		a, b := s*maxRows, (s+1)*maxRows
		if b > n {
			b = n
		}
		tr := cm.GetTimeRangeBy(s)
		if tr[0] != int64(l.Times[a]) || tr[1] != int64(l.Times[b-1]) {
			report("chunkmeta/segment-time-range", fmt.Sprintf("segment %d holds times %d..%d, chunk meta says %d..%d", s, l.Times[a], l.Times[b-1], tr[0], tr[1]),
				&segWitness{Where: "time range", Segment: s, Times: l.Times[a:b]})
			ok = false
		}
	}
	mn, mx := cm.MinMaxTime()
	if mn != int64(l.Times[0]) || mx != int64(l.Times[n-1]) {
		report("chunkmeta/min-max-time", fmt.Sprintf("series holds times %d..%d, chunk meta says %d..%d", l.Times[0], l.Times[n-1], mn, mx), nil)
		ok = false
	}
	cms := cm.GetColMeta()
	if len(cms) != len(l.Cols)+1 {
		report("chunkmeta/column-count", fmt.Sprintf("%d columns written (with time), chunk meta lists %d", len(l.Cols)+1, len(cms)), nil)
		return false
	}
	for i := range cms {
		var name string
		typ := tInt
		if i < len(l.Cols) {
			name, typ = l.Cols[i].Name, l.Cols[i].Typ
		} else {
			name = record.TimeField
		}
		if cms[i].Name() != name || int(cms[i].Type()) != typ {
			report("chunkmeta/column-identity", fmt.Sprintf("column %d is %s/%d, chunk meta says %s/%d", i, name, typ, cms[i].Name(), cms[i].Type()), nil)
			return false
		}
		agg, err := immutable.VerifColumnPreAgg(&cms[i])
		if err != nil {
			report("preagg/undecodable/"+typeNames[typ], fmt.Sprintf("pre-aggregation of column %s cannot be decoded: %v", name, err), nil)
			ok = false
			continue
		}
		c.Count("preagg-blocks-compared", 1)
		if i == len(l.Cols) {
			if agg.Count != int64(n) {
				report("preagg/time/count", fmt.Sprintf("time column pre-aggregation counts %d rows, series has %d", agg.Count, n), nil)
				ok = false
			}
			continue
		}
		if class, msg := checkPreAgg(l.Cols[i], l.Times, agg); class != "" {
			col := l.Cols[i]
			report("preagg/"+typeNames[typ]+"/"+class+"/"+preAggInputClass(col), fmt.Sprintf("pre-aggregation of column %s (%s, nulls %s): %s", name, col.Gen, col.NGen, msg),
				&segWitness{Where: "pre-aggregation", Column: col, Times: l.Times, Segment: -1})
			ok = false
		}
	}
	return ok
}

// preAggInputClass names the input property that matters for statistics findings.
func preAggInputClass(col *lcol) string {
	switch col.Typ {
	case tFloat:
		inf := false
		for i, b := range col.F {
			if !col.Null[i] && math.IsInf(math.Float64frombits(uint64(b)), 0) {
				inf = true
			}
		}
		if inf {
			if col.nonNull() < col.n() {
				return "has-inf+nulls"
			}
			return "has-inf"
		}
	}
	if col.nonNull() < col.n() {
		return "nulls"
	}
	return "no-nulls"
}

// ---------------------------------------------------------------- the chunk case

type chunkCase struct {
	Part    string `json:"part"`
	Cfg     string `json:"cfg"`
	Seed    uint64 `json:"seed"`
	Idx     int    `json:"idx"`
	MaxRows int    `json:"max_rows"`
	Rec     *lrec  `json:"rec,omitempty"`
	Note    string `json:"note,omitempty"`
}

func genChunkCase(c *vf.Ctx, cfg string, idx int) (*chunkCase, *rand.Rand) {
	r := c.Rand(streamOf("chunk", cfg, idx))
	cc := &chunkCase{Part: "chunk", Cfg: cfg, Seed: c.Seed, Idx: idx}
	cc.MaxRows = []int{8, 16, 24, 64, 1000, 1000}[r.IntN(6)]
	var n int
	switch r.IntN(6) {
	case 0:
		n = 1
	case 1:
		n = 1 + r.IntN(cc.MaxRows) // one segment
	case 2:
		n = cc.MaxRows * (1 + r.IntN(3)) // exact multiple
	case 3:
		n = cc.MaxRows*(1+r.IntN(3)) + 1 // one row spills into the next segment
	default:
		n = 1 + r.IntN(cc.MaxRows*3+cc.MaxRows/2)
	}
	cc.Rec = genRec(r, uint64(1+r.IntN(1<<20)), n, 5, nil)
	if r.IntN(3) == 0 && cc.Rec.canSlice() {
		cc.Rec.Head, cc.Rec.Tail = 1+r.IntN(23), r.IntN(9)
	}
	return cc, r
}

type chunkEnv struct {
	asc, desc *immutable.ReadContext
	dst       *record.Record
}

func newChunkEnv() *chunkEnv {
	return &chunkEnv{asc: immutable.NewReadContext(true), desc: immutable.NewReadContext(false), dst: &record.Record{}}
}

// headerKind classifies the first byte of an encoded segment.
func headerKind(b byte) string {
	switch {
	case b > 16 && b < 21:
		return "one-row"
	case b > 30 && b < 35:
		return "full"
	case b > 40 && b < 45:
		return "empty"
	default:
		return "bitmap"
	}
}

func runChunkCase(c *vf.Ctx, env *chunkEnv, cc *chunkCase, r *rand.Rand) {
	c.LogInput(cc)
	c.Eval(1)
	c.Count("chunks", 1)
	l := cc.Rec
	sigp := "chunk/"
	report := func(class, what string, w *segWitness) {
		wit := *cc
		if l.rows() > 300 {
			wit.Rec = nil
			wit.Note = "record omitted (large); regenerate from seed/cfg/idx"
		}
		c.Violation(sigp+class, what, map[string]any{"case": wit, "detail": w})
	}
	var rec *record.Record
	var chunk []byte
	var cm *immutable.ChunkMeta
	var err error
	base := int64(16 + r.IntN(5000))
	if p := vf.Catch(func() {
		rec = l.build(r)
		chunk, cm, err = immutable.VerifEncodeChunk(rec, l.Sid, cc.MaxRows, 1<<16, base)
	}); p != nil {
		report("encode-panic/"+panicInputClass(l)+":"+trimPanic(p), fmt.Sprintf("encoding a series record of %d rows panicked: %v", l.rows(), p), nil)
		return
	}
	if err != nil {
		report("encode-error:"+err.Error(), fmt.Sprintf("encoding a series record of %d rows failed: %v", l.rows(), err), nil)
		return
	}
	if !verifyChunkMeta(c, l, cm, cc.MaxRows, report) {
		return
	}
	if l.Head > 0 {
		c.Count("chunks-from-sliced-record", 1)
		for i := range rec.ColVals {
			if rec.ColVals[i].BitMapOffset != 0 {
				reached("input/sliced-record-with-bitmap-offset")
			}
		}
	}
	if cc.Cfg == baseCfg && cc.Idx == 0 {
		c.Sample(map[string]any{"part": "chunk", "cfg": cc.Cfg, "rows": l.rows(), "rows_per_segment": cc.MaxRows, "segments": cm.SegmentCount(),
			"columns": panicInputClass(l), "time_generator": l.TGen, "sliced_input": l.Head > 0, "chunk_bytes": len(chunk)})
	}
	// record the header kinds and the block modes that this chunk contains
	cms := cm.GetColMeta()
	segs := cm.SegmentCount()
	for ci := range cms {
		typ := "time"
		if ci < len(l.Cols) {
			typ = typeNames[l.Cols[ci].Typ]
		}
		for s := 0; s < segs; s++ {
			data := immutable.VerifSegmentBytes(cm, chunk, ci, s)
			if len(data) == 0 {
				report("segment/empty-bytes", fmt.Sprintf("column %d segment %d has no bytes", ci, s), nil)
				return
			}
			noteSegmentModes(c, typ, data, l, ci, s, cc.MaxRows)
		}
	}
	decodeAndCompare(c, l, cc.MaxRows, segs, report, func(seg int, asc bool, dst *record.Record) error {
		ctx := env.asc
		if !asc {
			ctx = env.desc
		}
		return immutable.VerifDecodeSegment(cm, chunk, seg, dst, ctx)
	}, env.dst)
}

func panicInputClass(l *lrec) string {
	s := map[string]bool{}
	for _, c := range l.Cols {
		s[typeNames[c.Typ]+"="+c.Gen] = true
	}
	keys := make([]string, 0, len(s))
	for k := range s {
		keys = append(keys, k)
	}
	sort.Strings(keys)
	if len(keys) > 3 {
		keys = keys[:3]
	}
	return fmt.Sprint(keys)
}

// noteSegmentModes records header kind and block mode byte of one encoded segment.
func noteSegmentModes(c *vf.Ctx, typ string, data []byte, l *lrec, ci, s, maxRows int) {
	kind := headerKind(data[0])
	c.Distinct("segment-header/"+typ, kind)
	reached("segment-header/" + typ + "/" + kind)
	c.Count("segment-header/"+typ+"/"+kind, 1)
	var body []byte
	switch kind {
	case "full", "empty":
		body = data[5:]
	case "bitmap":
		if len(data) >= 5 {
			bl := int(uint32(data[1])<<24 | uint32(data[2])<<16 | uint32(data[3])<<8 | uint32(data[4]))
			if 5+bl+8 <= len(data) {
				body = data[5+bl+8:]
			}
		}
	}
	if len(body) > 0 {
		m := modeName(typ, body[0])
		c.Distinct("segment-mode/"+typ, m)
		c.Count("segment-mode/"+typ+"/"+m, 1)
		if m != "raw" {
			g := l.TGen
			if ci < len(l.Cols) {
				g = l.Cols[ci].Gen
			}
			c.Nontrivial("segment/" + typ + "/" + kind + "/" + m + "/" + g)
		}
	}
}

// decodeAndCompare reads every segment (ascending and descending) through read() and
// compares every column and the time column with the logical record.
func decodeAndCompare(c *vf.Ctx, l *lrec, maxRows, segs int, report func(class, what string, w *segWitness),
	read func(seg int, asc bool, dst *record.Record) error, dst *record.Record) bool {
	n := l.rows()
	schema := schemaOf(l.Cols)
	for s := 0; s < segs; s++ {
		a, b := s*maxRows, (s+1)*maxRows
		if b > n {
			b = n
		}
		for _, asc := range []bool{true, false} {
			dir := "asc"
			if !asc {
				dir = "desc"
			}
			dst.Schema = schema
			if cap(dst.ColVals) < len(schema) {
				dst.ColVals = make([]record.ColVal, len(schema))
			}
			dst.ColVals = dst.ColVals[:len(schema)]
			var err error
			if p := vf.Catch(func() { err = read(s, asc, dst) }); p != nil {
				report("decode-panic/"+dir+":"+trimPanic(p), fmt.Sprintf("reading segment %d (%s) panicked: %v", s, dir, p), &segWitness{Where: "decode", Segment: s})
				return false
			}
			if err != nil {
				report("decode-error/"+dir+":"+errClass(err.Error()), fmt.Sprintf("reading segment %d (%s) failed: %v", s, dir, err), &segWitness{Where: "decode", Segment: s})
				return false
			}
			for ci := 0; ci <= len(l.Cols); ci++ {
				var exp *lcol
				if ci < len(l.Cols) {
					exp = l.Cols[ci].slice(a, b)
				} else {
					exp = &lcol{Name: record.TimeField, Typ: tInt, Gen: l.TGen, Null: make([]bool, b-a), I: l.Times[a:b]}
				}
				want := exp
				if !asc {
					want = exp.reversed()
				}
				got, ferr := fromColVal(exp.Typ, &dst.ColVals[ci])
				tn := typeNames[exp.Typ]
				if ci == len(l.Cols) {
					tn = "time"
				}
				if ferr != nil {
					report("segment/"+tn+"/"+dir+"/malformed-colval", fmt.Sprintf("segment %d column %s (%s): decoded ColVal is inconsistent: %v", s, exp.Name, dir, ferr),
						&segWitness{Where: "column " + exp.Name, Column: exp, Segment: s})
					return false
				}
				if d := diffCol(want, got); d != "" {
					report("segment/"+tn+"/gen="+exp.Gen+"/"+dir+"/mismatch:"+diffClass(want, got),
						fmt.Sprintf("segment %d column %s (%s, values %s, nulls %s): %s", s, exp.Name, dir, exp.Gen, exp.NGen, d),
						&segWitness{Where: "column " + exp.Name, Column: exp, Segment: s})
					return false
				}
				c.Count("segment-columns-compared", 1)
				c.Count("values-compared", int64(b-a))
			}
		}
	}
	return true
}

func errClass(s string) string {
	// drop file names and numbers that vary between cases
	out := make([]byte, 0, len(s))
	for i := 0; i < len(s) && len(out) < 100; i++ {
		ch := s[i]
		if ch >= '0' && ch <= '9' {
			if len(out) > 0 && out[len(out)-1] == '#' {
				continue
			}
			ch = '#'
		}
		out = append(out, ch)
	}
	return string(out)
}
