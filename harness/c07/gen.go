package main

// Generators. Every generator draws only from the *rand.Rand it is given, which the
// callers obtain from c.Rand(stream) — one stream per case, so a single case can be
// re-created from (seed, part, cfg, index) without running its predecessors.

import (
	"math"
	"math/rand/v2"
)

// ---------------------------------------------------------------- lengths

var edgeLens = []int{0, 1, 2, 3, 4, 5, 6, 7, 8, 9, 10, 15, 16, 17, 30, 59, 60, 61, 119, 120, 121, 239, 240, 241, 242, 480, 999, 1000, 1001}

// pickLen favours the lengths at which the encoders switch behaviour (3 = smallest
// block with a mode choice for ints/times, 4/5 = float threshold, 8/9 = RLE limit,
// 60/120/240 = simple8b packing, 1000 = default segment size).
func pickLen(r *rand.Rand, max int) int {
	var n int
	switch r.IntN(10) {
	case 0, 1, 2:
		n = edgeLens[r.IntN(len(edgeLens))]
	case 3, 4, 5:
		n = 5 + r.IntN(60)
	case 6, 7:
		n = 50 + r.IntN(500)
	case 8:
		n = 500 + r.IntN(2600)
	default:
		n = 1 + r.IntN(12)
	}
	if n > max {
		n = max
	}
	return n
}

// ---------------------------------------------------------------- integers

type intGen struct {
	name string
	f    func(r *rand.Rand, n int) []int64
}

func rndInt64(r *rand.Rand) int64 { return int64(r.Uint64()) }

var intExtremes = []int64{math.MinInt64, math.MinInt64 + 1, -1 << 62, -(1 << 60), -(1 << 59), -(1 << 59) - 1, -1, 0, 1,
	1 << 59, (1 << 59) - 1, (1 << 60) - 1, 1 << 60, 1 << 62, math.MaxInt64 - 1, math.MaxInt64, 1 << 53, (1 << 53) + 1}

var intGens = []intGen{
	{"constant", func(r *rand.Rand, n int) []int64 {
		v := pickIntBase(r)
		out := make([]int64, n)
		for i := range out {
			out[i] = v
		}
		return out
	}},
	{"const-delta", func(r *rand.Rand, n int) []int64 {
		v, d := pickIntBase(r), smallDelta(r)
		out := make([]int64, n)
		for i := range out {
			out[i] = v
			v += d
		}
		return out
	}},
	{"const-delta-wrapping", func(r *rand.Rand, n int) []int64 { // delta so large that v wraps around int64
		v := intExtremes[r.IntN(len(intExtremes))]
		d := rndInt64(r) | 1<<61
		if r.IntN(2) == 0 {
			d = -d
		}
		out := make([]int64, n)
		for i := range out {
			out[i] = v
			v += d
		}
		return out
	}},
	{"const-delta-one-break", func(r *rand.Rand, n int) []int64 { // constant delta except at one position
		v, d := pickIntBase(r), smallDelta(r)
		out := make([]int64, n)
		brk := -1
		if n > 0 {
			brk = r.IntN(n)
		}
		for i := range out {
			out[i] = v
			v += d
			if i == brk {
				v += 1 + int64(r.IntN(3))
			}
		}
		return out
	}},
	{"small-deltas", func(r *rand.Rand, n int) []int64 { // simple8b with a chosen bit width
		v := pickIntBase(r)
		bits := []int{1, 2, 3, 4, 5, 6, 7, 8, 10, 12, 15, 20, 30, 59}[r.IntN(14)]
		out := make([]int64, n)
		for i := range out {
			out[i] = v
			d := int64(r.Uint64() >> (64 - bits))
			if r.IntN(2) == 0 {
				d = -d
			}
			v += d
		}
		return out
	}},
	{"runs-of-ones", func(r *rand.Rand, n int) []int64 { // zigzag delta 1 (= -1) runs: simple8b selectors 0/1 (240/120 ones)
		v := pickIntBase(r)
		out := make([]int64, n)
		for i := 0; i < n; {
			run := 1 + r.IntN(300)
			for j := 0; j < run && i < n; j++ {
				out[i] = v
				v--
				i++
			}
			if i < n {
				out[i] = v
				v += int64(r.IntN(50))
				i++
			}
		}
		return out
	}},
	{"simple8b-limit", func(r *rand.Rand, n int) []int64 { // deltas whose zigzag form sits on either side of simple8b.MaxValue
		v := int64(0)
		lim := []int64{-(1 << 59), (1 << 59) - 1, -(1 << 59) + 1, (1 << 59) - 2}
		over := []int64{1 << 59, -(1 << 59) - 1}
		out := make([]int64, n)
		exceed := r.IntN(3) == 0
		for i := range out {
			out[i] = v
			if exceed && r.IntN(8) == 0 {
				v += over[r.IntN(2)]
			} else if r.IntN(3) == 0 {
				v += lim[r.IntN(4)]
			} else {
				v += int64(r.IntN(100)) - 50
			}
		}
		return out
	}},
	{"overflowing-repetitive", func(r *rand.Rand, n int) []int64 { // |delta| >= 2^59, few distinct values: zstd pays
		k := 2 + r.IntN(3)
		set := make([]int64, k)
		for i := range set {
			set[i] = intExtremes[r.IntN(len(intExtremes))]
		}
		set[0], set[1] = math.MinInt64+int64(r.IntN(3)), math.MaxInt64-int64(r.IntN(3))
		out := make([]int64, n)
		for i := range out {
			out[i] = set[i%k]
		}
		return out
	}},
	{"random-64bit", func(r *rand.Rand, n int) []int64 { // incompressible
		out := make([]int64, n)
		for i := range out {
			out[i] = rndInt64(r)
		}
		return out
	}},
	{"extremes-mix", func(r *rand.Rand, n int) []int64 {
		out := make([]int64, n)
		for i := range out {
			out[i] = intExtremes[r.IntN(len(intExtremes))]
		}
		return out
	}},
	{"mostly-small-one-huge", func(r *rand.Rand, n int) []int64 {
		out := make([]int64, n)
		for i := range out {
			out[i] = int64(r.IntN(1000))
		}
		if n > 0 {
			out[r.IntN(n)] = intExtremes[r.IntN(len(intExtremes))]
		}
		return out
	}},
}

func pickIntBase(r *rand.Rand) int64 {
	switch r.IntN(4) {
	case 0:
		return intExtremes[r.IntN(len(intExtremes))]
	case 1:
		return rndInt64(r)
	default:
		return int64(r.IntN(2000000)) - 1000000
	}
}

func smallDelta(r *rand.Rand) int64 {
	switch r.IntN(5) {
	case 0:
		return 0
	case 1:
		return -int64(1 + r.IntN(1000))
	case 2:
		return int64(r.Uint64() >> 4)
	default:
		return int64(1 + r.IntN(100000))
	}
}

// ---------------------------------------------------------------- timestamps

var timeScales = []int64{1, 10, 1000, 1000000, 1000000000, 60000000000, 1000000000000, 10000000000000}

var timeGens = []intGen{
	{"regular", func(r *rand.Rand, n int) []int64 { // constant delta
		t, d := timeBase(r), timeScales[r.IntN(len(timeScales))]*int64(1+r.IntN(60))
		out := make([]int64, n)
		for i := range out {
			out[i] = t
			t += d
		}
		return out
	}},
	{"jitter-scaled", func(r *rand.Rand, n int) []int64 { // small deltas, all multiples of a power of ten (scale path)
		t, s := timeBase(r), timeScales[r.IntN(len(timeScales))]
		out := make([]int64, n)
		for i := range out {
			out[i] = t
			t += s * int64(1+r.IntN(2000))
		}
		return out
	}},
	{"jitter-mixed-scale", func(r *rand.Rand, n int) []int64 { // scale has to be lowered while scanning
		t := timeBase(r)
		out := make([]int64, n)
		for i := range out {
			out[i] = t
			t += timeScales[r.IntN(len(timeScales))] * int64(1+r.IntN(999))
		}
		return out
	}},
	{"regular-one-gap", func(r *rand.Rand, n int) []int64 {
		t, d := timeBase(r), timeScales[r.IntN(5)]*int64(1+r.IntN(60))
		out := make([]int64, n)
		gap := -1
		if n > 0 {
			gap = r.IntN(n)
		}
		for i := range out {
			out[i] = t
			t += d
			if i == gap {
				t += d * int64(1+r.IntN(1000))
			}
		}
		return out
	}},
	{"huge-gaps-repetitive", func(r *rand.Rand, n int) []int64 { // deltas >= 2^60: not simple8b; repeating pattern: snappy pays
		t := int64(math.MinInt64) + int64(r.IntN(1000))
		ds := []int64{1 << 60, (1 << 60) + 1000}
		out := make([]int64, n)
		for i := range out {
			out[i] = t
			if i%7 == 6 {
				t += ds[i%2] // stays below MaxInt64 for <= 7*7 steps only; wraps afterwards (delta is taken mod 2^64)
			} else {
				t += 1000
			}
		}
		return out
	}},
	{"random-increasing-64bit", func(r *rand.Rand, n int) []int64 { // incompressible deltas
		out := make([]int64, n)
		if n == 0 {
			return out
		}
		step := uint64(math.MaxUint64) / uint64(n+1)
		t := uint64(0)
		for i := range out {
			t += 1 + r.Uint64N(step)
			out[i] = int64(t - (1 << 63))
		}
		return out
	}},
	{"unsorted-random", func(r *rand.Rand, n int) []int64 { // block codec only (out-of-order blocks are time-sorted before files)
		out := make([]int64, n)
		for i := range out {
			out[i] = rndInt64(r)
		}
		return out
	}},
	{"duplicates", func(r *rand.Rand, n int) []int64 { // zero deltas mixed with small ones (block codec only)
		t := timeBase(r)
		out := make([]int64, n)
		for i := range out {
			out[i] = t
			if r.IntN(3) > 0 {
				t += int64(r.IntN(3)) * 1000
			}
		}
		return out
	}},
	{"negative-epoch", func(r *rand.Rand, n int) []int64 {
		t := -int64(r.Uint64() >> 2)
		out := make([]int64, n)
		for i := range out {
			out[i] = t
			t += int64(1 + r.IntN(1000000))
		}
		return out
	}},
}

// timeGensSorted are the generators that yield strictly increasing timestamps for
// realistic lengths (usable as the time column of a record).
var timeGensSorted = []string{"regular", "jitter-scaled", "jitter-mixed-scale", "regular-one-gap", "random-increasing-64bit", "negative-epoch"}

func timeBase(r *rand.Rand) int64 {
	switch r.IntN(4) {
	case 0:
		return 0
	case 1:
		return int64(r.IntN(1000))
	default:
		return 1600000000000000000 + int64(r.IntN(1000000000))*int64(1000000000)
	}
}

func genByName(gens []intGen, name string) intGen {
	for _, g := range gens {
		if g.name == name {
			return g
		}
	}
	panic("no generator " + name)
}

// strictlyIncreasing reports whether ts can be the time column of an ordered record.
func strictlyIncreasing(ts []int64) bool {
	for i := 1; i < len(ts); i++ {
		if ts[i] <= ts[i-1] {
			return false
		}
	}
	return true
}

// ---------------------------------------------------------------- floats (bit patterns)

type floatGen struct {
	name string
	f    func(r *rand.Rand, n int) []uint64
}

func fb(f float64) uint64 { return math.Float64bits(f) }

var (
	posInf  = fb(math.Inf(1))
	negInf  = fb(math.Inf(-1))
	negZero = uint64(1) << 63
)

func rndNaN(r *rand.Rand) uint64 { // any NaN payload, quiet or signalling, either sign
	m := r.Uint64() & (1<<52 - 1)
	if m == 0 {
		m = 1
	}
	return r.Uint64()&(1<<63) | 0x7FF<<52 | m
}

func rndSubnormal(r *rand.Rand) uint64 {
	m := r.Uint64() & (1<<52 - 1)
	if m == 0 {
		m = 1
	}
	return r.Uint64()&(1<<63) | m
}

var floatSpecials = []uint64{0, negZero, posInf, negInf, fb(math.MaxFloat64), fb(-math.MaxFloat64), fb(math.SmallestNonzeroFloat64),
	1<<63 | 1, fb(1), fb(-1), fb(0.1), fb(1e308), fb(-1e308), fb(4294967296), fb(4294967295), fb(9007199254740993), 0x7FF8000000000001, 0x7FF0000000000001, 0xFFF8000000000000}

func fillF(n int, f func(i int) uint64) []uint64 {
	out := make([]uint64, n)
	for i := range out {
		out[i] = f(i)
	}
	return out
}

var floatGens = []floatGen{
	{"same-value", func(r *rand.Rand, n int) []uint64 { // Same mode (all values equal), incl. 0, -0, NaN, Inf
		var v uint64
		switch r.IntN(8) {
		case 0:
			v = 0
		case 1:
			v = negZero
		case 2:
			v = rndNaN(r)
		case 3:
			v = floatSpecials[r.IntN(len(floatSpecials))]
		default:
			v = fb(float64(r.IntN(100000)) / 8)
		}
		return fillF(n, func(int) uint64 { return v })
	}},
	{"pos-neg-zero-mix", func(r *rand.Rand, n int) []uint64 { // compares equal as floats, differs in bits
		first := uint64(r.IntN(2)) << 63
		p := r.IntN(4)
		return fillF(n, func(i int) uint64 {
			if i == 0 {
				return first
			}
			if p == 0 {
				return uint64(i%2) << 63
			}
			return uint64(r.IntN(2)) << 63
		})
	}},
	{"few-runs", func(r *rand.Rand, n int) []uint64 { // <= 8 value changes: RLE
		k := 1 + r.IntN(7)
		vals := make([]uint64, k+1)
		for i := range vals {
			switch r.IntN(6) {
			case 0:
				vals[i] = 0
			case 1:
				vals[i] = floatSpecials[r.IntN(len(floatSpecials))]
			case 2:
				vals[i] = rndNaN(r)
			default:
				vals[i] = fb(float64(r.IntN(1000)) / 4)
			}
		}
		cuts := map[int]bool{}
		for i := 0; i < k && n > 1; i++ {
			cuts[1+r.IntN(n-1)] = true
		}
		cur := 0
		return fillF(n, func(i int) uint64 {
			if cuts[i] {
				cur++
			}
			return vals[cur%len(vals)]
		})
	}},
	{"nine-plus-runs", func(r *rand.Rand, n int) []uint64 { // just above the RLE limit, long runs
		k := 9 + r.IntN(4)
		return fillF(n, func(i int) uint64 {
			if n == 0 {
				return 0
			}
			return fb(float64((i * k / n) % 5))
		})
	}},
	{"integral", func(r *rand.Rand, n int) []uint64 { // all integers: Gorilla
		base := float64(r.IntN(1 << 20))
		return fillF(n, func(i int) uint64 { return fb(base + float64(r.IntN(1000)) - 500) })
	}},
	{"integral-counter", func(r *rand.Rand, n int) []uint64 { // slowly growing counter: Gorilla compresses well
		v := float64(r.IntN(1 << 30))
		return fillF(n, func(i int) uint64 { v += float64(r.IntN(4)); return fb(v) })
	}},
	{"integral-huge", func(r *rand.Rand, n int) []uint64 { // integers beyond 2^32 / 2^53, both signs
		return fillF(n, func(i int) uint64 {
			e := 32 + r.IntN(900)
			f := math.Ldexp(float64(1+r.IntN(1<<20)), e)
			if r.IntN(2) == 0 {
				f = -f
			}
			return fb(f)
		})
	}},
	{"integral-with-pos-inf", func(r *rand.Rand, n int) []uint64 {
		out := fillF(n, func(i int) uint64 { return fb(float64(r.IntN(100000))) })
		for j := 0; j < 1+r.IntN(3) && n > 0; j++ {
			out[r.IntN(n)] = posInf
		}
		return out
	}},
	{"integral-with-neg-inf", func(r *rand.Rand, n int) []uint64 {
		out := fillF(n, func(i int) uint64 { return fb(float64(r.IntN(100000))) })
		for j := 0; j < 1+r.IntN(3) && n > 0; j++ {
			out[r.IntN(n)] = negInf
		}
		return out
	}},
	{"integral-with-both-inf", func(r *rand.Rand, n int) []uint64 { // Gorilla encoder refuses: sum is NaN
		out := fillF(n, func(i int) uint64 { return fb(float64(r.IntN(100000))) })
		if n >= 2 {
			a := r.IntN(n)
			b := (a + 1 + r.IntN(n-1)) % n
			out[a], out[b] = posInf, negInf
			for j := 0; j < r.IntN(3); j++ {
				out[r.IntN(n)] = []uint64{posInf, negInf}[r.IntN(2)]
			}
		}
		return out
	}},
	{"sum-overflows-then-neg-inf", func(r *rand.Rand, n int) []uint64 { // finite values whose running sum reaches +Inf, then -Inf
		out := fillF(n, func(i int) uint64 { return fb(math.Ldexp(float64(1+r.IntN(7)), 1021)) })
		if n > 0 {
			out[n-1-r.IntN((n+3)/4)] = negInf
		}
		return out
	}},
	{"three-decimals", func(r *rand.Rand, n int) []uint64 { // non-integers with <= 3 decimals: snappy
		return fillF(n, func(i int) uint64 { return fb(float64(r.IntN(2000000)-1000000) / 1000) })
	}},
	{"one-decimal-repetitive", func(r *rand.Rand, n int) []uint64 {
		k := 9 + r.IntN(20)
		return fillF(n, func(i int) uint64 { return fb(float64((i*7)%k) / 10) })
	}},
	{"random-fraction", func(r *rand.Rand, n int) []uint64 { // many decimals: Gorilla, usually not worth it -> raw
		return fillF(n, func(i int) uint64 { return fb(r.Float64()*2000 - 1000) })
	}},
	{"random-bits-no-nan", func(r *rand.Rand, n int) []uint64 {
		return fillF(n, func(i int) uint64 {
			for {
				b := r.Uint64()
				if !math.IsNaN(math.Float64frombits(b)) {
					return b
				}
			}
		})
	}},
	{"with-nan-payloads", func(r *rand.Rand, n int) []uint64 { // NaN anywhere: snappy
		out := fillF(n, func(i int) uint64 { return fb(float64(r.IntN(100000)) / 8) })
		for j := 0; j < 1+r.IntN(5) && n > 0; j++ {
			out[r.IntN(n)] = rndNaN(r)
		}
		return out
	}},
	{"all-nan-distinct", func(r *rand.Rand, n int) []uint64 {
		return fillF(n, func(i int) uint64 { return rndNaN(r) })
	}},
	{"subnormals", func(r *rand.Rand, n int) []uint64 {
		return fillF(n, func(i int) uint64 { return rndSubnormal(r) })
	}},
	{"specials-mix", func(r *rand.Rand, n int) []uint64 {
		return fillF(n, func(i int) uint64 { return floatSpecials[r.IntN(len(floatSpecials))] })
	}},
	{"zeros-then-values", func(r *rand.Rand, n int) []uint64 { // the sampler looks at the first non-zero tenth only
		z := 0
		if n > 0 {
			z = r.IntN(n)
		}
		frac := r.IntN(2) == 0
		return fillF(n, func(i int) uint64 {
			if i < z {
				return uint64(r.IntN(5)/4) << 63 // mostly +0, sometimes -0
			}
			if frac {
				return fb(r.Float64())
			}
			return fb(float64(r.IntN(1000)))
		})
	}},
	{"integral-head-fraction-tail", func(r *rand.Rand, n int) []uint64 { // sampled head says "integers", tail is not
		cut := n/10 + 1
		return fillF(n, func(i int) uint64 {
			if i <= cut {
				return fb(float64(1 + r.IntN(1000)))
			}
			switch r.IntN(4) {
			case 0:
				return rndSubnormal(r)
			case 1:
				return negZero
			default:
				return fb(r.NormFloat64() * 1e6)
			}
		})
	}},
	{"mlf-friendly", func(r *rand.Rand, n int) []uint64 { // bounded positive values with 1-4 decimals, few zeros and negatives
		p := []float64{10, 100, 1000, 10000}[r.IntN(4)]
		m := 1 + r.IntN(100000)
		return fillF(n, func(i int) uint64 {
			switch r.IntN(20) {
			case 0:
				return 0
			case 1:
				return fb(-float64(r.IntN(m)) / p)
			}
			return fb(float64(r.IntN(m)) / p)
		})
	}},
}

// ---------------------------------------------------------------- booleans

type boolGen struct {
	name string
	f    func(r *rand.Rand, n int) []bool
}

var boolGens = []boolGen{
	{"all-true", func(r *rand.Rand, n int) []bool { return fillB(n, func(int) bool { return true }) }},
	{"all-false", func(r *rand.Rand, n int) []bool { return fillB(n, func(int) bool { return false }) }},
	{"alternating", func(r *rand.Rand, n int) []bool { return fillB(n, func(i int) bool { return i%2 == 0 }) }},
	{"random", func(r *rand.Rand, n int) []bool { return fillB(n, func(int) bool { return r.IntN(2) == 0 }) }},
	{"runs", func(r *rand.Rand, n int) []bool {
		v, left := false, 0
		return fillB(n, func(int) bool {
			if left == 0 {
				v, left = !v, 1+r.IntN(40)
			}
			left--
			return v
		})
	}},
}

func fillB(n int, f func(i int) bool) []bool {
	out := make([]bool, n)
	for i := range out {
		out[i] = f(i)
	}
	return out
}

// ---------------------------------------------------------------- strings

type strGen struct {
	name string
	f    func(r *rand.Rand, n int) [][]byte
}

var words = []string{"host", "server", "region", "us-west", "eu-central-1", "cpu", "usage_idle", "ERROR", "timeout while connecting", "ok", "温度", "é", "\x00", "\n", "a,b=c d\\\""}

func rndBytes(r *rand.Rand, n int) []byte {
	b := make([]byte, n)
	for i := 0; i+8 <= n; i += 8 {
		v := r.Uint64()
		for j := 0; j < 8; j++ {
			b[i+j] = byte(v >> (8 * j))
		}
	}
	for i := n &^ 7; i < n; i++ {
		b[i] = byte(r.Uint32())
	}
	return b
}

func fillS(n int, f func(i int) []byte) [][]byte {
	out := make([][]byte, n)
	for i := range out {
		out[i] = f(i)
	}
	return out
}

var strGens = []strGen{
	{"all-empty", func(r *rand.Rand, n int) [][]byte { return fillS(n, func(int) []byte { return []byte{} }) }},
	{"words", func(r *rand.Rand, n int) [][]byte { // compressible
		return fillS(n, func(int) []byte { return []byte(words[r.IntN(len(words))]) })
	}},
	{"log-lines", func(r *rand.Rand, n int) [][]byte {
		return fillS(n, func(i int) []byte {
			s := "2024-01-02T03:04:05Z level=" + words[r.IntN(len(words))] + " msg=\"request finished\" path=/api/v1/" + words[r.IntN(len(words))]
			return []byte(s)
		})
	}},
	{"random-bytes-short", func(r *rand.Rand, n int) [][]byte { // incompressible: falls back to uncompressed
		return fillS(n, func(int) []byte { return rndBytes(r, r.IntN(24)) })
	}},
	{"random-bytes-medium", func(r *rand.Rand, n int) [][]byte {
		return fillS(n, func(int) []byte { return rndBytes(r, r.IntN(300)) })
	}},
	{"mixed-empty-and-long", func(r *rand.Rand, n int) [][]byte {
		return fillS(n, func(int) []byte {
			switch r.IntN(6) {
			case 0:
				return []byte{}
			case 1:
				return bytesRepeat(byte('a'+r.IntN(26)), 1000+r.IntN(3000))
			default:
				return []byte(words[r.IntN(len(words))])
			}
		})
	}},
	{"one-64k-string", func(r *rand.Rand, n int) [][]byte { // one value of 64 KiB (compressible or not) among short ones
		big := -1
		if n > 0 {
			big = r.IntN(n)
		}
		rnd := r.IntN(2) == 0
		return fillS(n, func(i int) []byte {
			if i == big {
				if rnd {
					return rndBytes(r, 65536+r.IntN(3)-1)
				}
				return bytesRepeat('x', 65536+r.IntN(3)-1)
			}
			return []byte(words[r.IntN(len(words))])
		})
	}},
	{"single-bytes", func(r *rand.Rand, n int) [][]byte {
		return fillS(n, func(int) []byte { return []byte{byte(r.IntN(256))} })
	}},
}

func bytesRepeat(b byte, n int) []byte {
	out := make([]byte, n)
	for i := range out {
		out[i] = b
	}
	return out
}

// ---------------------------------------------------------------- null patterns

type nullGen struct {
	name string
	f    func(r *rand.Rand, n int) []bool // true = null
}

var nullGens = []nullGen{
	{"no-null", func(r *rand.Rand, n int) []bool { return make([]bool, n) }},
	{"all-null", func(r *rand.Rand, n int) []bool { return fillB(n, func(int) bool { return true }) }},
	{"alternating", func(r *rand.Rand, n int) []bool {
		o := r.IntN(2)
		return fillB(n, func(i int) bool { return i%2 == o })
	}},
	{"random-half", func(r *rand.Rand, n int) []bool { return fillB(n, func(int) bool { return r.IntN(2) == 0 }) }},
	{"sparse-nulls", func(r *rand.Rand, n int) []bool { return fillB(n, func(int) bool { return r.IntN(20) == 0 }) }},
	{"sparse-values", func(r *rand.Rand, n int) []bool { return fillB(n, func(int) bool { return r.IntN(20) != 0 }) }},
	{"null-head", func(r *rand.Rand, n int) []bool {
		k := r.IntN(n + 1)
		return fillB(n, func(i int) bool { return i < k })
	}},
	{"null-tail", func(r *rand.Rand, n int) []bool {
		k := r.IntN(n + 1)
		return fillB(n, func(i int) bool { return i >= k })
	}},
	{"one-value", func(r *rand.Rand, n int) []bool {
		k := 0
		if n > 0 {
			k = r.IntN(n)
		}
		return fillB(n, func(i int) bool { return i != k })
	}},
	{"one-null", func(r *rand.Rand, n int) []bool {
		k := 0
		if n > 0 {
			k = r.IntN(n)
		}
		return fillB(n, func(i int) bool { return i == k })
	}},
	{"null-blocks-of-8", func(r *rand.Rand, n int) []bool { // whole bitmap bytes null / not null
		o := r.IntN(2)
		return fillB(n, func(i int) bool { return (i/8)%2 == o })
	}},
}
