package main

// Part 2: file level. Series records go through engine/immutable.MsBuilder into a
// committed TSSP file (tmp file renamed), the file is closed and opened again from disk
// (or, for some cases, read through the reader the builder returns), and everything
// the file states is compared with the input: trailer summary, meta index items, id/time
// section, every chunk meta (segments, time ranges, columns, pre-aggregation) and every
// value of every segment, ascending and descending.

import (
	"fmt"
	"math/rand/v2"
	"os"
	"path/filepath"
	"strings"

	"github.com/openGemini/openGemini/engine/immutable"
	"github.com/openGemini/openGemini/lib/config"
	"github.com/openGemini/openGemini/lib/fileops"
	"github.com/openGemini/openGemini/lib/record"
	"github.com/openGemini/openGemini/lib/util"
	"verifharness/vf"
)

type fileCase struct {
	Part     string  `json:"part"`
	Cfg      string  `json:"cfg"`
	Seed     uint64  `json:"seed"`
	Idx      int     `json:"idx"`
	MaxRows  int     `json:"max_rows"`
	SegLimit int     `json:"seg_limit"`
	Reopen   bool    `json:"reopen"`
	Shape    string  `json:"shape"`
	NSeries  int     `json:"n_series"`
	Series   []*lrec `json:"-"`
}

func genFileCase(c *vf.Ctx, cfg string, idx int) (*fileCase, *rand.Rand) {
	r := c.Rand(streamOf("file", cfg, idx))
	fc := &fileCase{Part: "file", Cfg: cfg, Seed: c.Seed, Idx: idx}
	fc.MaxRows = []int{8, 16, 64, 1000, 1000}[r.IntN(5)]
	fc.SegLimit = 2 + r.IntN(6)
	fc.Reopen = r.IntN(4) != 0
	// measurement-wide schema: series use subsets of it
	nf := 1 + r.IntN(6)
	pool := make([]*lcol, nf)
	for i := range pool {
		typ := colTypes[r.IntN(len(colTypes))]
		pool[i] = &lcol{Name: fmt.Sprintf("f%02d_%s", i, typeNames[typ]), Typ: typ}
	}
	ns := 1 + r.IntN(8)
	fc.Shape = "few-series"
	tiny := false
	switch {
	case idx%16 == 7: // many small series: more than one meta index item (512 chunk metas per item)
		ns = 515 + r.IntN(150)
		tiny = true
		fc.Shape = "many-series"
	case r.IntN(6) == 0:
		ns = 1
		fc.Shape = "one-series"
	}
	sid := uint64(1 + r.IntN(1000))
	for s := 0; s < ns; s++ {
		var sub []*lcol
		for _, p := range pool {
			if r.IntN(3) != 0 {
				sub = append(sub, p)
			}
		}
		if len(sub) == 0 {
			sub = []*lcol{pool[r.IntN(nf)]}
		}
		var n int
		lim := fc.MaxRows * fc.SegLimit
		switch {
		case tiny:
			n = 1 + r.IntN(3)
			if len(sub) > 2 {
				sub = sub[:2]
			}
		case r.IntN(5) == 0:
			n = 1
		case r.IntN(5) == 0:
			n = lim // as many rows as a chunk may hold
		case r.IntN(4) == 0:
			n = fc.MaxRows*(1+r.IntN(fc.SegLimit-1)) + r.IntN(2)
		default:
			n = 1 + r.IntN(min(lim, fc.MaxRows*3+5))
		}
		l := genRec(r, sid, n, 0, sub)
		if !tiny && r.IntN(4) == 0 && l.canSlice() {
			l.Head, l.Tail = 1+r.IntN(23), r.IntN(9)
		}
		fc.Series = append(fc.Series, l)
		sid += 1 + uint64(r.IntN(5))
		if r.IntN(10) == 0 {
			sid += uint64(r.IntN(1 << 30))
		}
	}
	fc.NSeries = ns
	return fc, r
}

type fileEnv struct {
	asc, desc *immutable.ReadContext
	dst       *record.Record
	dir       string
	seq       uint64
	raw       []byte
}

func newFileEnv(c *vf.Ctx) *fileEnv {
	return &fileEnv{asc: immutable.NewReadContext(true), desc: immutable.NewReadContext(false), dst: &record.Record{},
		dir: filepath.Join(c.Scratch, "tssp")}
}

func stripPaths(s, dir string) string { return strings.ReplaceAll(s, dir, "<dir>") }

func runFileCase(c *vf.Ctx, env *fileEnv, fc *fileCase, r *rand.Rand) {
	c.LogInput(fc)
	c.Eval(1)
	c.Count("files", 1)
	c.Count("file-shape/"+fc.Shape, 1)
	env.seq++
	dir := filepath.Join(env.dir, fmt.Sprintf("f%d", env.seq))
	_ = os.MkdirAll(dir, 0o750)
	defer os.RemoveAll(dir)

	curSeries := -1
	report := func(class, what string, w *segWitness) {
		wit := map[string]any{"case": fc, "detail": w}
		if curSeries >= 0 {
			l := fc.Series[curSeries]
			wit["series_index"] = curSeries
			if l.rows() <= 300 {
				wit["series"] = l
			}
		}
		c.Violation("file/"+class, stripPaths(what, dir), wit)
	}

	conf := immutable.NewTsStoreConfig()
	conf.SetMaxRowsPerSegment(fc.MaxRows)
	conf.SetMaxSegmentLimit(fc.SegLimit)
	lockPath := ""
	var f immutable.TSSPFile
	var err error
	if p := vf.Catch(func() {
		fileName := immutable.NewTSSPFileName(env.seq, 0, 0, 0, true, &lockPath)
		msb := immutable.NewMsBuilder(dir, "mst", &lockPath, conf, len(fc.Series), fileName, util.Hot, nil, 2, config.TSSTORE, nil, 0)
		for i, l := range fc.Series {
			curSeries = i
			if err = msb.WriteData(l.Sid, l.build(r)); err != nil {
				return
			}
		}
		curSeries = -1
		f, err = msb.NewTSSPFile(true)
		if err == nil && f != nil {
			err = immutable.RenameTmpFiles([]immutable.TSSPFile{f})
		}
	}); p != nil {
		class := "write-panic:"
		if curSeries >= 0 {
			class = "write-panic/" + panicInputClass(fc.Series[curSeries]) + ":"
		}
		report(class+trimPanic(p), fmt.Sprintf("writing the file panicked (series index %d): %v", curSeries, p), nil)
		return
	}
	if err != nil || f == nil {
		report("write-error:"+errClass(stripPaths(fmt.Sprint(err), dir)), fmt.Sprintf("writing the file failed (series index %d): %v", curSeries, err), nil)
		return
	}
	curSeries = -1
	path := f.Path()
	if strings.HasSuffix(path, ".init") {
		report("commit/not-renamed", "the committed file still carries the temporary suffix: "+path, nil)
	}
	if fc.Reopen {
		if err = f.Close(); err != nil {
			report("close-error", fmt.Sprintf("closing the written file failed: %v", err), nil)
			return
		}
		if p := vf.Catch(func() { f, err = immutable.OpenTSSPFile(path, &lockPath, true) }); p != nil {
			report("open-panic:"+trimPanic(p), fmt.Sprintf("opening the committed file panicked: %v", p), nil)
			return
		}
		if err != nil || f == nil {
			report("open-error:"+errClass(stripPaths(fmt.Sprint(err), dir)), fmt.Sprintf("opening the committed file failed: %v", err), nil)
			return
		}
		c.Count("files-reopened-from-disk", 1)
		reached("file-layout/reopened-from-disk")
	} else {
		reached("file-layout/read-through-builder-reader")
	}
	defer func() { _ = f.Close() }()

	if p := vf.Catch(func() { verifyFile(c, env, fc, f, report, &curSeries) }); p != nil {
		report("read-panic:"+trimPanic(p), fmt.Sprintf("reading the file panicked (series index %d): %v", curSeries, p), nil)
	}
}

func verifyFile(c *vf.Ctx, env *fileEnv, fc *fileCase, f immutable.TSSPFile, report func(class, what string, w *segWitness), cur *int) {
	prio := fileops.IO_PRIORITY_ULTRA_HIGH
	ser := fc.Series
	// ---- trailer
	var minT, maxT int64
	for i, l := range ser {
		a, b := int64(l.Times[0]), int64(l.Times[l.rows()-1])
		if i == 0 || a < minT {
			minT = a
		}
		if i == 0 || b > maxT {
			maxT = b
		}
	}
	tMinID, tMaxID, tCount, tMinT, tMaxT := immutable.VerifTrailerInfo(f.FileStat())
	if tMinID != ser[0].Sid || tMaxID != ser[len(ser)-1].Sid || tCount != int64(len(ser)) {
		report("trailer/ids", fmt.Sprintf("trailer says ids %d..%d count %d; written %d..%d count %d", tMinID, tMaxID, tCount, ser[0].Sid, ser[len(ser)-1].Sid, len(ser)), nil)
	}
	if tMinT != minT || tMaxT != maxT {
		report("trailer/time-range", fmt.Sprintf("trailer says times %d..%d; written %d..%d", tMinT, tMaxT, minT, maxT), nil)
	}
	if a, b, err := f.MinMaxTime(); err != nil || a != minT || b != maxT {
		report("file/min-max-time", fmt.Sprintf("MinMaxTime() = %d..%d (%v); written %d..%d", a, b, err, minT, maxT), nil)
	}
	// ---- id/time section
	p := &immutable.IdTimePairs{Name: "mst"}
	if err := f.LoadIdTimes(p); err != nil {
		report("idtime/load-error", fmt.Sprintf("LoadIdTimes failed: %v", err), nil)
	} else if len(p.Ids) != len(ser) || len(p.Tms) != len(ser) || len(p.Rows) != len(ser) {
		report("idtime/count", fmt.Sprintf("id/time section has %d ids, %d times, %d row counts for %d series", len(p.Ids), len(p.Tms), len(p.Rows), len(ser)), nil)
	} else {
		for i, l := range ser {
			if p.Ids[i] != l.Sid || p.Tms[i] != int64(l.Times[l.rows()-1]) || p.Rows[i] != int64(l.rows()) {
				*cur = i
				report("idtime/entry", fmt.Sprintf("id/time entry %d is (id %d, last time %d, rows %d); written (id %d, last time %d, rows %d)",
					i, p.Ids[i], p.Tms[i], p.Rows[i], l.Sid, l.Times[l.rows()-1], l.rows()), nil)
				*cur = -1
				break
			}
		}
		c.Count("idtime-entries-compared", int64(len(ser)))
	}
	// ---- meta index items and chunk metas
	items := int(f.MetaIndexItemNum())
	c.Count("meta-index-items", int64(items))
	if fc.Cfg == baseCfg && (fc.Idx == 1 || fc.Idx == 7) {
		c.Sample(map[string]any{"part": "file", "cfg": fc.Cfg, "series": len(ser), "rows_per_segment": fc.MaxRows, "segment_limit": fc.SegLimit,
			"reopened_from_disk": fc.Reopen, "meta_index_items": items, "file_bytes": f.FileSize()})
	}
	if items > 1 {
		c.Distinct("file-layout", "several-meta-index-items")
		reached("file-layout/several-meta-index-items")
	} else {
		c.Distinct("file-layout", "one-meta-index-item")
	}
	si := 0
	var cms []immutable.ChunkMeta
	for mi := 0; mi < items; mi++ {
		m, err := f.MetaIndexAt(mi)
		if err != nil {
			report("metaindex/read-error", fmt.Sprintf("MetaIndexAt(%d): %v", mi, err), nil)
			return
		}
		cms, err = f.ReadChunkMetaData(mi, m, nil, prio)
		if err != nil {
			report("chunkmeta/read-error:"+errClass(err.Error()), fmt.Sprintf("ReadChunkMetaData(%d): %v", mi, err), nil)
			return
		}
		if int(m.GetCount()) != len(cms) {
			report("metaindex/count", fmt.Sprintf("meta index item %d says %d chunk metas, block holds %d", mi, m.GetCount(), len(cms)), nil)
		}
		if si+len(cms) > len(ser) {
			report("chunkmeta/too-many", fmt.Sprintf("file lists more than the %d series written", len(ser)), nil)
			return
		}
		if len(cms) == 0 {
			report("metaindex/empty", fmt.Sprintf("meta index item %d has no chunk meta", mi), nil)
			return
		}
		var bMin, bMax int64
		for k := range cms {
			l := ser[si+k]
			a, b := int64(l.Times[0]), int64(l.Times[l.rows()-1])
			if k == 0 || a < bMin {
				bMin = a
			}
			if k == 0 || b > bMax {
				bMax = b
			}
		}
		mMin, mMax := immutable.VerifMetaIndexTimes(m)
		if m.GetID() != ser[si].Sid || mMin != bMin || mMax != bMax {
			report("metaindex/entry", fmt.Sprintf("meta index item %d says first id %d times %d..%d; its series start at id %d and span %d..%d",
				mi, m.GetID(), mMin, mMax, ser[si].Sid, bMin, bMax), nil)
		}
		for k := range cms {
			*cur = si + k
			l := ser[si+k]
			cm := &cms[k]
			if !verifyChunkMeta(c, l, cm, fc.MaxRows, report) {
				return
			}
			c.Count("series-compared", 1)
			if l.Head > 0 {
				c.Count("series-from-sliced-record", 1)
			}
			segs := cm.SegmentCount()
			if segs > 1 {
				c.Nontrivial(fmt.Sprintf("file-series/segments=%d/cols=%d", min(segs, 8), len(l.Cols)))
			}
			okc := decodeAndCompare(c, l, fc.MaxRows, segs, report, func(seg int, asc bool, dst *record.Record) error {
				ctx := env.asc
				if !asc {
					ctx = env.desc
				}
				out, err := f.ReadAt(cm, seg, dst, ctx, prio)
				if err == nil && out == nil {
					return fmt.Errorf("ReadAt returned no record")
				}
				return err
			}, env.dst)
			if !okc {
				return
			}
			c.Count("segments-compared", int64(segs))
			// header kinds and block modes as stored in the file
			colMetas := cm.GetColMeta()
			for ci := range colMetas {
				typ := "time"
				if ci < len(l.Cols) {
					typ = typeNames[l.Cols[ci].Typ]
				}
				for s := 0; s < segs; s++ {
					seg := colMetas[ci].GetSegment(s)
					off, size := seg.OffsetSize()
					data, err := f.ReadData(off, size, &env.raw, prio)
					if err != nil || len(data) == 0 {
						report("segment/raw-read-error", fmt.Sprintf("ReadData(%d,%d) for column %d segment %d: %d bytes, %v", off, size, ci, s, len(data), err), nil)
						return
					}
					noteSegmentModes(c, typ, data, l, ci, s, fc.MaxRows)
				}
			}
			// the query path: locate the series by id
			if k%37 == 0 || len(ser) < 20 {
				idx, m2, err := f.MetaIndex(l.Sid, util.TimeRange{Min: int64(l.Times[0]), Max: int64(l.Times[0])})
				if err != nil || m2 == nil {
					report("lookup/metaindex-miss", fmt.Sprintf("MetaIndex(id %d, its first time) found nothing (err %v)", l.Sid, err), nil)
					return
				}
				cm2, err := f.ChunkMeta(l.Sid, m2.GetOffset(), m2.GetSize(), m2.GetCount(), idx, nil, prio)
				if err != nil || cm2 == nil || cm2.GetSid() != l.Sid || cm2.SegmentCount() != segs {
					report("lookup/chunkmeta-miss", fmt.Sprintf("ChunkMeta(id %d) via meta index item %d: %v (err %v)", l.Sid, idx, cm2, err), nil)
					return
				}
				if ok, err := f.Contains(l.Sid); err != nil || !ok {
					report("lookup/bloom-miss", fmt.Sprintf("Contains(id %d) = %v, %v for a series of the file", l.Sid, ok, err), nil)
					return
				}
				c.Count("series-lookups", 1)
			}
		}
		si += len(cms)
	}
	*cur = -1
	if si != len(ser) {
		report("chunkmeta/missing-series", fmt.Sprintf("%d series written, file lists %d", len(ser), si), nil)
	}
}
