package main

// Part 3: the row codec shared by the write-ahead log and the store RPC
// (influx.FastMarshalMultiRows / FastUnmarshalMultiRows, with the object pools re-used
// from batch to batch as WAL replay does) and the record codec (record.Marshal /
// Unmarshal).

import (
	"bytes"
	"fmt"
	"math/rand/v2"

	"github.com/openGemini/openGemini/lib/record"
	"github.com/openGemini/openGemini/lib/util"
	"github.com/openGemini/openGemini/lib/util/lifted/vm/protoparser/influx"
	"verifharness/vf"
)

type lfield struct {
	Key  []byte `json:"key"`
	Type int32  `json:"type"`
	Num  hexU64 `json:"num"`
	Str  []byte `json:"str,omitempty"`
}

type lidx struct {
	Oid  uint32   `json:"oid"`
	List []uint16 `json:"list"`
}

type lrow struct {
	Name     []byte      `json:"name"`
	Tags     [][2][]byte `json:"tags"`
	Fields   []lfield    `json:"fields"`
	Ts       decI64      `json:"ts"`
	ShardKey []byte      `json:"shard_key,omitempty"`
	SkipSK   bool        `json:"skip_shard_key,omitempty"`
	Idx      []lidx      `json:"index_options,omitempty"`
}

type rowsCase struct {
	Part  string `json:"part"`
	Cfg   string `json:"cfg"`
	Seed  uint64 `json:"seed"`
	Idx   int    `json:"idx"`
	Shape string `json:"shape"`
	Rows  []lrow `json:"rows"`
}

func genName(r *rand.Rand, max int) []byte {
	switch r.IntN(12) {
	case 0:
		return bytesRepeat(byte('a'+r.IntN(26)), max) // the longest the parser accepts
	case 1:
		return rndPrintable(r, 1+r.IntN(max))
	case 2:
		return []byte("温度_" + words[r.IntN(len(words))])
	default:
		return []byte(fmt.Sprintf("%s_%d", words[r.IntN(11)], r.IntN(50)))
	}
}

func rndPrintable(r *rand.Rand, n int) []byte {
	b := make([]byte, n)
	for i := range b {
		b[i] = byte(33 + r.IntN(94))
	}
	return b
}

// genRow draws one row inside the limits the line-protocol parser enforces
// (measurement with version suffix <= 255 bytes, tag/field keys <= 255, tag values <=
// 64 KiB); `wide` additionally uses the largest accepted sizes.
func genRow(r *rand.Rand, wide bool) lrow {
	var w lrow
	w.Name = append(genName(r, util.MaxMeasurementLength), []byte("_0000")...)
	nt := r.IntN(7)
	for i := 0; i < nt; i++ {
		k := append([]byte(fmt.Sprintf("t%02d", i)), genName(r, 40)...)
		var v []byte
		switch {
		case wide && r.IntN(6) == 0:
			v = bytesRepeat('v', []int{util.MaxTagValueLength, util.MaxTagValueLength - 1, 4096, util.MaxTagValueLength}[r.IntN(4)]) // the longest value the line-protocol parser accepts
		case r.IntN(10) == 0:
			v = rndPrintable(r, 1+r.IntN(300))
		default:
			v = []byte(words[r.IntN(11)])
		}
		if wide && r.IntN(10) == 0 {
			k = bytesRepeat('k', util.MaxTagNameLength)
			k[0] = byte('a' + i)
		}
		w.Tags = append(w.Tags, [2][]byte{k, v})
	}
	nf := 1 + r.IntN(8)
	for i := 0; i < nf; i++ {
		f := lfield{Key: append([]byte(fmt.Sprintf("f%02d", i)), genName(r, 30)...)}
		if wide && r.IntN(10) == 0 {
			f.Key = bytesRepeat('F', util.MaxFieldNameLength)
			f.Key[1] = byte('a' + i)
		}
		switch r.IntN(4) {
		case 0:
			f.Type = influx.Field_Type_Int
			f.Num = hexU64(fb(float64(rndInt64(r) >> uint(r.IntN(64)))))
		case 1:
			f.Type = influx.Field_Type_Float
			if r.IntN(3) == 0 {
				f.Num = hexU64(floatSpecials[r.IntN(len(floatSpecials))])
			} else if r.IntN(8) == 0 {
				f.Num = hexU64(rndNaN(r))
			} else {
				f.Num = hexU64(fb(r.NormFloat64() * 1000))
			}
		case 2:
			f.Type = influx.Field_Type_Boolean
			f.Num = hexU64(fb(float64(r.IntN(2))))
		default:
			f.Type = influx.Field_Type_String
			switch {
			case wide && r.IntN(5) == 0:
				f.Str = rndBytes(r, 65536+r.IntN(70000))
			case r.IntN(6) == 0:
				f.Str = []byte{}
			default:
				f.Str = strGens[1+r.IntN(4)].f(r, 1)[0]
			}
		}
		w.Fields = append(w.Fields, f)
	}
	switch r.IntN(5) {
	case 0:
		w.Ts = decI64(intExtremes[r.IntN(len(intExtremes))])
	default:
		w.Ts = decI64(timeBase(r) + int64(r.IntN(1000000)))
	}
	switch r.IntN(4) {
	case 0:
		w.SkipSK = true
		w.ShardKey = rndBytes(r, 8)
	case 1:
		w.ShardKey = rndBytes(r, r.IntN(60))
	}
	if r.IntN(4) == 0 {
		for i := 0; i < 1+r.IntN(3); i++ {
			o := lidx{Oid: r.Uint32(), List: []uint16{}}
			for j := 0; j < r.IntN(9); j++ {
				o.List = append(o.List, uint16(r.Uint32()))
			}
			w.Idx = append(w.Idx, o)
		}
	}
	return w
}

func genRowsCase(c *vf.Ctx, cfg string, idx int) *rowsCase {
	r := c.Rand(streamOf("rows", cfg, idx))
	rc := &rowsCase{Part: "rows", Cfg: cfg, Seed: c.Seed, Idx: idx, Shape: "normal"}
	n := 1 + r.IntN(30)
	wide := false
	switch idx % 20 {
	case 3:
		n = 200 + r.IntN(400)
		rc.Shape = "many-rows"
	case 11:
		wide = true
		n = 1 + r.IntN(6)
		rc.Shape = "largest-accepted-sizes"
	case 17:
		n = 1
		rc.Shape = "single-row"
	}
	for i := 0; i < n; i++ {
		rc.Rows = append(rc.Rows, genRow(r, wide))
	}
	return rc
}

func (w *lrow) toRow() influx.Row {
	var row influx.Row
	row.Name = string(w.Name)
	row.Timestamp = int64(w.Ts)
	row.ShardKey = append([]byte(nil), w.ShardKey...)
	if w.SkipSK {
		row.SkipMarshalShardKey()
	}
	for _, t := range w.Tags {
		row.Tags = append(row.Tags, influx.Tag{Key: string(t[0]), Value: string(t[1])})
	}
	for _, f := range w.Fields {
		row.Fields = append(row.Fields, influx.Field{Key: string(f.Key), Type: f.Type, NumValue: f64(f.Num), StrValue: string(f.Str)})
	}
	for _, o := range w.Idx {
		row.IndexOptions = append(row.IndexOptions, influx.IndexOption{Oid: o.Oid, IndexList: append([]uint16(nil), o.List...)})
	}
	return row
}

func toRows(ws []lrow) []influx.Row {
	rows := make([]influx.Row, len(ws))
	for i := range ws {
		rows[i] = ws[i].toRow()
	}
	return rows
}

// diffRow compares a decoded row with what was encoded; "" when identical.
func diffRow(w *lrow, g *influx.Row) (string, string) {
	if g.Name != string(w.Name) {
		return "name", fmt.Sprintf("measurement %.40q (%d bytes) decoded as %.40q (%d bytes)", w.Name, len(w.Name), g.Name, len(g.Name))
	}
	if g.Timestamp != int64(w.Ts) {
		return "timestamp", fmt.Sprintf("timestamp %d decoded as %d", w.Ts, g.Timestamp)
	}
	wantSK := w.ShardKey
	if w.SkipSK {
		wantSK = nil
	}
	if !bytes.Equal(g.ShardKey, wantSK) {
		return "shard-key", fmt.Sprintf("shard key %x decoded as %x", wantSK, g.ShardKey)
	}
	if len(g.Tags) != len(w.Tags) {
		return "tag-count", fmt.Sprintf("%d tags decoded as %d", len(w.Tags), len(g.Tags))
	}
	for i, t := range w.Tags {
		if g.Tags[i].Key != string(t[0]) {
			return "tag-key", fmt.Sprintf("tag %d key (%d bytes) decoded as %d bytes", i, len(t[0]), len(g.Tags[i].Key))
		}
		if g.Tags[i].Value != string(t[1]) {
			return fmt.Sprintf("tag-value/len=%s", lenClass(len(t[1]))), fmt.Sprintf("tag %d value (%d bytes) decoded as %d bytes", i, len(t[1]), len(g.Tags[i].Value))
		}
	}
	if len(g.Fields) != len(w.Fields) {
		return "field-count", fmt.Sprintf("%d fields decoded as %d", len(w.Fields), len(g.Fields))
	}
	for i, f := range w.Fields {
		gf := &g.Fields[i]
		if gf.Key != string(f.Key) {
			return "field-key", fmt.Sprintf("field %d key (%d bytes) decoded as %d bytes", i, len(f.Key), len(gf.Key))
		}
		if gf.Type != f.Type {
			return "field-type", fmt.Sprintf("field %d type %d decoded as %d", i, f.Type, gf.Type)
		}
		if f.Type == influx.Field_Type_String {
			if gf.StrValue != string(f.Str) {
				return "field-string", fmt.Sprintf("field %d string (%d bytes) decoded as %d bytes", i, len(f.Str), len(gf.StrValue))
			}
		} else if fb(gf.NumValue) != uint64(f.Num) {
			return "field-number", fmt.Sprintf("field %d number bits %016x decoded as %016x", i, uint64(f.Num), fb(gf.NumValue))
		}
	}
	if len(g.IndexOptions) != len(w.Idx) {
		return "index-option-count", fmt.Sprintf("%d index options decoded as %d", len(w.Idx), len(g.IndexOptions))
	}
	for i, o := range w.Idx {
		go_ := &g.IndexOptions[i]
		if go_.Oid != o.Oid || len(go_.IndexList) != len(o.List) {
			return "index-option", fmt.Sprintf("index option %d (oid %d, %d entries) decoded as (oid %d, %d entries)", i, o.Oid, len(o.List), go_.Oid, len(go_.IndexList))
		}
		for j := range o.List {
			if go_.IndexList[j] != o.List[j] {
				return "index-option", fmt.Sprintf("index option %d entry %d: %d decoded as %d", i, j, o.List[j], go_.IndexList[j])
			}
		}
	}
	return "", ""
}

func lenClass(n int) string {
	switch {
	case n > 65535:
		return ">65535"
	case n == 65535:
		return "65535"
	case n > 255:
		return "256..65534"
	}
	return "<=255"
}

type rowsEnv struct {
	rows   []influx.Row
	tags   []influx.Tag
	fields []influx.Field
	opts   []influx.IndexOption
	keys   []byte
	rndP   *rand.Rand
}

func (e *rowsEnv) reset() { *e = rowsEnv{rndP: e.rndP} }

func runRowsCase(c *vf.Ctx, env *rowsEnv, rc *rowsCase) {
	c.LogInput(rc)
	c.Eval(1)
	c.Count("row-batches", 1)
	c.Count("row-batch-shape/"+rc.Shape, 1)
	in := toRows(rc.Rows)
	var bin []byte
	var err error
	if p := vf.Catch(func() { bin, err = influx.FastMarshalMultiRows(nil, in) }); p != nil {
		c.Violation("rows/marshal-panic:"+trimPanic(p), fmt.Sprintf("FastMarshalMultiRows panicked on %d rows: %v", len(in), p), rc)
		return
	}
	if err != nil {
		c.Violation("rows/marshal-error:"+err.Error(), fmt.Sprintf("FastMarshalMultiRows failed on %d rows: %v", len(in), err), rc)
		return
	}
	// decode with the pools of the previous batch, as WAL replay does (putWalRowsObjects keeps
	// the slices and truncates them to length 0)
	var out []influx.Row
	if p := vf.Catch(func() {
		out, env.tags, env.fields, env.opts, env.keys, err = influx.FastUnmarshalMultiRows(bin, env.rows[:0], env.tags[:0], env.fields[:0], env.opts[:0], env.keys[:0])
	}); p != nil {
		c.Violation("rows/unmarshal-panic/"+rowsFeature(rc)+":"+trimPanic(p), fmt.Sprintf("FastUnmarshalMultiRows panicked on a batch FastMarshalMultiRows produced (%d rows, pools re-used): %v", len(in), p), rc)
		env.reset()
		return
	}
	if err != nil {
		c.Violation("rows/unmarshal-error:"+err.Error(), fmt.Sprintf("FastUnmarshalMultiRows rejected a batch FastMarshalMultiRows produced: %v", err), rc)
		env.reset()
		return
	}
	env.rows = out
	if len(out) != len(rc.Rows) {
		c.Violation("rows/row-count", fmt.Sprintf("%d rows encoded, %d decoded", len(rc.Rows), len(out)), rc)
		return
	}
	for i := range rc.Rows {
		if class, msg := diffRow(&rc.Rows[i], &out[i]); class != "" {
			c.Violation("rows/mismatch/"+class, fmt.Sprintf("row %d of %d: %s", i, len(out), msg), rc)
			return
		}
		// IndexKey is derived while decoding: it must be the index key of the decoded name and tags
		want := influx.MakeIndexKey(out[i].Name, out[i].Tags, nil)
		if !bytes.Equal(out[i].IndexKey, want) {
			c.Violation("rows/mismatch/index-key", fmt.Sprintf("row %d: derived IndexKey differs from MakeIndexKey(name, tags)", i), rc)
			return
		}
	}
	c.Count("rows-compared", int64(len(out)))
	if rc.Idx == 0 || rc.Idx == 11 {
		c.Sample(map[string]any{"part": "rows", "shape": rc.Shape, "rows": len(out), "encoded_bytes": len(bin), "features": rowsFeature(rc)})
	}
	feat := rowsFeature(rc)
	c.Distinct("row-batch-features", feat)
	if len(out) > 1 || feat != "plain" {
		c.Nontrivial("rows/" + rc.Shape + "/" + feat)
	}

	// a batch cut short is never accepted as a batch: every strict prefix in the thorough tier (a
	// sample of ~700 for batches beyond 1500 bytes); in the quick tier every cut inside the first 48
	// and the last 8 bytes plus ~60 spread over the rest
	lim := len(bin)
	step := 1
	if c.Thorough() {
		if lim > 1500 {
			step = lim / 700
		}
	} else if lim > 120 {
		step = (lim-56)/60 + 1
	}
	// the cuts exactly between two rows are the ones only the row count can expose: always probed
	var bounds []int
	if step > 1 {
		off := 5
		for i := 0; i < len(in)-1 && i < 24; i++ {
			rb, rerr := in[i].FastMarshalBinary(nil)
			if rerr != nil {
				break
			}
			off += len(rb)
			bounds = append(bounds, off)
		}
	}
	for p := -len(bounds); p < lim; {
		at := p
		if p < 0 {
			at = bounds[len(bounds)+p]
			p++
		} else if step > 1 && p >= 48 && p < lim-8 {
			at += env.rndP.IntN(step)
			p += step
			if at >= lim-8 {
				p = lim - 8
				continue
			}
		} else {
			p++
		}
		var rows []influx.Row
		var perr error
		pre := append([]byte(nil), bin[:at]...) // exact capacity: an over-read panics instead of reading stale bytes
		// the probes use pools of their own so that the main pools keep the history WAL replay would give them
		if pn := vf.Catch(func() {
			rows, _, _, _, _, perr = influx.FastUnmarshalMultiRows(pre, nil, nil, nil, nil, nil)
		}); pn != nil {
			// a batch cut short reaches this decoder only if the snappy frame or the RPC framing around it
			// was damaged, which is outside the property (see assumptions): counted, not judged
			c.Count("row-batch-prefix/panic", 1)
			c.Distinct("row-batch-prefix-panics", trimPanic(pn))
			continue
		}
		c.Count("row-batch-prefixes", 1)
		if perr == nil && len(rows) > 0 {
			c.Violation("rows/prefix-accepted", fmt.Sprintf("the first %d of %d bytes of a valid batch were decoded into %d rows without an error", at, lim, len(rows)),
				map[string]any{"case": rc, "prefix_len": at})
			return
		}
		if perr == nil {
			c.Count("row-batch-prefix/no-error-zero-rows", 1)
		}
	}
}

func rowsFeature(rc *rowsCase) string {
	idx, sk, big, empty := false, false, false, false
	for i := range rc.Rows {
		w := &rc.Rows[i]
		idx = idx || len(w.Idx) > 0
		sk = sk || len(w.ShardKey) > 0
		empty = empty || len(w.Tags) == 0
		for _, f := range w.Fields {
			big = big || len(f.Str) > 65535
		}
		for _, t := range w.Tags {
			big = big || len(t[1]) >= 65535
		}
	}
	s := ""
	if idx {
		s += "+index-options"
	}
	if sk {
		s += "+shard-key"
	}
	if big {
		s += "+64k-values"
	}
	if empty {
		s += "+no-tags"
	}
	if s == "" {
		return "plain"
	}
	return s[1:]
}

// ---------------------------------------------------------------- record codec

type recCase struct {
	Part string `json:"part"`
	Cfg  string `json:"cfg"`
	Seed uint64 `json:"seed"`
	Idx  int    `json:"idx"`
	Rec  *lrec  `json:"rec"`
}

func genRecCase(c *vf.Ctx, cfg string, idx int) (*recCase, *rand.Rand) {
	r := c.Rand(streamOf("rec", cfg, idx))
	n := pickLen(r, 1200)
	if n == 0 {
		n = 1
	}
	l := genRec(r, 0, n, 6, nil)
	if r.IntN(3) == 0 && l.canSlice() {
		l.Head, l.Tail = 1+r.IntN(23), r.IntN(9)
	}
	return &recCase{Part: "rec", Cfg: cfg, Seed: c.Seed, Idx: idx, Rec: l}, r
}

func runRecCase(c *vf.Ctx, rc *recCase, r *rand.Rand, reuse *record.Record) {
	c.LogInput(rc)
	c.Eval(1)
	c.Count("record-codec-cases", 1)
	l := rc.Rec
	var buf []byte
	var size int
	if p := vf.Catch(func() {
		rec := l.build(r)
		size = rec.CodecSize()
		buf = rec.Marshal(nil)
	}); p != nil {
		c.Violation("record/marshal-panic:"+trimPanic(p), fmt.Sprintf("record.Marshal panicked: %v", p), rc)
		return
	}
	if size != len(buf) {
		c.Violation("record/codec-size", fmt.Sprintf("CodecSize() = %d, Marshal produced %d bytes", size, len(buf)), rc)
		return
	}
	if p := vf.Catch(func() { reuse.Unmarshal(buf) }); p != nil {
		c.Violation("record/unmarshal-panic:"+trimPanic(p), fmt.Sprintf("record.Unmarshal panicked on Marshal's output: %v", p), rc)
		*reuse = record.Record{}
		return
	}
	want := schemaOf(l.Cols)
	if len(reuse.Schema) != len(want) || len(reuse.ColVals) != len(want) {
		c.Violation("record/mismatch/column-count", fmt.Sprintf("%d columns encoded, %d schema entries and %d columns decoded", len(want), len(reuse.Schema), len(reuse.ColVals)), rc)
		return
	}
	for i := range want {
		if reuse.Schema[i].Name != want[i].Name || reuse.Schema[i].Type != want[i].Type {
			c.Violation("record/mismatch/schema", fmt.Sprintf("schema entry %d: %v decoded as %v", i, want[i], reuse.Schema[i]), rc)
			return
		}
		var exp *lcol
		if i < len(l.Cols) {
			exp = l.Cols[i]
		} else {
			exp = &lcol{Name: record.TimeField, Typ: tInt, Null: make([]bool, l.rows()), I: l.Times}
		}
		got, err := fromColVal(exp.Typ, &reuse.ColVals[i])
		if err != nil {
			c.Violation("record/mismatch/malformed-colval/"+typeNames[exp.Typ], fmt.Sprintf("column %s: %v", exp.Name, err), rc)
			return
		}
		if d := diffCol(exp, got); d != "" {
			c.Violation("record/mismatch/"+typeNames[exp.Typ]+":"+diffClass(exp, got), fmt.Sprintf("column %s: %s", exp.Name, d), rc)
			return
		}
	}
	c.Count("record-codec-columns-compared", int64(len(want)))
	if rc.Idx == 0 {
		c.Sample(map[string]any{"part": "record-codec", "rows": l.rows(), "columns": panicInputClass(l), "sliced_input": l.Head > 0, "encoded_bytes": len(buf)})
	}
	if l.Head > 0 {
		c.Count("record-codec-sliced-input", 1)
		c.Nontrivial(fmt.Sprintf("record-codec/sliced/cols=%d", len(l.Cols)))
	} else {
		c.Nontrivial(fmt.Sprintf("record-codec/cols=%d", len(l.Cols)))
	}
}
