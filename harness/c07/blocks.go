package main

// Part 1a: the block codecs of lib/encoding called the way the column builder and the
// segment readers call them: Encode*Block appends to a buffer that already holds the
// column header, Decode*Block reads from an arbitrary offset of the chunk into an empty
// (re-used) value buffer; one CoderContext serves many blocks.

import (
	"bytes"
	"encoding/binary"
	"fmt"
	"math/rand/v2"

	"github.com/openGemini/openGemini/lib/encoding"
	"verifharness/vf"
)

type blockCase struct {
	Part   string   `json:"part"`
	Cfg    string   `json:"cfg"`
	Seed   uint64   `json:"seed"`
	Idx    int      `json:"idx"`
	Typ    string   `json:"typ"` // int | time | float | bool | string
	Gen    string   `json:"gen"`
	N      int      `json:"n"`
	Prefix int      `json:"prefix"` // bytes already in the output buffer (the column header)
	Spare  int      `json:"spare"`  // spare capacity of the output buffer
	InOff  int      `json:"in_off"` // offset of the encoded block inside the buffer handed to the decoder
	Tail   bool     `json:"tail"`   // other data follows the block in that buffer's capacity
	I      []decI64 `json:"i,omitempty"`
	F      []hexU64 `json:"f,omitempty"`
	B      []bool   `json:"b,omitempty"`
	S      [][]byte `json:"s,omitempty"`
}

var blockTypes = []string{"int", "time", "float", "bool", "string"}

var modeNames = map[string]map[byte]string{
	"int":    {1: "const-delta", 2: "simple8b", 3: "zstd", 4: "raw"},
	"time":   {1: "const-delta", 2: "simple8b", 3: "snappy", 4: "raw"},
	"float":  {0: "raw", 1: "old-gorilla", 2: "snappy", 3: "gorilla", 4: "same", 5: "rle", 6: "mlf"},
	"string": {0: "raw", 1: "snappy", 2: "zstd", 3: "lz4"},
	"bool":   {1: "bitpack"},
}

func modeName(typ string, b byte) string {
	if s, ok := modeNames[typ][b>>4]; ok {
		return s
	}
	return fmt.Sprintf("unknown-%d", b>>4)
}

func genBlockCase(c *vf.Ctx, cfg string, idx int) *blockCase {
	r := c.Rand(streamOf("block", cfg, idx))
	bc := &blockCase{Part: "block", Cfg: cfg, Seed: c.Seed, Idx: idx}
	bc.Typ = blockTypes[idx%len(blockTypes)]
	k := idx / len(blockTypes) // walks through the generators of the type, so few cases already cover each
	if only := onlyType(cfg); only != "" {
		bc.Typ, k = only, idx
	}
	n := pickLen(r, 3200)
	if r.IntN(40) == 0 {
		// a block is at most one segment: 1000 rows by default, 8192 in the column store;
		// under the default codecs also try blocks beyond RLEBlockLimit (16384), which need
		// max-rows-per-segment raised that far
		n = 8192 - r.IntN(200)
		if cfg == baseCfg && r.IntN(2) == 0 {
			n = 16000 + r.IntN(4000)
		}
	}
	switch bc.Typ {
	case "int":
		g := intGens[k%len(intGens)]
		bc.Gen = g.name
		for _, v := range g.f(r, n) {
			bc.I = append(bc.I, decI64(v))
		}
	case "time":
		g := timeGens[k%len(timeGens)]
		bc.Gen = g.name
		for _, v := range g.f(r, n) {
			bc.I = append(bc.I, decI64(v))
		}
	case "float":
		g := floatGens[k%len(floatGens)]
		bc.Gen = g.name
		for _, v := range g.f(r, n) {
			bc.F = append(bc.F, hexU64(v))
		}
	case "bool":
		g := boolGens[k%len(boolGens)]
		bc.Gen = g.name
		bc.B = g.f(r, n)
	case "string":
		g := strGens[k%len(strGens)]
		bc.Gen = g.name
		if n > 1500 {
			n = 1500
		}
		bc.S = g.f(r, n)
	}
	bc.N = n
	bc.Prefix = []int{0, 1, 5, 9, 13, 21, 134}[r.IntN(7)]
	bc.Spare = []int{0, 0, 7, 64, 1 << 16}[r.IntN(5)]
	bc.InOff = r.IntN(17)
	bc.Tail = r.IntN(2) == 0
	return bc
}

type blockEnv struct {
	coder  *encoding.CoderContext
	dec    []byte
	decOff []uint32
	rnd    *rand.Rand
}

func newBlockEnv(c *vf.Ctx) *blockEnv {
	return &blockEnv{coder: encoding.NewCoderContext(), rnd: c.Rand(0xb10c)}
}

func (bc *blockCase) sig(class, detail string) string {
	return fmt.Sprintf("block/%s/gen=%s/%s:%s", bc.Typ, bc.Gen, class, detail)
}

// runBlockCase executes one block round trip. It returns the mode name observed.
func runBlockCase(c *vf.Ctx, env *blockEnv, bc *blockCase) {
	c.LogInput(bc)
	c.Eval(1)
	c.Count("blocks", 1)
	// the input exactly as a ColVal holds it: a freshly allocated byte slice
	var in []byte
	var strOff []uint32
	switch bc.Typ {
	case "int", "time":
		in = make([]byte, 8*len(bc.I))
		for i, v := range bc.I {
			binary.LittleEndian.PutUint64(in[8*i:], uint64(v))
		}
	case "float":
		in = make([]byte, 8*len(bc.F))
		for i, v := range bc.F {
			binary.LittleEndian.PutUint64(in[8*i:], uint64(v))
		}
	case "bool":
		in = make([]byte, len(bc.B))
		for i, v := range bc.B {
			if v {
				in[i] = 1
			}
		}
	case "string":
		for _, s := range bc.S {
			strOff = append(strOff, uint32(len(in)))
			in = append(in, s...)
		}
	}
	orig := append([]byte(nil), in...)
	origOff := append([]uint32(nil), strOff...)

	prefix := make([]byte, bc.Prefix)
	for i := range prefix {
		prefix[i] = byte(0xA0 + i%7)
	}
	out := append(make([]byte, 0, bc.Prefix+bc.Spare), prefix...)

	var enc []byte
	var err error
	if p := vf.Catch(func() {
		switch bc.Typ {
		case "int":
			enc, err = encoding.EncodeIntegerBlock(in, out, env.coder)
		case "time":
			enc, err = encoding.EncodeTimestampBlock(in, out, env.coder)
		case "float":
			enc, err = encoding.EncodeFloatBlock(in, out, env.coder)
		case "bool":
			enc, err = encoding.EncodeBooleanBlock(in, out, env.coder)
		case "string":
			enc, err = encoding.EncodeStringBlock(in, strOff, out, env.coder)
		}
	}); p != nil {
		c.Violation(bc.sig("encode-panic", trimPanic(p)), fmt.Sprintf("Encode%sBlock panicked on %d values (%s): %v", bc.Typ, bc.N, bc.Gen, p), bc)
		env.coder = encoding.NewCoderContext() // the coder's state is unknown now
		return
	}
	if err != nil {
		c.Violation(bc.sig("encode-error", err.Error()), fmt.Sprintf("Encode%sBlock returned an error on %d values (%s): %v", bc.Typ, bc.N, bc.Gen, err), bc)
		return
	}
	if !bytes.Equal(in, orig) {
		c.Violation(bc.sig("encode-mutated-input", ""), "the encoder modified its input values", bc)
		return
	}
	if len(enc) < bc.Prefix || !bytes.Equal(enc[:bc.Prefix], prefix) {
		c.Violation(bc.sig("encode-clobbered-prefix", ""), fmt.Sprintf("the %d bytes already in the output buffer (column header) were not preserved", bc.Prefix), bc)
		return
	}
	body := enc[bc.Prefix:]
	mode := "empty"
	if len(body) > 0 {
		mode = modeName(bc.Typ, body[0])
	}
	c.Distinct("block-mode/"+bc.Typ, mode)
	reached("block-mode/" + bc.Typ + "/" + mode)
	if bc.Cfg == baseCfg && (bc.Idx == 2 || bc.Idx == 10) {
		c.Sample(map[string]any{"part": "block", "cfg": bc.Cfg, "type": bc.Typ, "generator": bc.Gen, "values": bc.N, "encoded_bytes": len(body), "mode": mode})
	}
	c.Count("block-mode/"+bc.Typ+"/"+mode, 1)
	c.Distinct("block-gen/"+bc.Typ, bc.Gen)
	if bc.N >= 3 && mode != "raw" && mode != "empty" {
		c.Nontrivial("block/" + bc.Typ + "/" + mode + "/" + bc.Gen)
	}

	// hand the block to the decoder the way a segment reader does: a sub-slice of a
	// larger buffer at some offset
	buf := make([]byte, bc.InOff+len(body)+24)
	for i := range buf {
		buf[i] = 0x5A
	}
	copy(buf[bc.InOff:], body)
	din := buf[bc.InOff : bc.InOff+len(body)]
	if !bc.Tail {
		din = buf[bc.InOff : bc.InOff+len(body) : bc.InOff+len(body)]
	}
	var got []byte
	var gotOff []uint32
	if p := vf.Catch(func() {
		env.dec = env.dec[:0]
		switch bc.Typ {
		case "int":
			_, err = encoding.DecodeIntegerBlock(din, &env.dec, env.coder)
			got = env.dec
		case "time":
			_, err = encoding.DecodeTimestampBlock(din, &env.dec, env.coder)
			got = env.dec
		case "float":
			_, err = encoding.DecodeFloatBlock(din, &env.dec, env.coder)
			got = env.dec
		case "bool":
			_, err = encoding.DecodeBooleanBlock(din, &env.dec, env.coder)
			got = env.dec
		case "string":
			env.decOff = env.decOff[:0]
			got, gotOff, err = encoding.DecodeStringBlock(din, &env.dec, &env.decOff, env.coder)
		}
	}); p != nil {
		c.Violation(bc.sig("decode-panic/mode="+mode, trimPanic(p)), fmt.Sprintf("Decode%sBlock panicked on a block the encoder produced (mode %s, %d values): %v", bc.Typ, mode, bc.N, p), bc)
		env.coder = encoding.NewCoderContext()
		env.dec = nil
		return
	}
	if err != nil {
		c.Violation(bc.sig("decode-error/mode="+mode, err.Error()), fmt.Sprintf("Decode%sBlock rejected a block the encoder produced (mode %s): %v", bc.Typ, mode, err), bc)
		return
	}
	if bc.Typ == "time" && bc.N == 0 {
		// an empty timestamp block is never written (a record has at least one row)
	}
	if !bytes.Equal(got, orig) {
		c.Violation(bc.sig("mismatch/mode="+mode, blockDiffClass(bc, orig, got)), fmt.Sprintf("decode(encode(x)) != x for %d %s values (%s, mode %s): %s", bc.N, bc.Typ, bc.Gen, mode, blockDiff(bc, orig, got)), bc)
		return
	}
	if bc.Typ == "string" {
		if len(gotOff) != len(origOff) {
			c.Violation(bc.sig("mismatch/mode="+mode, "offset-count"), fmt.Sprintf("string block: %d offsets in, %d out", len(origOff), len(gotOff)), bc)
			return
		}
		for i := range origOff {
			if origOff[i] != gotOff[i] {
				c.Violation(bc.sig("mismatch/mode="+mode, "offset-value"), fmt.Sprintf("string block: offset %d is %d, was %d", i, gotOff[i], origOff[i]), bc)
				return
			}
		}
	}
	c.Count("values-compared", int64(bc.N))
}

func blockDiffClass(bc *blockCase, exp, got []byte) string {
	if len(exp) != len(got) {
		return "length"
	}
	if bc.Typ == "float" {
		for i := 0; i+8 <= len(exp); i += 8 {
			e, g := binary.LittleEndian.Uint64(exp[i:]), binary.LittleEndian.Uint64(got[i:])
			if e != g {
				switch {
				case e == negZero && g == 0:
					return "neg-zero-became-pos-zero"
				case e == 0 && g == negZero:
					return "pos-zero-became-neg-zero"
				}
				return "value"
			}
		}
	}
	return "value"
}

func blockDiff(bc *blockCase, exp, got []byte) string {
	if len(exp) != len(got) {
		return fmt.Sprintf("%d bytes in, %d bytes out", len(exp), len(got))
	}
	w := 8
	if bc.Typ == "bool" || bc.Typ == "string" {
		w = 1
	}
	for i := 0; i+w <= len(exp); i += w {
		if !bytes.Equal(exp[i:i+w], got[i:i+w]) {
			if w == 8 {
				return fmt.Sprintf("value %d: in %016x, out %016x", i/8, binary.LittleEndian.Uint64(exp[i:]), binary.LittleEndian.Uint64(got[i:]))
			}
			return fmt.Sprintf("byte %d: in %02x, out %02x", i, exp[i], got[i])
		}
	}
	return "?"
}

func trimPanic(p any) string {
	s := fmt.Sprint(p)
	if len(s) > 120 {
		s = s[:120]
	}
	return s
}
