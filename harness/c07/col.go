package main

// Logical columns: the harness-side, implementation-independent description of a column
// (per row: null or a value given by its bit pattern). Input ColVals are built from it
// through the record package's Append API (as the write path does); decoded ColVals are
// interpreted by the code below directly from their fields, without helper functions
// of the repository.

import (
	"bytes"
	"encoding/binary"
	"encoding/json"
	"fmt"
	"math"
	"math/rand/v2"
	"strconv"

	"github.com/openGemini/openGemini/lib/record"
)

const (
	tInt    = 1
	tFloat  = 3
	tString = 4
	tBool   = 5
)

var typeNames = map[int]string{tInt: "int", tFloat: "float", tString: "string", tBool: "bool"}

// decI64 / hexU64 keep 64-bit values exact when a witness travels through JSON as `any`.
type decI64 int64

func (v decI64) MarshalJSON() ([]byte, error) {
	return []byte(`"` + strconv.FormatInt(int64(v), 10) + `"`), nil
}
func (v *decI64) UnmarshalJSON(b []byte) error {
	var s string
	if err := json.Unmarshal(b, &s); err != nil {
		return err
	}
	x, err := strconv.ParseInt(s, 10, 64)
	*v = decI64(x)
	return err
}

type hexU64 uint64

func (v hexU64) MarshalJSON() ([]byte, error) { return []byte(fmt.Sprintf(`"%016x"`, uint64(v))), nil }
func (v *hexU64) UnmarshalJSON(b []byte) error {
	var s string
	if err := json.Unmarshal(b, &s); err != nil {
		return err
	}
	x, err := strconv.ParseUint(s, 16, 64)
	*v = hexU64(x)
	return err
}

type lcol struct {
	Name string   `json:"name,omitempty"`
	Typ  int      `json:"typ"`
	Gen  string   `json:"gen,omitempty"`  // value generator
	NGen string   `json:"ngen,omitempty"` // null generator
	Null []bool   `json:"null"`
	I    []decI64 `json:"i,omitempty"`
	F    []hexU64 `json:"f,omitempty"`
	B    []bool   `json:"b,omitempty"`
	S    [][]byte `json:"s,omitempty"`
}

func (c *lcol) n() int { return len(c.Null) }

func (c *lcol) nonNull() int {
	k := 0
	for _, x := range c.Null {
		if !x {
			k++
		}
	}
	return k
}

func (c *lcol) slice(a, b int) *lcol {
	o := &lcol{Name: c.Name, Typ: c.Typ, Gen: c.Gen, NGen: c.NGen, Null: c.Null[a:b]}
	switch c.Typ {
	case tInt:
		o.I = c.I[a:b]
	case tFloat:
		o.F = c.F[a:b]
	case tBool:
		o.B = c.B[a:b]
	case tString:
		o.S = c.S[a:b]
	}
	return o
}

func (c *lcol) reversed() *lcol {
	n := c.n()
	o := &lcol{Name: c.Name, Typ: c.Typ, Null: make([]bool, n)}
	for i := 0; i < n; i++ {
		o.Null[i] = c.Null[n-1-i]
	}
	switch c.Typ {
	case tInt:
		o.I = make([]decI64, n)
		for i := range o.I {
			o.I[i] = c.I[n-1-i]
		}
	case tFloat:
		o.F = make([]hexU64, n)
		for i := range o.F {
			o.F[i] = c.F[n-1-i]
		}
	case tBool:
		o.B = make([]bool, n)
		for i := range o.B {
			o.B[i] = c.B[n-1-i]
		}
	case tString:
		o.S = make([][]byte, n)
		for i := range o.S {
			o.S[i] = c.S[n-1-i]
		}
	}
	return o
}

// genCol draws a column of n rows of the given type: a value generator and a null
// pattern, each aimed at one predicate of the encoders.
func genCol(r *rand.Rand, name string, typ, n int) *lcol {
	c := &lcol{Name: name, Typ: typ}
	ng := nullGens[r.IntN(len(nullGens))]
	if r.IntN(3) == 0 {
		ng = nullGens[0] // no nulls: the most common case in practice
	}
	c.NGen = ng.name
	c.Null = ng.f(r, n)
	switch typ {
	case tInt:
		g := intGens[r.IntN(len(intGens))]
		c.Gen = g.name
		v := g.f(r, n)
		c.I = make([]decI64, n)
		for i := range v {
			c.I[i] = decI64(v[i])
		}
	case tFloat:
		g := floatGens[r.IntN(len(floatGens))]
		c.Gen = g.name
		v := g.f(r, n)
		c.F = make([]hexU64, n)
		for i := range v {
			c.F[i] = hexU64(v[i])
		}
	case tBool:
		g := boolGens[r.IntN(len(boolGens))]
		c.Gen = g.name
		c.B = g.f(r, n)
	case tString:
		g := strGens[r.IntN(len(strGens))]
		if g.name == "one-64k-string" && r.IntN(4) != 0 {
			g = strGens[1]
		}
		c.Gen = g.name
		c.S = g.f(r, n)
	}
	return c
}

// regenerate the values of only the non-null rows so that value-shape predicates
// (constant delta, same value …) apply to what the encoder actually sees.
func genColDense(r *rand.Rand, name string, typ, n int) *lcol {
	c := genCol(r, name, typ, n)
	k := c.nonNull()
	if k == n {
		return c
	}
	d := genCol(r, name, typ, k)
	j := 0
	for i := 0; i < n; i++ {
		if c.Null[i] {
			continue
		}
		switch typ {
		case tInt:
			c.I[i] = d.I[j]
		case tFloat:
			c.F[i] = d.F[j]
		case tBool:
			c.B[i] = d.B[j]
		case tString:
			c.S[i] = d.S[j]
		}
		j++
	}
	c.Gen = d.Gen
	return c
}

// appendTo appends rows [a,b) to cv through the record package's API.
func (c *lcol) appendTo(cv *record.ColVal, a, b int) {
	for i := a; i < b; i++ {
		switch c.Typ {
		case tInt:
			if c.Null[i] {
				cv.AppendIntegerNull()
			} else {
				cv.AppendInteger(int64(c.I[i]))
			}
		case tFloat:
			if c.Null[i] {
				cv.AppendFloatNull()
			} else {
				cv.AppendFloat(math.Float64frombits(uint64(c.F[i])))
			}
		case tBool:
			if c.Null[i] {
				cv.AppendBooleanNull()
			} else {
				cv.AppendBoolean(c.B[i])
			}
		case tString:
			if c.Null[i] {
				cv.AppendStringNull()
			} else {
				cv.AppendString(string(c.S[i]))
			}
		}
	}
}

// fromColVal interprets a ColVal (as produced by a decoder) and checks its internal
// consistency: NilCount vs bitmap, value bytes vs non-null count, string offsets.
func fromColVal(typ int, cv *record.ColVal) (*lcol, error) {
	n := cv.Len
	if n < 0 || cv.NilCount < 0 || cv.NilCount > n {
		return nil, fmt.Errorf("Len=%d NilCount=%d", n, cv.NilCount)
	}
	need := (cv.BitMapOffset + n + 7) / 8
	if len(cv.Bitmap) < need {
		return nil, fmt.Errorf("bitmap has %d bytes, needs %d (Len=%d BitMapOffset=%d)", len(cv.Bitmap), need, n, cv.BitMapOffset)
	}
	c := &lcol{Typ: typ, Null: make([]bool, n)}
	nulls := 0
	for i := 0; i < n; i++ {
		p := cv.BitMapOffset + i
		if cv.Bitmap[p>>3]&(1<<(uint(p)&7)) == 0 {
			c.Null[i] = true
			nulls++
		}
	}
	if nulls != cv.NilCount {
		return nil, fmt.Errorf("NilCount=%d but bitmap has %d nulls in %d rows", cv.NilCount, nulls, n)
	}
	vals := n - nulls
	switch typ {
	case tInt, tFloat:
		if len(cv.Val) != 8*vals {
			return nil, fmt.Errorf("Val has %d bytes, expected %d for %d non-null rows", len(cv.Val), 8*vals, vals)
		}
		j := 0
		if typ == tInt {
			c.I = make([]decI64, n)
		} else {
			c.F = make([]hexU64, n)
		}
		for i := 0; i < n; i++ {
			if c.Null[i] {
				continue
			}
			u := binary.LittleEndian.Uint64(cv.Val[8*j:])
			if typ == tInt {
				c.I[i] = decI64(int64(u))
			} else {
				c.F[i] = hexU64(u)
			}
			j++
		}
	case tBool:
		if len(cv.Val) != vals {
			return nil, fmt.Errorf("Val has %d bytes, expected %d for %d non-null rows", len(cv.Val), vals, vals)
		}
		c.B = make([]bool, n)
		j := 0
		for i := 0; i < n; i++ {
			if c.Null[i] {
				continue
			}
			if cv.Val[j] > 1 {
				return nil, fmt.Errorf("boolean byte %d at value %d", cv.Val[j], j)
			}
			c.B[i] = cv.Val[j] == 1
			j++
		}
	case tString:
		if len(cv.Offset) != n {
			return nil, fmt.Errorf("Offset has %d entries for %d rows", len(cv.Offset), n)
		}
		c.S = make([][]byte, n)
		for i := 0; i < n; i++ {
			a := int(cv.Offset[i])
			b := len(cv.Val)
			if i+1 < n {
				b = int(cv.Offset[i+1])
			}
			if a > b || b > len(cv.Val) {
				return nil, fmt.Errorf("string offsets not monotone at row %d: %d..%d (len %d)", i, a, b, len(cv.Val))
			}
			if c.Null[i] {
				if a != b {
					return nil, fmt.Errorf("null string row %d has %d bytes", i, b-a)
				}
				continue
			}
			c.S[i] = cv.Val[a:b]
		}
	}
	return c, nil
}

// diffCol returns "" when got equals exp row for row (nulls, and values by bit pattern).
func diffCol(exp, got *lcol) string {
	if exp.n() != got.n() {
		return fmt.Sprintf("rows: expected %d, got %d", exp.n(), got.n())
	}
	for i := 0; i < exp.n(); i++ {
		if exp.Null[i] != got.Null[i] {
			return fmt.Sprintf("row %d: null expected %v, got %v", i, exp.Null[i], got.Null[i])
		}
		if exp.Null[i] {
			continue
		}
		switch exp.Typ {
		case tInt:
			if exp.I[i] != got.I[i] {
				return fmt.Sprintf("row %d: expected %d, got %d", i, exp.I[i], got.I[i])
			}
		case tFloat:
			if exp.F[i] != got.F[i] {
				return fmt.Sprintf("row %d: expected bits %016x (%v), got %016x (%v)", i, uint64(exp.F[i]),
					math.Float64frombits(uint64(exp.F[i])), uint64(got.F[i]), math.Float64frombits(uint64(got.F[i])))
			}
		case tBool:
			if exp.B[i] != got.B[i] {
				return fmt.Sprintf("row %d: expected %v, got %v", i, exp.B[i], got.B[i])
			}
		case tString:
			if !bytes.Equal(exp.S[i], got.S[i]) {
				return fmt.Sprintf("row %d: expected %d-byte string %.40q, got %d-byte string %.40q", i, len(exp.S[i]), exp.S[i], len(got.S[i]), got.S[i])
			}
		}
	}
	return ""
}

// diffClass reduces a diffCol message to a class usable inside a finding signature.
func diffClass(exp, got *lcol) string {
	if exp.n() != got.n() {
		return "row-count"
	}
	for i := 0; i < exp.n(); i++ {
		if exp.Null[i] != got.Null[i] {
			return "null-bitmap"
		}
		if exp.Null[i] {
			continue
		}
		switch exp.Typ {
		case tInt:
			if exp.I[i] != got.I[i] {
				return "value"
			}
		case tFloat:
			if exp.F[i] != got.F[i] {
				e, g := uint64(exp.F[i]), uint64(got.F[i])
				switch {
				case e == negZero && g == 0:
					return "neg-zero-became-pos-zero"
				case e == 0 && g == negZero:
					return "pos-zero-became-neg-zero"
				case math.IsNaN(math.Float64frombits(e)) && math.IsNaN(math.Float64frombits(g)):
					return "nan-payload"
				}
				return "value"
			}
		case tBool:
			if exp.B[i] != got.B[i] {
				return "value"
			}
		case tString:
			if !bytes.Equal(exp.S[i], got.S[i]) {
				return "value"
			}
		}
	}
	return ""
}

func le64(vs []uint64) []byte {
	b := make([]byte, 8*len(vs))
	for i, v := range vs {
		binary.LittleEndian.PutUint64(b[8*i:], v)
	}
	return b
}
