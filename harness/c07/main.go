// Command c07 is the runtime check of property C07: every persistent and wire encoding
// decodes to exactly what was encoded.
//
// The real encoders/decoders of /repo are executed in child processes of this binary
// (built with -race, hence checkptr) on generated inputs; the only oracle is identity
// (bit for bit), plus emptiness for log records that were cut short.
package main

import (
	"encoding/json"
	"fmt"
	"hash/fnv"
	"math"
	"os"
	"path/filepath"
	"runtime"
	"sort"
	"strconv"
	"strings"
	"sync"
	"syscall"
	"time"

	"github.com/openGemini/openGemini/engine/immutable"
	"github.com/openGemini/openGemini/lib/compress"
	"github.com/openGemini/openGemini/lib/config"
	"github.com/openGemini/openGemini/lib/record"
	"verifharness/vf"
)

func f64(h hexU64) float64 { return math.Float64frombits(uint64(h)) }

// streamOf gives every case its own PCG stream: (part, cfg, index) -> stream id.
func streamOf(part, cfg string, idx int) uint64 {
	h := fnv.New64a()
	h.Write([]byte(part))
	h.Write([]byte{0})
	h.Write([]byte(cfg))
	return h.Sum64()<<20 ^ uint64(idx)
}

// ---------------------------------------------------------------- configurations

// A configuration is the set of process-wide store options that change an encoding:
// s = string compressor, m = float algorithm (1 = "mlf"), c = chunk-meta compress mode.
const baseCfg = "s=snappy,m=0,c=0"

func applyCfg(cfg string) {
	sc := config.GetStoreConfig()
	sc.StringCompressAlgo = config.CompressAlgoSnappy
	sc.FloatCompressAlgorithm = ""
	cm := 0
	for _, kv := range strings.Split(cfg, ",") {
		k, v, _ := strings.Cut(kv, "=")
		switch k {
		case "s":
			sc.StringCompressAlgo = v
		case "m":
			if v == "1" {
				sc.FloatCompressAlgorithm = compress.FloatCompressAlgorithmMLF
			}
		case "c":
			cm, _ = strconv.Atoi(v)
		}
	}
	compress.Init()
	immutable.SetChunkMetaCompressMode(cm)
}

// onlyType restricts block cases of a non-default configuration to the type it affects.
func onlyType(cfg string) string {
	switch {
	case strings.Contains(cfg, "m=1"):
		return "float"
	case !strings.Contains(cfg, "s=snappy"):
		return "string"
	}
	return ""
}

// ---------------------------------------------------------------- plan

type task struct {
	part, cfg string
	from, to  int
}

func (t task) arg() string { return fmt.Sprintf("%s|%s|%d|%d", t.part, t.cfg, t.from, t.to) }

func plan(c *vf.Ctx) []task {
	mul := c.Pick(1, 12)
	mulHeavy := c.Pick(1, 5) // parts that replay every strict prefix in the thorough tier
	type item struct {
		part, cfg string
		n, batch  int
	}
	// quick: 22 000 raw block round trips + 2 000 series chunks (about 25 000 more blocks behind column
	// headers), 300 files, 3 000 row batches, 1 000 records, 200 WAL logs
	items := []item{
		{"block", baseCfg, 16000, 2000},
		{"block", "s=snappy,m=1,c=0", 3000, 1500},
		{"block", "s=lz4,m=0,c=0", 1500, 1500},
		{"block", "s=zstd,m=0,c=0", 1500, 1500},
		{"chunk", baseCfg, 1200, 300},
		{"chunk", "s=snappy,m=1,c=0", 400, 200},
		{"chunk", "s=lz4,m=0,c=0", 200, 200},
		{"chunk", "s=zstd,m=0,c=0", 200, 200},
		{"file", baseCfg, 140, 14},
		{"file", "s=snappy,m=1,c=0", 32, 16},
		{"file", "s=lz4,m=0,c=0", 16, 16},
		{"file", "s=zstd,m=0,c=0", 16, 16},
		{"file", "s=snappy,m=0,c=1", 32, 16},
		{"file", "s=snappy,m=0,c=2", 32, 16},
		{"file", "s=snappy,m=0,c=3", 32, 16},
		{"rows", baseCfg, 3000, 250},
		{"rec", baseCfg, 1000, 500},
		{"wal", baseCfg, 200, 20},
	}
	// C07_ONLY=block,wal … restricts a run to some parts (used for the sensitivity experiments only)
	only := map[string]bool{}
	for _, p := range strings.Split(os.Getenv("C07_ONLY"), ",") {
		if p != "" {
			only[p] = true
		}
	}
	var ts []task
	for _, it := range items {
		if len(only) > 0 && !only[it.part] {
			continue
		}
		n := it.n * mul
		if it.part == "rows" || it.part == "wal" {
			n = it.n * mulHeavy
		}
		for a := 0; a < n; a += it.batch {
			b := a + it.batch
			if b > n {
				b = n
			}
			ts = append(ts, task{it.part, it.cfg, a, b})
		}
	}
	// long tasks first
	weight := map[string]int{"file": 5, "wal": 4, "chunk": 3, "rows": 2, "block": 1, "rec": 0}
	sort.SliceStable(ts, func(i, j int) bool { return weight[ts[i].part] > weight[ts[j].part] })
	return ts
}

// required categories: the design demands that each was produced at least once
func required() []string {
	var req []string
	for _, m := range []string{"const-delta", "simple8b", "zstd", "raw"} {
		req = append(req, "block-mode/int/"+m)
	}
	for _, m := range []string{"const-delta", "simple8b", "snappy", "raw"} {
		req = append(req, "block-mode/time/"+m)
	}
	for _, m := range []string{"raw", "snappy", "gorilla", "same", "rle", "mlf"} {
		req = append(req, "block-mode/float/"+m)
	}
	for _, m := range []string{"raw", "snappy", "zstd", "lz4"} {
		req = append(req, "block-mode/string/"+m)
	}
	req = append(req, "block-mode/bool/bitpack")
	for _, t := range []string{"int", "float", "string", "bool"} {
		for _, k := range []string{"one-row", "full", "empty", "bitmap"} {
			req = append(req, "segment-header/"+t+"/"+k)
		}
	}
	req = append(req, "segment-header/time/one-row", "segment-header/time/full",
		"file-layout/several-meta-index-items", "file-layout/reopened-from-disk", "file-layout/read-through-builder-reader",
		"input/sliced-record-with-bitmap-offset", "wal-cut/at-record-start", "wal-cut/inside-header", "wal-cut/right-after-header", "wal-cut/inside-body")
	return req
}

var (
	reachedMu sync.Mutex
	reachedS  = map[string]bool{}
)

func reached(k string) {
	reachedMu.Lock()
	reachedS[k] = true
	reachedMu.Unlock()
}

func dumpReached(c *vf.Ctx) {
	keys := make([]string, 0, len(reachedS))
	for k := range reachedS {
		keys = append(keys, k)
	}
	b, _ := json.Marshal(keys)
	_ = os.WriteFile(filepath.Join(c.Scratch, "reached.json"), b, 0o644)
}

// ---------------------------------------------------------------- main

// The binary is built with -race for checkptr (which aborts with "fatal error: checkptr",
// independent of GORACE). Importing package engine starts its background compactor
// goroutines, whose statistics counters race with each other on the unchanged tree;
// statistics races are outside every property (DESIGN.md section 4.4) and every worker
// here is single-threaded, so race reports must not end a worker.
var workerGORACE = "GORACE=halt_on_error=0 exitcode=0"

func init() {
	// race reports (statistics noise of package engine's background goroutines) go to files in the scratch dir
	if d := os.Getenv("C07_RACE_LOG_DIR"); d != "" {
		workerGORACE += " log_path=" + filepath.Join(d, "race")
	} else if d := os.Getenv("VERIF_SCRATCH"); d != "" {
		workerGORACE += " log_path=" + filepath.Join(d, "race")
	}
}

// reexecWithGORACE restarts this process once with workerGORACE in its environment (the
// race runtime reads GORACE only at start-up; env.sh exports halt_on_error=1, and the
// parent lives long enough to see the compactor's statistics race itself).
func reexecWithGORACE() {
	if os.Getenv("C07_GORACE_SET") != "" {
		return
	}
	exe, err := os.Executable()
	if err != nil {
		return
	}
	env := []string{workerGORACE, "C07_GORACE_SET=1", "C07_RACE_LOG_DIR=" + os.Getenv("VERIF_SCRATCH")}
	for _, kv := range os.Environ() {
		if !strings.HasPrefix(kv, "GORACE=") {
			env = append(env, kv)
		}
	}
	_ = syscall.Exec(exe, os.Args, env)
}

func main() {
	reexecWithGORACE()
	c := vf.New("C07", "exploration")
	if vf.IsWorker() {
		go func() { // a worker must not outlive its parent (workers run in their own process group)
			pp := os.Getppid()
			for {
				time.Sleep(2 * time.Second)
				if os.Getppid() != pp {
					os.Exit(3)
				}
			}
		}()
		worker(c, vf.WorkerArg())
		dumpReached(c)
		c.Finish()
	}
	c.SetRule("a case is one generated input pushed through a real encoder and decoder of /repo (block codec call, series chunk, TSSP file, row batch, record, WAL file) " +
		"and compared bit for bit; distinct non-trivial cases are keyed by (type, encoded mode byte other than raw, value generator) for blocks and segments, " +
		"(segments>1, columns) for file series, (batch shape, features) for row batches, (relation to the preceding record, record count) for WAL logs")
	c.Assume("the generated inputs are inside the domain the write paths accept: finite lengths up to a few segments, measurement/tag/field names within the line-protocol limits, any float64 bit pattern incl. NaN payloads and infinities (Prometheus remote write), any int64")
	c.Assume("WAL records carry no checksum, so single-byte damage that leaves a valid snappy stream cannot be recognised by any decoder; such damaged logs are recognised by a harness-side snappy.Decode and skipped (wal-damage/undetectable-skipped). All other damaged records (invalid type byte, length beyond the file, broken snappy stream) are judged like a record cut short")
	c.Assume("a row batch cut short reaches FastUnmarshalMultiRows only when the snappy frame or RPC framing around it was damaged; every strict prefix is still executed: decoding one into rows is a violation, a panic (missing bounds checks) is only counted (row-batch-prefix/panic)")
	c.Assume("float statistics (pre-aggregation min/max/sum) are not judged for columns that hold a NaN, for which no order is defined; the time reported with a min/max may be that of any row holding the value")
	c.Assume("the block codecs are called with an empty destination buffer, as every caller in engine/immutable does")

	if c.ReplayIn != "" {
		c.RunWorker("replay|"+c.ReplayIn, 10*time.Minute, workerGORACE)
		c.Finish()
	}

	tasks := plan(c)
	par := runtime.NumCPU() - 2
	if par > 14 {
		par = 14
	}
	if par < 2 {
		par = 2
	}
	wd := time.Duration(c.Pick(4, 30)) * time.Minute
	ch := make(chan task)
	var wg sync.WaitGroup
	type taskDur struct {
		Task    string  `json:"task"`
		Seconds float64 `json:"seconds"`
	}
	var durMu sync.Mutex
	var durs []taskDur
	for i := 0; i < par; i++ {
		wg.Add(1)
		go func() {
			defer wg.Done()
			for t := range ch {
				t0 := time.Now()
				c.RunWorker(t.arg(), wd, workerGORACE)
				durMu.Lock()
				durs = append(durs, taskDur{t.arg(), time.Since(t0).Seconds()})
				durMu.Unlock()
			}
		}()
	}
	for _, t := range tasks {
		ch <- t
	}
	close(ch)
	wg.Wait()

	// which required categories were produced?
	seen := map[string]bool{}
	files, _ := filepath.Glob(filepath.Join(c.Scratch, "w*", "reached.json"))
	for _, f := range files {
		b, err := os.ReadFile(f)
		if err != nil {
			continue
		}
		var ks []string
		if json.Unmarshal(b, &ks) == nil {
			for _, k := range ks {
				seen[k] = true
			}
		}
	}
	missing := []string{}
	for _, k := range required() {
		if len(os.Getenv("C07_ONLY")) > 0 {
			break // partial run: coverage requirements do not apply
		}
		if !seen[k] {
			missing = append(missing, k)
			c.Inconclusive("category-not-reached:"+k, 1)
		}
	}
	c.Extra("required_categories", len(required()))
	c.Extra("required_categories_not_reached", missing)
	c.Extra("worker_tasks", len(tasks))
	c.Extra("parallel_workers", par)
	sort.Slice(durs, func(i, j int) bool { return durs[i].Seconds > durs[j].Seconds })
	if len(durs) > 5 {
		durs = durs[:5]
	}
	c.Extra("slowest_worker_tasks", durs)
	if rl, _ := filepath.Glob(filepath.Join(c.Scratch, "race.*")); len(rl) > 0 {
		c.Extra("processes_with_race_reports_not_judged", fmt.Sprintf("%d (statistics counters of package engine's background compactor; single-threaded workers; DESIGN.md 4.4)", len(rl)))
	}
	c.Extra("configurations", "s=string compressor, m=1 float algorithm mlf, c=chunk-meta compress mode; base "+baseCfg)
	c.Finish()
}

// ---------------------------------------------------------------- worker

func worker(c *vf.Ctx, arg string) {
	parts := strings.Split(arg, "|")
	if parts[0] == "replay" {
		replayWitness(c, strings.Join(parts[1:], "|"))
		return
	}
	if len(parts) != 4 {
		c.Broken("bad worker argument %q", arg)
		return
	}
	part, cfg := parts[0], parts[1]
	from, _ := strconv.Atoi(parts[2])
	to, _ := strconv.Atoi(parts[3])
	applyCfg(cfg)
	c.Distinct("configuration/"+part, cfg)
	runRange(c, part, cfg, from, to)
}

func runRange(c *vf.Ctx, part, cfg string, from, to int) {
	switch part {
	case "block":
		env := newBlockEnv(c)
		for i := from; i < to; i++ {
			bc := genBlockCase(c, cfg, i)
			runBlockCase(c, env, bc)
		}
	case "chunk":
		env := newChunkEnv()
		for i := from; i < to; i++ {
			cc, r := genChunkCase(c, cfg, i)
			runChunkCase(c, env, cc, r)
		}
	case "file":
		env := newFileEnv(c)
		for i := from; i < to; i++ {
			fc, r := genFileCase(c, cfg, i)
			runFileCase(c, env, fc, r)
		}
	case "rows":
		env := &rowsEnv{rndP: c.Rand(streamOf("rows-prefix", cfg, from))}
		for i := from; i < to; i++ {
			runRowsCase(c, env, genRowsCase(c, cfg, i))
		}
	case "rec":
		reuse := &record.Record{}
		for i := from; i < to; i++ {
			rc, r := genRecCase(c, cfg, i)
			runRecCase(c, rc, r, reuse)
		}
	case "wal":
		env := &walEnv{dir: filepath.Join(c.Scratch, "wal"), rnd: c.Rand(streamOf("wal-cuts", cfg, from))}
		for i := from; i < to; i++ {
			runWalCase(c, env, genWalCase(c, cfg, i))
		}
	default:
		c.Broken("unknown part %q", part)
	}
}

// replayWitness re-executes the case stored in a witness file. Cases are re-created from
// (seed, part, cfg, idx); block cases carry their values and are taken as stored.
func replayWitness(c *vf.Ctx, path string) {
	b, err := os.ReadFile(path)
	if err != nil {
		c.Broken("cannot read witness %s: %v", path, err)
		return
	}
	var top struct {
		Witness json.RawMessage `json:"witness"`
	}
	if err := json.Unmarshal(b, &top); err != nil {
		c.Broken("witness %s unreadable: %v", path, err)
		return
	}
	raw := top.Witness
	var wrap struct {
		Case      json.RawMessage `json:"case"`
		LastInput json.RawMessage `json:"last_input"`
	}
	if json.Unmarshal(raw, &wrap) == nil {
		if len(wrap.Case) > 0 {
			raw = wrap.Case
		} else if len(wrap.LastInput) > 0 { // a worker that died: the last logged input
			raw = wrap.LastInput
		}
	}
	var key struct {
		Part string `json:"part"`
		Cfg  string `json:"cfg"`
		Seed uint64 `json:"seed"`
		Idx  int    `json:"idx"`
	}
	if err := json.Unmarshal(raw, &key); err != nil || key.Part == "" {
		c.Broken("witness %s has no case key: %v", path, err)
		return
	}
	c.Seed = key.Seed
	applyCfg(key.Cfg)
	fmt.Printf("replaying %s case %d (cfg %s, seed %d)\n", key.Part, key.Idx, key.Cfg, key.Seed)
	if key.Part == "block" {
		var bc blockCase
		if err := json.Unmarshal(raw, &bc); err != nil {
			c.Broken("block witness unreadable: %v", err)
			return
		}
		runBlockCase(c, newBlockEnv(c), &bc)
		return
	}
	if key.Part == "wal" || key.Part == "rows" {
		// these depend on the pools filled by their predecessors in the batch: run the batch up to the case
		from := key.Idx - key.Idx%20
		if key.Part == "rows" {
			from = key.Idx - key.Idx%250
		}
		runRange(c, key.Part, key.Cfg, from, key.Idx+1)
		return
	}
	runRange(c, key.Part, key.Cfg, key.Idx, key.Idx+1)
}
