package main

// Part 4: the WAL physical record. Batches are written by the real WAL writer into a
// WAL directory; the resulting file is then cut at every byte position inside its last
// record (and damaged at sampled positions), stored as the WAL file of a fresh
// directory and replayed by the real replay code (engine.VerifReplayWalBytes →
// WAL.Replay → replayWalFile → replayPhysicRecord → unmarshalRows). A cut record must
// end the replay without an error and without contributing a single row; the records in
// front of it must be delivered unchanged.

import (
	"fmt"
	"math/rand/v2"
	"os"
	"path/filepath"

	"github.com/golang/snappy"
	"github.com/openGemini/openGemini/engine"
	"github.com/openGemini/openGemini/lib/util/lifted/vm/protoparser/influx"
	"verifharness/vf"
)

type walCase struct {
	Part    string   `json:"part"`
	Cfg     string   `json:"cfg"`
	Seed    uint64   `json:"seed"`
	Idx     int      `json:"idx"`
	Shape   string   `json:"shape"`   // how the record in front of the cut one relates to it
	Batches [][]lrow `json:"batches"` // one WAL record each; the last one is cut / damaged
}

func genWalCase(c *vf.Ctx, cfg string, idx int) *walCase {
	r := c.Rand(streamOf("wal", cfg, idx))
	wc := &walCase{Part: "wal", Cfg: cfg, Seed: c.Seed, Idx: idx}
	mk := func(n int) []lrow {
		rows := make([]lrow, n)
		for i := range rows {
			rows[i] = genRow(r, false)
			for j := range rows[i].Fields { // keep records small: all prefixes are replayed
				if len(rows[i].Fields[j].Str) > 200 {
					rows[i].Fields[j].Str = rows[i].Fields[j].Str[:200]
				}
			}
		}
		return rows
	}
	victim := mk(1 + r.IntN(3))
	switch idx % 5 {
	case 0:
		wc.Shape = "only-record"
		wc.Batches = [][]lrow{victim}
	case 1:
		wc.Shape = "after-identical-record" // the client retried / wrote the same points again
		wc.Batches = [][]lrow{victim, victim}
	case 2:
		wc.Shape = "after-same-shape-record" // same series and fields, other values and time: same encoded length
		prev := make([]lrow, len(victim))
		for i := range victim {
			prev[i] = victim[i]
			prev[i].Ts = victim[i].Ts - 1000
			prev[i].Fields = append([]lfield(nil), victim[i].Fields...)
			for j := range prev[i].Fields {
				if prev[i].Fields[j].Type != influx.Field_Type_String {
					prev[i].Fields[j].Num = hexU64(fb(float64(r.IntN(1000))))
				}
			}
		}
		wc.Batches = [][]lrow{mk(1 + r.IntN(3)), prev, victim}
	default:
		wc.Shape = "after-other-records"
		for i := 0; i < 1+r.IntN(3); i++ {
			wc.Batches = append(wc.Batches, mk(1+r.IntN(5)))
		}
		wc.Batches = append(wc.Batches, victim)
	}
	return wc
}

type walEnv struct {
	dir string
	seq int
	rnd *rand.Rand
}

func (e *walEnv) fresh() string {
	e.seq++
	return filepath.Join(e.dir, fmt.Sprintf("w%d", e.seq))
}

// expectRows checks that res holds exactly the rows of batches[:k], in order.
func expectRows(batches [][]lrow, k int, res *engine.VerifWalReplayResult) (string, string) {
	var want []*lrow
	for b := 0; b < k; b++ {
		for i := range batches[b] {
			want = append(want, &batches[b][i])
		}
	}
	if len(res.Binaries) > 0 {
		return "delivered-binary", fmt.Sprintf("%d column-format payloads delivered from a log of row records", len(res.Binaries))
	}
	if len(res.Rows) != len(want) {
		return fmt.Sprintf("rows=%+d", len(res.Rows)-len(want)), fmt.Sprintf("%d rows delivered, the %d complete records in front hold %d", len(res.Rows), k, len(want))
	}
	for i := range want {
		if class, msg := diffRow(want[i], &res.Rows[i]); class != "" {
			return "row-changed/" + class, fmt.Sprintf("delivered row %d differs from what was logged: %s", i, msg)
		}
	}
	return "", ""
}

func runWalCase(c *vf.Ctx, env *walEnv, wc *walCase) {
	c.LogInput(wc)
	c.Eval(1)
	c.Count("wal-records-cut", 1)
	c.Count("wal-shape/"+wc.Shape, 1)
	var bins [][]byte
	for _, b := range wc.Batches {
		bin, err := influx.FastMarshalMultiRows(nil, toRows(b))
		if err != nil {
			c.Violation("wal/marshal-error:"+err.Error(), "FastMarshalMultiRows failed on generated rows", wc)
			return
		}
		bins = append(bins, bin)
	}
	wdir := env.fresh()
	var written []engine.VerifWalWritten
	var err error
	if p := vf.Catch(func() { written, err = engine.VerifWalWrite(wdir, 1, bins, engine.WriteWalLineProtocol) }); p != nil || err != nil {
		c.Violation("wal/write-failed", fmt.Sprintf("the WAL writer failed: %v %v", p, err), wc)
		return
	}
	defer os.RemoveAll(wdir)
	file := written[0].File
	for _, w := range written {
		if w.File != file {
			c.Broken("wal case %d: records landed in several files", wc.Idx)
			return
		}
	}
	data, err := os.ReadFile(file)
	if err != nil || int64(len(data)) != written[len(written)-1].End {
		c.Broken("wal case %d: cannot read back %s: %v", wc.Idx, file, err)
		return
	}
	k := len(bins) - 1 // index of the record that is cut
	start := 0
	if k > 0 {
		start = int(written[k-1].End)
	}
	recLen := len(data) - start

	// one replay directory per worker: the shim overwrites its only wal file every time
	rdir := filepath.Join(env.dir, "replay")
	replay := func(b []byte) (*engine.VerifWalReplayResult, error, any) {
		d := rdir
		var res *engine.VerifWalReplayResult
		var rerr error
		p := vf.Catch(func() { res, rerr = engine.VerifReplayWalBytes(d, b) })
		return res, rerr, p
	}

	// the complete log first (also fills the buffer pools the way a running server has them filled)
	res, rerr, p := replay(data)
	if p != nil || rerr != nil {
		c.Violation("wal/complete/replay-failed:"+trimPanic(fmt.Sprint(p, rerr)), fmt.Sprintf("replaying the complete log failed: panic=%v err=%v", p, rerr), wc)
		return
	}
	if class, msg := expectRows(wc.Batches, len(bins), res); class != "" {
		c.Violation("wal/complete/"+class, "complete log: "+msg, wc)
		return
	}
	c.Count("wal-rows-compared", int64(len(res.Rows)))
	c.Nontrivial(fmt.Sprintf("wal/%s/records=%d", wc.Shape, len(bins)))
	if wc.Idx < 2 {
		c.Sample(map[string]any{"part": "wal", "shape": wc.Shape, "records": len(bins), "rows": len(res.Rows), "file_bytes": len(data), "last_record_bytes": recLen})
	}

	// every strict prefix of the last record. In the quick tier three cases out of four replay a
	// sample instead: every cut inside the first 24 and the last 16 bytes plus ~100 spread over the body.
	all := c.Thorough() || wc.Idx%4 == 0 || recLen <= 160
	step := 1
	if !all {
		step = (recLen-40)/100 + 1
	}
	if all {
		c.Count("wal-records-cut-at-every-byte", 1)
	}
	for cut := 0; cut < recLen; {
		at := cut
		if step > 1 && cut >= 24 && cut < recLen-16 {
			at += env.rnd.IntN(step)
			cut += step
			if at >= recLen-16 {
				cut = recLen - 16
				continue
			}
		} else {
			cut++
		}
		res, rerr, p := replay(data[:start+at])
		where := cutClass(at)
		wit := map[string]any{"case": wc, "cut_at": at, "record_len": recLen}
		if p != nil {
			c.Violation("wal/cut/"+where+"/panic:"+trimPanic(p), fmt.Sprintf("replay panicked on a log whose last record is cut after %d of %d bytes: %v", at, recLen, p), wit)
			return
		}
		if rerr != nil {
			c.Violation("wal/cut/"+where+"/replay-error:"+errClass(rerr.Error()), fmt.Sprintf("replay returned an error (the shard would not open) for a log whose last record is cut after %d of %d bytes: %v", at, recLen, rerr), wit)
			return
		}
		c.Count("wal-prefixes-replayed", 1)
		c.Distinct("wal-cut-position", where)
		reached("wal-cut/" + where)
		if class, msg := expectRows(wc.Batches, k, res); class != "" {
			c.Violation("wal/cut/"+where+"/shape="+wc.Shape+"/"+class,
				fmt.Sprintf("last record cut after %d of %d bytes (%s): %s", at, recLen, wc.Shape, msg), wit)
			return
		}
	}

	// sampled single-byte damage inside the last record. WAL records carry no checksum, so
	// damage that still is a valid snappy stream hands arbitrary bytes to the row decoder
	// and cannot be recognised by construction; such cases are classified by a harness-side
	// snappy.Decode and skipped (counted). Every other damaged record — invalid type byte,
	// length pointing beyond the file, broken snappy stream — must be treated exactly like
	// a record cut short: no error, no rows from it, earlier records intact.
	for j := 0; j < 24; j++ {
		pos := env.rnd.IntN(recLen)
		if j < 5 {
			pos = j // type byte and the four length bytes
		}
		mut := append([]byte(nil), data...)
		old := mut[start+pos]
		nb := byte(env.rnd.IntN(256))
		if pos == 1 || pos == 2 {
			// replay allocates the declared length before it reads: keep it below 1 MiB + 64 KiB here
			// (a damaged high length byte makes the real code allocate up to 4 GiB, see SENSITIVITY.md)
			nb = byte(env.rnd.IntN(17))
			if pos == 1 {
				nb = 0
			}
		}
		if nb == old {
			if pos == 1 {
				continue
			}
			nb ^= 1 << uint(env.rnd.IntN(4))
		}
		mut[start+pos] = nb
		rec := mut[start:]
		var class string
		switch dl := declaredLen(rec); {
		case rec[0] == 0 || rec[0] >= 3:
			class = "invalid-type-byte"
		case dl > recLen-5:
			class = "length-beyond-file"
		default:
			if _, derr := snappy.Decode(nil, rec[5:5+dl]); derr == nil {
				c.Count("wal-damage/undetectable-skipped", 1)
				continue
			}
			class = "broken-snappy-stream"
		}
		res, rerr, p := replay(mut)
		c.Count("wal-damaged-replays", 1)
		c.Count("wal-damage/"+class, 1)
		wit := map[string]any{"case": wc, "damaged_at": pos, "old": old, "new": nb, "record_len": recLen}
		if p != nil {
			c.Violation("wal/damaged/"+class+"/panic:"+trimPanic(p), fmt.Sprintf("replay panicked on a log with byte %d of its last record changed %#x -> %#x (%s): %v", pos, old, nb, class, p), wit)
			return
		}
		if rerr != nil {
			c.Violation("wal/damaged/"+class+"/replay-error:"+errClass(rerr.Error()), fmt.Sprintf("replay returned an error for a log with byte %d of its last record changed %#x -> %#x (%s): %v", pos, old, nb, class, rerr), wit)
			return
		}
		if cl, msg := expectRows(wc.Batches, k, res); cl != "" {
			c.Violation("wal/damaged/"+class+"/"+cl, fmt.Sprintf("byte %d of the last record changed %#x -> %#x (%s): %s", pos, old, nb, class, msg), wit)
			return
		}
	}
}

func declaredLen(rec []byte) int {
	return int(uint32(rec[1])<<24 | uint32(rec[2])<<16 | uint32(rec[3])<<8 | uint32(rec[4]))
}

func cutClass(at int) string {
	switch {
	case at == 0:
		return "at-record-start"
	case at < 5:
		return "inside-header"
	case at == 5:
		return "right-after-header"
	default:
		return "inside-body"
	}
}
