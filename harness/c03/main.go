// C03 — compaction and out-of-order merge change no answer and are crash-atomic.
// A seeded build phase creates a file set (>= 8 ordered level-0 files per measurement,
// overlapping out-of-order files, sparse columns, several segments) on a real ts-server
// with background compaction off; then ONE reorganisation (level compaction, full
// compaction, out-of-order merge) is run through the control port — un-crashed, and with
// the server killing itself before the k-th file-system mutation of that reorganisation
// (and once more inside the recovery pass). The logical dump must stay equal, and after
// recovery no .init/.tmp data file or compact log may remain.
package main

import (
	"encoding/json"
	"fmt"
	"math/rand/v2"
	"os"
	"path/filepath"
	"sort"
	"strings"
	"sync"
	"time"

	"verifharness/kit"
	"verifharness/model"
	"verifharness/proc"
	"verifharness/vf"
)

type step struct {
	Op     string   `json:"op"`
	Points []string `json:"points,omitempty"`
	pts    []model.Point
}

type fileSet struct {
	Index  int    `json:"index"`
	Config string `json:"config"`
	// SingleWrite: every (series,timestamp) is written exactly once (late data still
	// exists: old timestamps of keys not written before). Then statistics push-down is
	// exact and aggregate answers are part of the before/after comparison.
	SingleWrite bool   `json:"single_write"`
	Steps       []step `json:"steps"`
	extra       map[string][]string
	msts        []string
	schema      map[string]map[string]byte
}

const db = "db0"

func genFileSet(r *rand.Rand, idx int) *fileSet {
	fs := &fileSet{Index: idx, Config: "default", SingleWrite: idx%2 == 0}
	used := map[string]bool{}
	keyOf := func(p model.Point) string { return p.Mst + "|" + model.SeriesKey(p.Tags) + "|" + fmt.Sprint(p.T) }
	filter := func(pts []model.Point) []model.Point {
		if !fs.SingleWrite {
			return pts
		}
		var out []model.Point
		for _, p := range pts {
			if !used[keyOf(p)] {
				used[keyOf(p)] = true
				out = append(out, p)
			}
		}
		return out
	}
	switch idx % 4 {
	case 1:
		fs.Config = "small-segments"
		fs.extra = map[string][]string{"data": {"max-rows-per-segment = 5"}}
	case 3:
		fs.Config = "non-streaming-compact"
		fs.extra = map[string][]string{"data": {"compaction-method = 1"}}
	}
	u := kit.NewUniverse(2, 4+r.IntN(3), 16)
	add := func(op string, pts []model.Point) {
		if op == "write" {
			pts = filter(pts)
			if len(pts) == 0 {
				return
			}
		}
		st := step{Op: op, pts: pts}
		for _, p := range pts {
			st.Points = append(st.Points, p.LP())
		}
		fs.Steps = append(fs.Steps, st)
	}
	add("write", u.SeedBatch(r, nil))
	add("flush", nil)
	rounds := 9 + r.IntN(4)
	if idx%4 >= 2 {
		// independent clocks: every (measurement, series) advances on its own time line whose
		// base differs from series to series (not in series order), and every file holds a
		// random subset of the series — so files start with different series, one series has
		// chunks in several ordered files, and the order of the files by their first chunk's
		// time differs from their order by another series' time. Late rows fall inside and
		// below a series' already flushed range.
		type sk struct {
			m  string
			se map[string]string
		}
		var keys []sk
		for _, m := range u.Msts {
			for _, se := range u.Series {
				keys = append(keys, sk{m, se})
			}
		}
		perm := r.Perm(len(keys))
		clock := make([]int64, len(keys))
		base := make([]int64, len(keys))
		for i := range keys {
			base[i] = kit.BaseTime + int64(1+perm[i])*1000*1_000_000_000
			clock[i] = base[i]
		}
		for i := 0; i < rounds; i++ {
			var pts []model.Point
			for ki, k := range keys {
				if r.IntN(2) == 0 {
					continue
				}
				for n := 1 + r.IntN(3); n > 0; n-- {
					clock[ki] += int64(1+r.IntN(3)) * 1_000_000_000
					p := model.Point{Mst: k.m, Tags: k.se, T: clock[ki], Fields: map[string]model.Value{}}
					for _, f := range u.Fields {
						if r.IntN(3) != 0 {
							p.Fields[f.Name] = kit.Value(r, f.Kind)
						}
					}
					if len(p.Fields) == 0 {
						p.Fields["fi"] = kit.Value(r, 'i')
					}
					pts = append(pts, p)
				}
			}
			add("write", pts)
			if r.IntN(3) != 0 {
				var late []model.Point
				for n := 1 + r.IntN(5); n > 0; n-- {
					ki := r.IntN(len(keys))
					if clock[ki] == base[ki] {
						continue
					}
					// inside the flushed range (between two ordered rows) or below it
					t := base[ki] + r.Int64N(clock[ki]-base[ki]+1) - int64(r.IntN(2))*500_000_000
					if r.IntN(4) == 0 {
						t = base[ki] - int64(1+r.IntN(50))*1_000_000_000
					}
					late = append(late, model.Point{Mst: keys[ki].m, Tags: keys[ki].se, T: t,
						Fields: map[string]model.Value{"fi": kit.Value(r, 'i'), "fs": kit.Value(r, 's')}})
				}
				add("write", late)
			}
			add("flush", nil)
		}
		if r.IntN(2) == 0 {
			add("write", u.GenBatch(r, kit.BatchOpts{MaxPoints: 4, FullRowProb: 0.5}))
		}
		fs.finish()
		return fs
	}
	for i := 0; i < rounds; i++ {
		// ordered part: a fresh later timestamp, some series and fields missing (sparse
		// columns, schema differences between files)
		nt := u.Times[len(u.Times)-1] + 1_000_000_000
		u.Times = append(u.Times, nt)
		var pts []model.Point
		for _, m := range u.Msts {
			for _, se := range u.Series {
				if r.IntN(5) == 0 {
					continue
				}
				p := model.Point{Mst: m, Tags: se, T: nt, Fields: map[string]model.Value{}}
				for _, f := range u.Fields {
					if r.IntN(3) != 0 {
						p.Fields[f.Name] = kit.Value(r, f.Kind)
					}
				}
				if len(p.Fields) == 0 {
					p.Fields["fi"] = kit.Value(r, 'i')
				}
				pts = append(pts, p)
			}
		}
		// nested time ranges inside one file: series k also has a row (k+1)*40 ms before and
		// after the common timestamp (direction alternating from file to file), so that in
		// series-id order some series' range contains the ranges of all series before it
		for k, se := range u.Series {
			w := int64(k+1) * 40_000_000
			if i%2 == 1 {
				w = int64(len(u.Series)-k) * 40_000_000
			}
			for _, t := range []int64{u.Times[len(u.Times)-1] - w, u.Times[len(u.Times)-1] + w} {
				if r.IntN(4) != 0 {
					pts = append(pts, model.Point{Mst: u.Msts[k%len(u.Msts)], Tags: se, T: t,
						Fields: map[string]model.Value{"fi": kit.Value(r, 'i')}})
				}
			}
		}
		// a few extra timestamps in the same file so that a series has several rows/segments
		for k := 0; k < r.IntN(4); k++ {
			nt += 1_000_000
			for _, se := range u.Series {
				if r.IntN(2) == 0 {
					pts = append(pts, model.Point{Mst: u.Msts[r.IntN(len(u.Msts))], Tags: se, T: nt,
						Fields: map[string]model.Value{"fi": kit.Value(r, 'i'), "ff": kit.Value(r, 'f')}})
				}
			}
		}
		add("write", pts)
		// late data: older than what is flushed (becomes out-of-order files), overlapping
		// and not overlapping ordered rows
		if r.IntN(3) != 0 {
			add("write", u.GenBatch(r, kit.BatchOpts{MaxPoints: 5, FullRowProb: 0.3, TimeLo: 0, TimeHi: len(u.Times) - 1}))
		}
		add("flush", nil)
	}
	if r.IntN(2) == 0 {
		// leave something in the memtable / WAL as well
		add("write", u.GenBatch(r, kit.BatchOpts{MaxPoints: 4, FullRowProb: 0.5}))
	}
	fs.finish()
	return fs
}

func (fs *fileSet) finish() {
	set := map[string]bool{}
	fs.schema = map[string]map[string]byte{}
	for _, st := range fs.Steps {
		for _, p := range st.pts {
			set[p.Mst] = true
			if fs.schema[p.Mst] == nil {
				fs.schema[p.Mst] = map[string]byte{}
			}
			for f, v := range p.Fields {
				fs.schema[p.Mst][f] = v.Kind
			}
		}
	}
	fs.msts = nil
	for m := range set {
		fs.msts = append(fs.msts, m)
	}
	sort.Strings(fs.msts)
}

type runner struct {
	c   *vf.Ctx
	bin string
}

// build starts a server and replays the file-set history. Returns the model.
func (rn *runner) build(fs *fileSet, dir string, worker int) (*proc.Server, *model.Model, bool) {
	c := rn.c
	extra := map[string][]string{"data.memtable": {`write-cold-duration = "1h"`, `force-snapShot-duration = "1h"`}}
	for k, v := range fs.extra {
		extra[k] = append(extra[k], v...)
	}
	s := proc.New(proc.Config{BGOff: true, Bin: rn.bin, Dir: dir, IP: proc.IP(3, worker), FS: true, FSMatch: "/data/", Extra: extra})
	if err := s.Start(); err != nil {
		c.Broken("start: %v", err)
		return nil, nil, false
	}
	if err := s.WaitReady(180 * time.Second); err != nil {
		c.Broken("build: %v", err)
		s.Kill()
		return nil, nil, false
	}
	if _, err := s.Query("", "CREATE DATABASE "+db, nil); err != nil {
		c.Broken("create database: %v", err)
		s.Kill()
		return nil, nil, false
	}
	disableBackground(s)
	m := model.New()
	for i, st := range fs.Steps {
		switch st.Op {
		case "write":
			wr := s.Write(db, model.LPBatch(st.pts), nil)
			if !wr.Acked() {
				c.Inconclusive("build-write-rejected", 1)
				fmt.Printf("INCONCLUSIVE C03 set %d step %d: %d %s %v\n", fs.Index, i, wr.Status, wr.Body, wr.Err)
				s.Kill()
				return nil, nil, false
			}
			m.Apply(st.pts)
			if i == 0 {
				if _, err := kit.WaitSeries(s, db, st.pts, 60*time.Second); err != nil {
					c.Inconclusive("series-never-visible", 1)
					s.Kill()
					return nil, nil, false
				}
			}
		case "flush":
			if err := s.Flush(); err != nil {
				c.Broken("flush: %v", err)
				s.Kill()
				return nil, nil, false
			}
		}
	}
	return s, m, true
}

func disableBackground(s *proc.Server) {
	s.HTTP.Post(s.URL()+"/debug/ctrl?mod=compen&switchon=false&allshards=true", "", nil)
	s.HTTP.Post(s.URL()+"/debug/ctrl?mod=merge&switchon=false&allshards=true", "", nil)
}

func reorganise(s *proc.Server, kind string) error {
	switch kind {
	case "level":
		return s.Compact("level")
	case "full":
		return s.Compact("full")
	case kindMergeVsFull:
		// an out-of-order merge held inside its file replacement (it owns its input files
		// until the end) while two full compactions are requested one after the other: the
		// planner has to leave those files alone both times
		if err := s.Points("replace-after-log=sleep(600)"); err != nil {
			return err
		}
		errs := make(chan error, 3)
		go func() { errs <- s.Merge() }()
		for _, d := range []time.Duration{150 * time.Millisecond, 320 * time.Millisecond} {
			go func(d time.Duration) {
				time.Sleep(d)
				errs <- s.Compact("full")
			}(d)
		}
		var first error
		for i := 0; i < 3; i++ {
			if err := <-errs; err != nil && first == nil {
				first = err
			}
		}
		if err := s.Points(""); err != nil && first == nil {
			first = err
		}
		return first
	}
	return s.Merge()
}

const kindMergeVsFull = "merge-while-full-compactions-are-requested"

type fileList struct {
	Ordered   []string
	Unordered []string
}

func listFiles(s *proc.Server) fileList {
	var fl fileList
	o, _ := filepath.Glob(s.DataDir() + "/data/" + db + "/*/*/*/tssp/*/*.tssp")
	u, _ := filepath.Glob(s.DataDir() + "/data/" + db + "/*/*/*/tssp/*/out-of-order/*.tssp")
	for _, f := range o {
		fl.Ordered = append(fl.Ordered, shortName(f))
	}
	for _, f := range u {
		fl.Unordered = append(fl.Unordered, shortName(f))
	}
	return fl
}

func shortName(f string) string {
	parts := strings.Split(f, "/")
	n := len(parts)
	if n >= 3 && parts[n-2] == "out-of-order" {
		return parts[n-3] + "/ooo/" + parts[n-1]
	}
	return parts[n-2] + "/" + parts[n-1]
}

// leftovers: half-written artefacts that must not survive recovery.
func leftovers(s *proc.Server) (out []string, dirty int) {
	_ = filepath.Walk(filepath.Join(s.DataDir(), "data", db), func(p string, info os.FileInfo, err error) error {
		if err != nil || info.IsDir() {
			return nil
		}
		if strings.Contains(p, "/index/") {
			return nil
		}
		if strings.Contains(p, "/compact_log/") {
			// a log that lacks the end-of-log magic is an incomplete ("dirty") log: recovery
			// skips it and it is invisible to every reader; only a COMPLETE log that survives
			// recovery means the replace protocol was not finished
			b, _ := os.ReadFile(p)
			if strings.HasSuffix(string(b), "2021A5A5") {
				out = append(out, strings.TrimPrefix(p, s.DataDir()))
			} else {
				dirty++
			}
			return nil
		}
		if strings.HasSuffix(p, ".init") || strings.HasSuffix(p, ".tmp") {
			out = append(out, strings.TrimPrefix(p, s.DataDir()))
		}
		return nil
	})
	return out, dirty
}

type crashCase struct {
	Kind string `json:"kind"`
	K    int64  `json:"k"`
	K2   int64  `json:"k2,omitempty"`
	// Stop: instead of a crash at file-system step K, the reorganisation is held at this hook
	// point inside its file replacement while the server is asked to shut down cleanly
	// (SIGTERM): the replacement is abandoned half way WITHOUT the process dying on the spot
	// (the shutdown closes the shard; the replacement notices and returns), then the server
	// is started again
	Stop string `json:"graceful_stop_while_held_at,omitempty"`
	// Fail: instead of a crash, the first rename/remove at or after file-system step K fails
	// with an I/O error (the reorganisation gives up half way, the process lives on); the
	// live server must still answer as before, then it is stopped (cleanly for even K, by
	// SIGKILL for odd K) and started again
	Fail bool `json:"io_error_instead_of_crash,omitempty"`
}

var stopPoints = []string{"replace-after-rename", "replace-after-log"}

func witness(fs *fileSet, cc crashCase, extra map[string]any) map[string]any {
	w := map[string]any{"fileset": fs, "case": cc}
	for k, v := range extra {
		w[k] = v
	}
	return w
}

func pathClass(p string) string {
	switch {
	case strings.Contains(p, "compact_log"):
		return "compact-log"
	case strings.Contains(p, ".tssp.init"):
		return "new-file(.init)"
	case strings.Contains(p, "out-of-order") && strings.Contains(p, ".tssp"):
		return "unordered-file"
	case strings.Contains(p, ".tssp"):
		return "ordered-file"
	case strings.Contains(p, "/wal/"):
		return "wal"
	case strings.Contains(p, "/index/"):
		return "index"
	}
	return "other"
}

func firstFatal(s string) string {
	for _, ln := range strings.Split(s, "\n") {
		if strings.HasPrefix(ln, "panic:") || strings.HasPrefix(ln, "fatal error:") {
			if len(ln) > 140 {
				ln = ln[:140]
			}
			return ln
		}
	}
	return "no panic line"
}

// uncrashed runs the reorganisation without faults; returns the number of mutations it
// performed (0 = the planner found nothing to do) .
func (rn *runner) uncrashed(fs *fileSet, kind string, worker int) int64 {
	c := rn.c
	dir := filepath.Join(c.Scratch, fmt.Sprintf("s%d-%s-plain", fs.Index, kind))
	defer os.RemoveAll(dir)
	s, m, ok := rn.build(fs, dir, worker)
	if !ok {
		return 0
	}
	defer s.Kill()
	want := kit.Expect(m, fs.msts, kit.DumpOpts{})
	d0, _, err := kit.StableDump(s, db, fs.msts, fs.schema, func(cur model.Contents) bool { return len(model.Diff(want, cur, "", 1)) == 0 }, 20*time.Second)
	if err != nil {
		c.Inconclusive("dump-error", 1)
		return 0
	}
	if d := model.Diff(want, d0, "", 3); len(d) > 0 {
		c.Inconclusive("dump0-differs-from-model(C02-territory)", 1)
		fmt.Printf("INCONCLUSIVE C03 set %d: contents before the reorganisation already differ from the model: %s\n", fs.Index, strings.Join(d, "; "))
		return 0
	}
	before := listFiles(s)
	fp0 := ""
	if fs.SingleWrite {
		fp0, _ = aggFingerprint(s, fs)
	}
	n0, _ := s.FsCount()
	if err := reorganise(s, kind); err != nil {
		if !s.Alive() {
			c.Violation("reorganisation-crash:"+kind+":"+firstFatal(s.StdoutTail(1<<20)), fmt.Sprintf("file set %d (%s): server died during un-crashed %s: %s", fs.Index, fs.Config, kind, firstFatal(s.StdoutTail(1<<20))),
				witness(fs, crashCase{Kind: kind}, map[string]any{"stdout": s.StdoutTail(6000)}))
			return 0
		}
		c.Inconclusive("reorganisation-error", 1)
		return 0
	}
	n1, _ := s.FsCount()
	after := listFiles(s)
	c.Eval(1)
	changed := strings.Join(before.Ordered, ",")+"|"+strings.Join(before.Unordered, ",") != strings.Join(after.Ordered, ",")+"|"+strings.Join(after.Unordered, ",")
	if changed {
		c.Count("plans-executed:"+kind, 1)
		c.Nontrivial(fmt.Sprintf("plain|%s|%d->%d ordered,%d->%d unordered|%s", kind, len(before.Ordered), len(after.Ordered), len(before.Unordered), len(after.Unordered), fs.Config))
		if c.DistinctCount("plan-sample") < 6 {
			c.Distinct("plan-sample", fmt.Sprintf("%s (%s): %d ordered + %d unordered files -> %d ordered + %d unordered, e.g. %v -> %v", kind, fs.Config, len(before.Ordered), len(before.Unordered), len(after.Ordered), len(after.Unordered), head(before.Ordered, 3), head(after.Ordered, 2)))
		}
	} else {
		c.Count("plans-empty:"+kind, 1)
	}
	for _, o := range []kit.DumpOpts{{}, {Desc: true}} {
		got, probs, err := kit.Dump(s, db, fs.msts, fs.schema, o)
		if err != nil {
			if !s.Alive() {
				c.Violation("reorganisation-crash:"+kind+":"+firstFatal(s.StdoutTail(1<<20)), fmt.Sprintf("file set %d (%s): server died after %s while answering", fs.Index, fs.Config, kind),
					witness(fs, crashCase{Kind: kind}, map[string]any{"stdout": s.StdoutTail(6000)}))
				return 0
			}
			c.Inconclusive("dump-error", 1)
			return 0
		}
		for _, p := range probs {
			c.Violation("structure:"+p.Kind, fmt.Sprintf("file set %d after %s: %s", fs.Index, kind, p.Msg), witness(fs, crashCase{Kind: kind}, nil))
			return 0
		}
		if d := model.Diff(d0, got, "", 6); len(d) > 0 {
			c.Violation("answer-changed-by:"+kind, fmt.Sprintf("file set %d (%s): dump after %s differs from dump before: %s", fs.Index, fs.Config, kind, strings.Join(d, "; ")),
				witness(fs, crashCase{Kind: kind}, map[string]any{"diff": d, "files_before": before, "files_after": after}))
			return 0
		}
	}
	if fs.SingleWrite && fp0 != "" {
		if fp1, err := aggFingerprint(s, fs); err == nil {
			c.Count("aggregate-fingerprints-compared", 1)
			if d := fpDiff(fp0, fp1); d != "" {
				c.Violation("aggregate-answer-changed-by:"+kind, fmt.Sprintf("file set %d (%s, every key written once): aggregate answers differ before/after %s: %s", fs.Index, fs.Config, kind, d),
					witness(fs, crashCase{Kind: kind}, map[string]any{"diff": d}))
				return 0
			}
		}
	}
	if what, d := windowDiff(s, fs, d0); d != "" {
		c.Violation("time-bounded-answer-changed-by:"+kind, fmt.Sprintf("file set %d (%s): dump of the time window %s after %s differs from the same window of the dump before: %s", fs.Index, fs.Config, what, kind, d),
			witness(fs, crashCase{Kind: kind}, map[string]any{"window": what, "diff": d, "files_before": before, "files_after": after}))
		return 0
	}
	c.Count("time-window-dumps-compared", 21)
	if !changed {
		return 0
	}
	return n1 - n0
}

// windowDiff reads time windows (the oldest / newest fifth, the middle, the newest and the
// oldest single timestamp, sixteen tiles of the span) and compares each with the same window
// cut out of the full dump d0 taken before the reorganisation: the files' time ranges
// (trailer, meta index, segment ranges) decide which files a bounded read opens, and a
// full-range dump never consults them.
func windowDiff(s *proc.Server, fs *fileSet, d0 model.Contents) (string, string) {
	if len(d0) == 0 {
		return "", ""
	}
	first := true
	var tmin, tmax int64
	for k := range d0 {
		if first || k.T < tmin {
			tmin = k.T
		}
		if first || k.T > tmax {
			tmax = k.T
		}
		first = false
	}
	span := tmax - tmin
	type win struct {
		name   string
		lo, hi int64
	}
	wins := []win{
		{"oldest-fifth", tmin, tmin + span/5},
		{"newest-fifth", tmax - span/5, tmax},
		{"middle", tmin + 2*span/5, tmin + 3*span/5},
		{"newest-timestamp", tmax, tmax},
		{"oldest-timestamp", tmin, tmin},
	}
	// every series' oldest and newest timestamp
	sMin, sMax := map[string]int64{}, map[string]int64{}
	for k := range d0 {
		id := k.Mst + "|" + k.Series
		if v, ok := sMin[id]; !ok || k.T < v {
			sMin[id] = k.T
		}
		if v, ok := sMax[id]; !ok || k.T > v {
			sMax[id] = k.T
		}
	}
	ids := make([]string, 0, len(sMin))
	for id := range sMin {
		ids = append(ids, id)
	}
	sort.Strings(ids)
	for _, id := range ids {
		wins = append(wins, win{"oldest-of-" + id, sMin[id], sMin[id]}, win{"newest-of-" + id, sMax[id], sMax[id]})
	}
	// and sixteen windows tiling the whole span: a file whose recorded range is too narrow
	// may sit anywhere in it
	for i := int64(0); i < 16; i++ {
		wins = append(wins, win{fmt.Sprintf("tile-%d/16", i), tmin + span*i/16, tmin + span*(i+1)/16})
	}
	for _, w := range wins {
		lo, hi := w.lo, w.hi
		want := model.Contents{}
		for k, row := range d0 {
			if k.T >= lo && k.T <= hi {
				want[k] = row
			}
		}
		got, _, err := kit.Dump(s, db, fs.msts, fs.schema, kit.DumpOpts{TMin: &lo, TMax: &hi})
		if err != nil {
			continue
		}
		if d := model.Diff(want, got, "", 6); len(d) > 0 {
			return fmt.Sprintf("%s [%d,%d]", w.name, lo, hi), strings.Join(d, "; ")
		}
	}
	return "", ""
}

func (rn *runner) crashed(fs *fileSet, cc crashCase, worker, caseNo int) {
	c := rn.c
	dir := filepath.Join(c.Scratch, fmt.Sprintf("s%d-%s-k%d-%d", fs.Index, cc.Kind, cc.K, caseNo))
	defer os.RemoveAll(dir)
	s, m, ok := rn.build(fs, dir, worker)
	if !ok {
		return
	}
	defer s.Kill()
	want := kit.Expect(m, fs.msts, kit.DumpOpts{})
	d0, _, err := kit.StableDump(s, db, fs.msts, fs.schema, func(cur model.Contents) bool { return len(model.Diff(want, cur, "", 1)) == 0 }, 20*time.Second)
	if err != nil || len(model.Diff(want, d0, "", 1)) > 0 {
		c.Inconclusive("dump0-unusable", 1)
		return
	}
	fp0 := ""
	if fs.SingleWrite {
		fp0, _ = aggFingerprint(s, fs)
	}
	var dl, pos string
	kindLabel := cc.Kind
	if cc.Stop != "" {
		kindLabel += "|graceful-stop@" + cc.Stop
	}
	if cc.Stop != "" {
		n0 := int64(0)
		if st, err := s.State(db); err == nil {
			n0 = st.Points[cc.Stop]
		}
		if err := s.Points(cc.Stop + "=sleep(2500)"); err != nil {
			c.Broken("points: %v", err)
			return
		}
		// the file sets are built with background compaction and merge switched off; switch them
		// on again (as in production) so that the shutdown has a stop signal to give to the
		// reorganisation in flight — whichever reorganisation reaches the point first is held
		s.HTTP.Post(s.URL()+"/debug/ctrl?mod=compen&switchon=true&allshards=true", "", nil)
		s.HTTP.Post(s.URL()+"/debug/ctrl?mod=merge&switchon=true&allshards=true", "", nil)
		go func() { _ = reorganise(s, cc.Kind) }()
		reached := false
		for t := 0; t < 200 && !reached; t++ {
			time.Sleep(25 * time.Millisecond)
			if st, err := s.State(db); err == nil {
				reached = st.Points[cc.Stop] > n0
			}
		}
		if !reached {
			c.Inconclusive("graceful-stop:point-not-reached", 1)
			return
		}
		clean := s.Stop(60 * time.Second)
		c.Count("graceful-stops-inside-a-file-replacement", 1)
		if os.Getenv("C03_DEBUG") != "" {
			fmt.Printf("DEBUG graceful stop %s %s clean=%v\n%s\n", cc.Kind, cc.Stop, clean, tailLines(s.StdoutTail(1<<16), 25))
		}
		if !clean {
			c.Count("graceful-stops-that-needed-a-kill-after-60s", 1)
		}
		dl = "graceful stop (SIGTERM) while " + cc.Kind + " was held at " + cc.Stop
		pos = "graceful-stop@" + cc.Stop
	} else if cc.Fail {
		if err := s.FsFail(cc.K); err != nil {
			c.Broken("fail arm: %v", err)
			return
		}
		_ = reorganise(s, cc.Kind)
		_ = s.FsFail(0)
		dl = s.DieLog()
		if !strings.Contains(dl, "failed=EIO") {
			c.Count("io-error-cases-in-which-no-rename-or-remove-followed-step-k", 1)
			return
		}
		pos = "?"
		if f := strings.Fields(dl); len(f) >= 3 {
			pos = "io-error@" + f[1] + "/" + pathClass(f[2])
		}
		kindLabel += "|io-error"
		c.Count("io-errors-injected-into-a-reorganisation", 1)
		if !s.Alive() {
			c.Violation("server-died-after-io-error-in:"+cc.Kind+":"+firstFatal(s.StdoutTail(1<<20)), fmt.Sprintf("file set %d (%s): [%s] during %s: the server died: %s", fs.Index, fs.Config, dl, cc.Kind, firstFatal(s.StdoutTail(1<<20))),
				witness(fs, cc, map[string]any{"failed_step": dl, "stdout": s.StdoutTail(6000)}))
			return
		}
		// the live server, after the reorganisation gave up: same answers
		live, _, err := kit.StableDump(s, db, fs.msts, fs.schema, func(cur model.Contents) bool { return len(model.Diff(d0, cur, "", 1)) == 0 }, 10*time.Second)
		if err == nil {
			if d := model.Diff(d0, live, "", 6); len(d) > 0 {
				c.Violation("contents-changed-by-a-failed:"+cc.Kind+"|io-error|live", fmt.Sprintf("file set %d (%s): [%s] during %s: the running server answers differently afterwards: %s", fs.Index, fs.Config, dl, cc.Kind, strings.Join(d, "; ")),
					witness(fs, cc, map[string]any{"failed_step": dl, "diff": d, "files": listing(s), "server_log_errors": grepErrors(s)}))
				return
			}
		}
		if cc.K%2 == 0 {
			s.Stop(60 * time.Second)
			dl += " then clean shutdown"
		} else {
			s.Kill()
			dl += " then SIGKILL"
		}
	} else {
		if err := s.FsArm(cc.K, 0); err != nil {
			c.Broken("arm: %v", err)
			return
		}
		_ = reorganise(s, cc.Kind)
		if s.Alive() && !s.WaitExit(2*time.Second) {
			_ = s.FsArm(0, 0)
			c.Inconclusive("arm-not-reached", 1)
			return
		}
		dl = s.DieLog()
		pos = "?"
		if f := strings.Fields(dl); len(f) >= 3 {
			pos = f[1] + "/" + pathClass(f[2])
		}
	}
	atCrash := listing(s)
	var env []string
	if cc.K2 > 0 {
		env = append(env, fmt.Sprintf("VERIF_FS_ARM=%d", cc.K2))
	}
	if err := s.Start(env...); err != nil {
		c.Broken("restart: %v", err)
		return
	}
	second := ""
	if cc.K2 > 0 {
		deadline := time.Now().Add(90 * time.Second)
		for s.Alive() && time.Now().Before(deadline) {
			if err := s.WaitReady(500 * time.Millisecond); err == nil {
				break
			}
		}
		if !s.Alive() {
			second = s.DieLog()
			if err := s.Start(); err != nil {
				c.Broken("second restart: %v", err)
				return
			}
		}
	}
	if err := s.WaitReady(120 * time.Second); err != nil {
		if !s.Alive() {
			c.Violation("recovery-crash:"+kindLabel+":"+firstFatal(s.StdoutTail(1<<20)), fmt.Sprintf("file set %d (%s): after a crash before [%s] of %s the server cannot start: %s", fs.Index, fs.Config, dl, cc.Kind, firstFatal(s.StdoutTail(1<<20))),
				witness(fs, cc, map[string]any{"died_before": dl, "stdout": s.StdoutTail(6000)}))
			return
		}
		c.Inconclusive("recovery-not-ready", 1)
		return
	}
	disableBackground(s)
	if os.Getenv("C03_DEBUG") != "" && cc.Stop != "" {
		short := func(l []string) string {
			var o []string
			for _, x := range l {
				if i := strings.Index(x, "/tssp/"); i >= 0 {
					x = x[i+6:]
				} else if i := strings.Index(x, "compact_log"); i >= 0 {
					x = x[i:]
				}
				o = append(o, strings.Fields(x)[0])
			}
			return strings.Join(o, " ")
		}
		fmt.Printf("DEBUG %s %s\n  at stop:       %s\n  after restart: %s\n", cc.Kind, cc.Stop, short(atCrash), short(listing(s)))
	}
	got, probs, err := kit.StableDump(s, db, fs.msts, fs.schema, func(cur model.Contents) bool { return len(model.Diff(d0, cur, "", 1)) == 0 }, 25*time.Second)
	if err != nil {
		c.Inconclusive("recovery-dump-error", 1)
		return
	}
	c.Eval(1)
	key := cc.Kind + "|" + pos
	if second != "" {
		if f := strings.Fields(second); len(f) >= 3 {
			key += "|recovery:" + f[1] + "/" + pathClass(f[2])
		}
		c.Count("double-crash-cases", 1)
	}
	c.Distinct("crash-position(kind|mutation/path-class)", key)
	c.Nontrivial(key)
	for _, p := range probs {
		c.Violation("structure:"+p.Kind, fmt.Sprintf("file set %d after crash %s: %s", fs.Index, key, p.Msg), witness(fs, cc, map[string]any{"died_before": dl}))
		return
	}
	if d := model.Diff(d0, got, "", 6); len(d) > 0 {
		c.Violation("contents-changed-after-crash-in:"+kindLabel, fmt.Sprintf("file set %d (%s): crash before [%s] of %s, after recovery: %s", fs.Index, fs.Config, dl, cc.Kind, strings.Join(d, "; ")),
			witness(fs, cc, map[string]any{"died_before": dl, "second": second, "diff": d, "files_at_crash": atCrash, "files_after_recovery": listing(s), "server_log_errors": grepErrors(s)}))
		return
	}
	if fs.SingleWrite && fp0 != "" {
		if fp1, err := aggFingerprint(s, fs); err == nil {
			c.Count("aggregate-fingerprints-compared", 1)
			if d := fpDiff(fp0, fp1); d != "" {
				sig := "aggregate-answer-changed-after-crash-in:" + kindLabel
				if cc.Kind == "merge" && len(listFiles(s).Unordered) > 0 {
					// the merged ordered files are in place but the out-of-order inputs were not
					// removed: their rows now exist twice on disk
					sig += "|out-of-order-inputs-survive-next-to-merged-files"
				}
				c.Violation(sig, fmt.Sprintf("file set %d (%s, every key written once): crash before [%s] of %s: aggregate answers differ after recovery (rows duplicated or lost in files): %s", fs.Index, fs.Config, dl, cc.Kind, d),
					witness(fs, cc, map[string]any{"died_before": dl, "diff": d, "files_at_crash": atCrash, "files_after_recovery": listing(s)}))
				return
			}
		}
	}
	lo, dirty := leftovers(s)
	if dirty > 0 {
		c.Count("incomplete-compact-logs-left-on-disk(not-gating)", int64(dirty))
	}
	if len(lo) > 0 {
		c.Violation("leftover-after-recovery:"+classifyLeftover(lo[0]), fmt.Sprintf("file set %d: crash before [%s] of %s, after recovery these half-written artefacts remain: %v", fs.Index, dl, cc.Kind, lo),
			witness(fs, cc, map[string]any{"died_before": dl, "leftovers": lo}))
		return
	}
	if log := grepLog(s, "NotAllTsspFileOpenSuccess"); log != "" {
		c.Violation("file-failed-to-load-after-crash", fmt.Sprintf("file set %d: crash before [%s] of %s: %s", fs.Index, dl, cc.Kind, log), witness(fs, cc, map[string]any{"died_before": dl}))
		return
	}
	// the interrupted reorganisation can be done again and still changes nothing
	if err := reorganise(s, cc.Kind); err == nil {
		got2, _, err := kit.Dump(s, db, fs.msts, fs.schema, kit.DumpOpts{})
		if err == nil {
			if d := model.Diff(d0, got2, "", 6); len(d) > 0 {
				c.Violation("answer-changed-by:"+cc.Kind+"-after-recovery", fmt.Sprintf("file set %d: %s repeated after crash recovery changed the contents: %s", fs.Index, cc.Kind, strings.Join(d, "; ")),
					witness(fs, cc, map[string]any{"died_before": dl, "diff": d}))
			}
		}
	}
}

func classifyLeftover(p string) string {
	switch {
	case strings.Contains(p, "compact_log"):
		return "compact-log"
	case strings.HasSuffix(p, ".init"):
		return "init-file"
	}
	return "tmp-file"
}

func grepLog(s *proc.Server, needle string) string {
	files, _ := filepath.Glob(filepath.Join(s.LogDir(), "*.log"))
	for _, f := range files {
		b, err := os.ReadFile(f)
		if err != nil {
			continue
		}
		if i := strings.Index(string(b), needle); i >= 0 {
			st := i - 200
			if st < 0 {
				st = 0
			}
			return string(b[st:min(len(b), i+200)])
		}
	}
	return ""
}

func main() {
	c := vf.New("C03", "fault_enumeration")
	c.SetRule("seeded file sets (>=8 ordered level-0 files per measurement, overlapping and disjoint out-of-order files, sparse columns, schema differences, multi-segment series; default / small-segment / non-streaming configurations) on a real ts-server; each of level compaction, full compaction, out-of-order merge is run un-crashed (dump before == dump after) and with the server SIGKILLing itself before the k-th file-system mutation of that reorganisation (quick: every k of one level compaction and one merge plus samples; thorough: every k of every kind), with second crashes inside recovery; distinct non-trivial = distinct (kind | mutation/path class [| recovery mutation]) or distinct executed plan shape")
	c.Assume("process death (SIGKILL), not power loss")
	c.Assume("plans are those the real planner picks for the generated file sets")
	bin, err := proc.Build(c.RepoDir, c.Scratch, "ts-server", false)
	if err != nil {
		c.Broken("build ts-server: %v", err)
		c.Finish()
	}
	rn := &runner{c: c, bin: bin}
	if c.ReplayIn != "" {
		replay(rn)
		c.Finish()
	}
	nsets := c.Pick(4, 16)
	par := 8
	sem := make(chan int, par)
	for i := 0; i < par; i++ {
		sem <- i
	}
	var wg sync.WaitGroup
	kinds := []string{"level", "full", "merge"}
	type plan struct {
		fs   *fileSet
		kind string
		m    int64
	}
	var mu sync.Mutex
	var plans []plan
	for i := 0; i < nsets; i++ {
		fs := genFileSet(c.Rand(uint64(300+i)), i)
		if i == 0 {
			var ops []string
			for _, st := range fs.Steps {
				if st.Op == "write" {
					ops = append(ops, fmt.Sprintf("write(%d)", len(st.pts)))
				} else {
					ops = append(ops, st.Op)
				}
			}
			c.Sample(map[string]any{"fileset": 0, "config": fs.Config, "ops": strings.Join(ops, " "), "a_batch": fs.Steps[2].Points[:min(3, len(fs.Steps[2].Points))]})
		}
		for _, k := range append(append([]string(nil), kinds...), kindMergeVsFull) {
			w := <-sem
			wg.Add(1)
			go func(fs *fileSet, k string, w int) {
				defer func() { sem <- w; wg.Done() }()
				m := rn.uncrashed(fs, k, w)
				if m > 0 && k != kindMergeVsFull {
					mu.Lock()
					plans = append(plans, plan{fs, k, m})
					mu.Unlock()
				}
			}(fs, k, w)
		}
	}
	wg.Wait()
	sort.Slice(plans, func(i, j int) bool {
		if plans[i].fs.Index != plans[j].fs.Index {
			return plans[i].fs.Index < plans[j].fs.Index
		}
		return plans[i].kind < plans[j].kind
	})
	// crash positions
	r := c.Rand(999)
	exhaustiveLeft := map[string]int{"level": c.Pick(1, 4), "full": c.Pick(0, 3), "merge": c.Pick(0, 4)}
	caseNo := 0
	total := 0
	for _, p := range plans {
		var ks []int64
		if exhaustiveLeft[p.kind] > 0 {
			exhaustiveLeft[p.kind]--
			for k := int64(1); k <= p.m; k++ {
				ks = append(ks, k)
			}
			c.Count("reorganisations-enumerated-exhaustively:"+p.kind, 1)
		} else {
			n := c.Pick(5, 10)
			for i := 0; i < n; i++ {
				ks = append(ks, 1+r.Int64N(p.m))
			}
		}
		var cases []crashCase
		for _, k := range ks {
			cases = append(cases, crashCase{Kind: p.kind, K: k})
		}
		nd := c.Pick(1, 4)
		for i := 0; i < nd; i++ {
			cases = append(cases, crashCase{Kind: p.kind, K: 1 + r.Int64N(p.m), K2: 1 + r.Int64N(30)})
		}
		// an I/O error instead of a crash at some of the same steps
		// EXPLORATORY, not part of the registered check (C03_IO_ERRORS=1): an I/O error is not in
		// the property's domain (it quantifies over crashes), and the unchanged tree does lose
		// rows on the live server when the delete of an old file fails half way through a
		// replacement (see DESIGN 10b) - reporting that under C03 would demand more than it states
		nfail := 0
		if os.Getenv("C03_IO_ERRORS") != "" {
			nfail = c.Pick(3, 8)
		}
		if exh := len(ks) == int(p.m); exh && nfail > 0 {
			nfail = int(p.m) // exhaustively enumerated reorganisations: every step
		}
		for i := 0; i < nfail; i++ {
			k := 1 + r.Int64N(p.m)
			if nfail == int(p.m) {
				k = int64(i + 1)
			}
			cases = append(cases, crashCase{Kind: p.kind, K: k, Fail: true})
		}
		// graceful stop while the reorganisation is held inside its file replacement
		for i, sp := range stopPoints {
			if i == 0 || c.Thorough() || p.fs.Index%2 == 0 {
				cases = append(cases, crashCase{Kind: p.kind, Stop: sp})
			}
		}
		total += len(cases)
		for _, cc := range cases {
			w := <-sem
			wg.Add(1)
			caseNo++
			go func(fs *fileSet, cc crashCase, w, n int) {
				defer func() { sem <- w; wg.Done() }()
				rn.crashed(fs, cc, w, n)
			}(p.fs, cc, w, caseNo)
		}
	}
	wg.Wait()
	c.Extra("crash_cases_planned", total)
	c.Finish()
}

func replay(rn *runner) {
	b, err := os.ReadFile(rn.c.ReplayIn)
	if err != nil {
		rn.c.Broken("replay: %v", err)
		return
	}
	var w struct {
		Witness struct {
			Fileset fileSet   `json:"fileset"`
			Case    crashCase `json:"case"`
		} `json:"witness"`
	}
	if err := json.Unmarshal(b, &w); err != nil {
		rn.c.Broken("replay: %v", err)
		return
	}
	fs := &w.Witness.Fileset
	for i := range fs.Steps {
		for _, ln := range fs.Steps[i].Points {
			p, err := model.ParseLP(ln)
			if err != nil {
				rn.c.Broken("replay: %v", err)
				return
			}
			fs.Steps[i].pts = append(fs.Steps[i].pts, p)
		}
	}
	switch fs.Config {
	case "small-segments":
		fs.extra = map[string][]string{"data": {"max-rows-per-segment = 5"}}
	case "non-streaming-compact":
		fs.extra = map[string][]string{"data": {"compaction-method = 1"}}
	}
	fs.finish()
	if kr := os.Getenv("VERIF_C03_KRANGE"); kr != "" {
		var a, b int64
		fmt.Sscanf(kr, "%d-%d", &a, &b)
		var wg sync.WaitGroup
		sem := make(chan int, 8)
		for i := 0; i < 8; i++ {
			sem <- i
		}
		for k := a; k <= b; k++ {
			w0 := <-sem
			wg.Add(1)
			go func(k int64, w0 int) {
				defer func() { sem <- w0; wg.Done() }()
				cc := w.Witness.Case
				cc.K = k
				rn.crashed(fs, cc, w0, int(k))
			}(k, w0)
		}
		wg.Wait()
	} else if w.Witness.Case.K > 0 {
		rn.crashed(fs, w.Witness.Case, 0, 0)
	} else {
		rn.uncrashed(fs, w.Witness.Case.Kind, 0)
	}
	rn.c.Nontrivial("replay-a")
	rn.c.Nontrivial("replay-b")
}

func head(xs []string, n int) []string {
	if len(xs) > n {
		return xs[:n]
	}
	return xs
}

// listing: data files (name and size) of the database, index excluded.
func listing(s *proc.Server) []string {
	var out []string
	root := filepath.Join(s.DataDir(), "data", db)
	_ = filepath.Walk(root, func(p string, info os.FileInfo, err error) error {
		if err != nil || info.IsDir() || strings.Contains(p, "/index/") {
			return nil
		}
		out = append(out, fmt.Sprintf("%s %d", strings.TrimPrefix(p, root), info.Size()))
		return nil
	})
	return out
}

func grepErrors(s *proc.Server) []string {
	var out []string
	files, _ := filepath.Glob(filepath.Join(s.LogDir(), "*.log"))
	for _, f := range files {
		b, err := os.ReadFile(f)
		if err != nil {
			continue
		}
		for _, ln := range strings.Split(string(b), "\n") {
			if strings.Contains(ln, `"level":"error"`) || strings.Contains(ln, `"level":"warn"`) {
				if len(ln) > 400 {
					ln = ln[:400]
				}
				out = append(out, ln)
				if len(out) > 40 {
					return out
				}
			}
		}
	}
	return out
}

// aggFingerprint: aggregate answers (statistics push-down, no hint) per measurement.
func aggFingerprint(s *proc.Server, fs *fileSet) (string, error) {
	var b strings.Builder
	for _, m := range fs.msts {
		for _, q := range []string{
			"SELECT count(fi), sum(fi), count(ff), count(fs), count(fb) FROM " + m + " GROUP BY *",
			"SELECT count(fi), sum(fi) FROM " + m,
			fmt.Sprintf("SELECT count(ff) FROM %s WHERE time >= %d AND time <= %d GROUP BY time(5s) fill(none)", m, kit.BaseTime-5_000_000_000, kit.BaseTime+100_000_000_000),
		} {
			res, err := s.Query(db, q, nil)
			if err != nil {
				return "", err
			}
			var lines []string
			if len(res.Results) > 0 {
				for _, se := range res.Results[0].Series {
					lines = append(lines, fmt.Sprintf("%s %v %v", model.SeriesKey(se.Tags), se.Columns, se.Values))
				}
			}
			sort.Strings(lines)
			b.WriteString(q + " => " + strings.Join(lines, " | ") + "\n")
		}
	}
	return b.String(), nil
}

func fpDiff(a, b string) string {
	la, lb := strings.Split(a, "\n"), strings.Split(b, "\n")
	for i := range la {
		if i >= len(lb) || la[i] != lb[i] {
			x := ""
			if i < len(lb) {
				x = lb[i]
			}
			if len(x) > 600 {
				x = x[:600]
			}
			y := la[i]
			if len(y) > 600 {
				y = y[:600]
			}
			return "before: " + y + " || after: " + x
		}
	}
	return ""
}

func tailLines(t string, n int) string {
	ls := strings.Split(strings.TrimRight(t, "\n"), "\n")
	if len(ls) > n {
		ls = ls[len(ls)-n:]
	}
	for i := range ls {
		if len(ls[i]) > 220 {
			ls[i] = ls[i][:220]
		}
	}
	return strings.Join(ls, "\n")
}
