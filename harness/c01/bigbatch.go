package main

// Big-batch round: the line-protocol endpoint cuts a request into blocks of at most 64 KiB,
// so a write-ahead-log record written through it stays small. The Prometheus remote-write
// endpoint hands the whole (snappy-compressed protobuf) request to the points writer in one
// piece: several thousand series with long, incompressible label values in one request give ONE
// log record of several MiB. The request is acknowledged, the server is SIGKILLed (nothing was
// flushed), and after the restart every series of the request must be there — and so must a
// small ordinary write acknowledged after the big one (it sits behind it in the same log).

import (
	"bytes"
	"encoding/hex"
	"fmt"
	"io"
	"net/http"
	"os"
	"path/filepath"
	"strconv"
	"time"

	"github.com/golang/snappy"
	"github.com/prometheus/prometheus/prompb"
)

func (rn *runner) bigBatchRound(worker int) {
	c := rn.c
	dir := filepath.Join(c.Scratch, "bigbatch")
	defer os.RemoveAll(dir)
	s := rn.newServer(dir, worker, 0)
	if err := s.Start(); err != nil {
		c.Broken("start: %v", err)
		return
	}
	defer s.Kill()
	if err := s.WaitReady(180 * time.Second); err != nil {
		c.Broken("big-batch round start: %v", err)
		return
	}
	const pdb = "bigdb"
	if _, err := s.Query("", "CREATE DATABASE "+pdb, nil); err != nil {
		c.Broken("create database: %v", err)
		return
	}
	r := c.Rand(880001)
	nSeries := c.Pick(3500, 6000)
	tms := int64(1_700_000_000_000)
	var req prompb.WriteRequest
	rawLabels := 0
	for i := 0; i < nSeries; i++ {
		buf := make([]byte, 400) // 800 hex characters of noise per series: snappy cannot shrink them much
		for j := range buf {
			buf[j] = byte(r.IntN(256))
		}
		noise := hex.EncodeToString(buf)
		rawLabels += len(noise)
		req.Timeseries = append(req.Timeseries, prompb.TimeSeries{
			Labels:  []prompb.Label{{Name: "__name__", Value: "bigm"}, {Name: "i", Value: strconv.Itoa(i)}, {Name: "noise", Value: noise}},
			Samples: []prompb.Sample{{Timestamp: tms, Value: float64(i)}},
		})
	}
	raw, err := req.Marshal()
	if err != nil {
		c.Broken("marshal: %v", err)
		return
	}
	hreq, _ := http.NewRequest("POST", s.URL()+"/api/v1/write?db="+pdb, bytes.NewReader(snappy.Encode(nil, raw)))
	hreq.Header.Set("Content-Encoding", "snappy")
	hreq.Header.Set("Content-Type", "application/x-protobuf")
	resp, err := s.HTTP.Do(hreq)
	if err != nil {
		c.Inconclusive("big-batch:request-failed", 1)
		return
	}
	b, _ := io.ReadAll(resp.Body)
	resp.Body.Close()
	if resp.StatusCode != 204 {
		c.Inconclusive("big-batch:not-acknowledged", 1)
		fmt.Printf("INCONCLUSIVE C01 big batch answered %d %.200s\n", resp.StatusCode, b)
		return
	}
	// a small write acknowledged after it, into the same shard
	small := s.Write(pdb, fmt.Sprintf("bigm,i=after,noise=none value=-1 %d", tms*1_000_000), nil)
	s.Kill()
	if err := s.Start(); err != nil {
		c.Broken("big-batch round restart: %v", err)
		return
	}
	if err := s.WaitReady(180 * time.Second); err != nil {
		if !s.Alive() {
			c.Violation("recovery-crash:"+firstFatal(s.StdoutTail(1<<20)), "big-batch round: server cannot start after the kill: "+firstFatal(s.StdoutTail(1<<20)),
				map[string]any{"part": "big-batch-round", "stdout": tailFrom(s.StdoutTail(1<<20), 5000)})
			return
		}
		c.Inconclusive("recovery-not-ready", 1)
		return
	}
	count := func() (int64, bool) {
		res, err := s.Query(pdb, "SELECT count(value) FROM bigm", nil)
		if err != nil || len(res.Results) == 0 {
			return 0, false
		}
		if len(res.Results[0].Series) == 0 {
			return 0, true
		}
		v := res.Results[0].Series[0].Values
		if len(v) == 0 || len(v[0]) < 2 {
			return 0, true
		}
		n, err := strconv.ParseInt(fmt.Sprint(v[0][1]), 10, 64)
		return n, err == nil
	}
	want := int64(nSeries)
	if small.Acked() {
		want++
	}
	var got int64
	ok := false
	for t := 0; t < 60; t++ { // the rows of the replayed log become visible with the usual lag
		got, ok = count()
		if ok && got >= want {
			break
		}
		time.Sleep(500 * time.Millisecond)
	}
	if !ok {
		c.Inconclusive("recovery-dump-error", 1)
		return
	}
	c.Eval(1)
	c.Count("big-batch-rounds", 1)
	c.Count("big-batch/series-in-one-request", int64(nSeries))
	c.Count("big-batch/bytes-of-incompressible-label-values", int64(rawLabels))
	c.Nontrivial("big-batch|one-log-record-of-several-MiB|kill-before-any-flush")
	c.Distinct("crash-position(step-kind|mutation|path-class)", "big-batch|external-kill-before-any-flush")
	if got < want {
		c.Violation("big-batch|lost-acknowledged-points",
			fmt.Sprintf("big-batch round: one remote-write request with %d series (%d bytes of incompressible label values) was acknowledged, then a small write (acknowledged: %v), SIGKILL before any flush: after recovery count(value) = %d, expected %d",
				nSeries, rawLabels, small.Acked(), got, want),
			map[string]any{"part": "big-batch-round", "series": nSeries, "label_bytes": rawLabels, "small_write_acknowledged": small.Acked(), "count_after_recovery": got, "expected": want, "seed": c.Seed})
	}
}
