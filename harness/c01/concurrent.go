package main

// Concurrent rounds: the sequential histories never have a write in flight while a flush
// switches the write-ahead log. Here several clients write as fast as they can while the
// control port forces a flush; as soon as the flush has returned and every request in
// flight has been answered, the server is SIGKILLed (no further flush), restarted, and
// every acknowledged point must still be there with its value.

import (
	"fmt"
	"os"
	"path/filepath"
	"sort"
	"strconv"
	"sync"
	"sync/atomic"
	"time"

	"verifharness/kit"
	"verifharness/model"
)

type cwPoint struct {
	W      int   `json:"writer"`
	T      int64 `json:"time_ns"`
	V      int64 `json:"value"`
	Seq    int64 `json:"ack_order"`   // position of the acknowledgement in the global order
	Cycle  int   `json:"cycle"`       // kill/restart cycle of the round
	Phase  int   `json:"flush_phase"` // number of forced flushes of the cycle that had been requested when the write was sent
	During bool  `json:"sent_while_a_flush_was_running"`
	NewSe  bool  `json:"first_point_of_a_new_series,omitempty"` // the write creates a series (tag n=<sequence number>)
}

func (p cwPoint) tags() map[string]string {
	if p.NewSe {
		return map[string]string{"w": strconv.Itoa(p.W), "n": strconv.FormatInt(p.V&0xffffffff, 10)}
	}
	return map[string]string{"w": strconv.Itoa(p.W)}
}

const cwMst = "cw"

func (rn *runner) concurrentRound(round, worker int) {
	c := rn.c
	dir := filepath.Join(c.Scratch, fmt.Sprintf("cw-%d", round))
	defer os.RemoveAll(dir)
	s := rn.newServer(dir, worker, 0)
	if err := s.Start(); err != nil {
		c.Broken("start: %v", err)
		return
	}
	defer s.Kill()
	if err := s.WaitReady(180 * time.Second); err != nil {
		c.Broken("concurrent round start: %v", err)
		return
	}
	if _, err := s.Query("", "CREATE DATABASE "+db, nil); err != nil {
		c.Broken("create database: %v", err)
		return
	}
	r := c.Rand(uint64(770000 + round))
	writers := 24
	base := kit.BaseTime
	// one point per writer first, so that every series exists and is visible
	var seed []model.Point
	for w := 0; w < writers; w++ {
		seed = append(seed, model.Point{Mst: cwMst, Tags: map[string]string{"w": strconv.Itoa(w)}, T: base, Fields: map[string]model.Value{"v": model.Int(int64(w) << 32)}})
	}
	if wr := s.Write(db, model.LPBatch(seed), nil); !wr.Acked() {
		c.Broken("concurrent round: seed write not acknowledged: %d %s %v", wr.Status, wr.Body, wr.Err)
		return
	}
	if _, err := kit.WaitSeries(s, db, seed, 120*time.Second); err != nil {
		c.Inconclusive("concurrent-round:series-never-visible", 1)
		return
	}
	var (
		mu      sync.Mutex
		acked   []cwPoint
		unknown []cwPoint
		seq     atomic.Int64
		total   atomic.Int64
		next    = make([]int64, writers) // next sequence number of each writer (continues across cycles)
	)
	for w := range next {
		next[w] = 1
	}
	schema := map[string]map[string]byte{cwMst: {"v": 'i'}}
	missingOf := func(cur model.Contents) []cwPoint {
		var miss []cwPoint
		for _, p := range acked {
			k := model.RowKey{Mst: cwMst, Series: model.SeriesKey(p.tags()), T: p.T}
			row, ok := cur[k]
			if !ok {
				miss = append(miss, p)
				continue
			}
			if v, ok := row["v"]; !ok || v.String() != model.Int(p.V).String() {
				miss = append(miss, p)
			}
		}
		return miss
	}
	cycles := c.Pick(4, 6)
	nFlushTotal := 0
	var got model.Contents
	for cycle := 0; cycle < cycles; cycle++ {
		var (
			stop    atomic.Bool
			flushes atomic.Int32 // flushes requested so far in this cycle
			running atomic.Bool  // a forced flush is running
			wg      sync.WaitGroup
		)
		for w := 0; w < writers; w++ {
			wg.Add(1)
			go func(w int) {
				defer wg.Done()
				for !stop.Load() && next[w] < 2000000 {
					i := next[w]
					next[w]++
					// every third write is the first point of a series of its own: its index entry is
					// created while flushes run, and must be as durable as the row when the row's log is removed
					p := cwPoint{W: w, T: base + i*1000, V: int64(w)<<32 | i, Cycle: cycle, Phase: int(flushes.Load()), During: running.Load(), NewSe: i%3 == 0}
					lp := fmt.Sprintf("%s,w=%d v=%di %d", cwMst, w, p.V, p.T)
					if p.NewSe {
						lp = fmt.Sprintf("%s,n=%d,w=%d v=%di %d", cwMst, i, w, p.V, p.T)
					}
					wr := s.Write(db, lp, nil)
					switch {
					case wr.Acked():
						p.Seq = seq.Add(1)
						mu.Lock()
						acked = append(acked, p)
						mu.Unlock()
						total.Add(1)
					case wr.Err != nil:
						mu.Lock()
						unknown = append(unknown, p)
						mu.Unlock()
					}
				}
			}(w)
		}
		waitAcks := func(n int64) bool {
			deadline := time.Now().Add(90 * time.Second)
			for total.Load() < n {
				if time.Now().After(deadline) {
					return false
				}
				time.Sleep(time.Millisecond)
			}
			return true
		}
		nFlush := 1 + r.IntN(2)
		ok := true
		for f := 0; f < nFlush && ok; f++ {
			ok = waitAcks(total.Load() + int64(100+r.IntN(200)))
			if !ok {
				break
			}
			flushes.Add(1)
			running.Store(true)
			err := s.Flush()
			running.Store(false)
			if err != nil {
				c.Inconclusive("concurrent-round:flush-failed", 1)
				ok = false
			}
		}
		nFlushTotal += nFlush
		// a few more acknowledged writes after the last flush, then stop: what is in flight is
		// answered before the kill, and no flush follows
		if ok {
			waitAcks(total.Load() + int64(r.IntN(30)))
		}
		stop.Store(true)
		wg.Wait()
		if !ok {
			c.Inconclusive("concurrent-round:writers-too-slow", 1)
			return
		}
		s.Kill()
		if err := s.Start(); err != nil {
			c.Broken("concurrent round restart: %v", err)
			return
		}
		if err := s.WaitReady(180 * time.Second); err != nil {
			if !s.Alive() {
				c.Violation("recovery-crash:"+firstFatal(s.StdoutTail(1<<20)), fmt.Sprintf("concurrent round %d: server cannot start after the kill: %s", round, firstFatal(s.StdoutTail(1<<20))),
					map[string]any{"part": "concurrent-round", "round": round, "stdout": tailFrom(s.StdoutTail(1<<20), 5000)})
				return
			}
			c.Inconclusive("recovery-not-ready", 1)
			return
		}
		var err error
		got, _, err = kit.StableDump(s, db, []string{cwMst}, schema, func(cur model.Contents) bool { return len(missingOf(cur)) == 0 }, 40*time.Second)
		if err != nil {
			c.Inconclusive("recovery-dump-error", 1)
			return
		}
		c.Count("concurrent-round/kill-restart-cycles", 1)
		if len(missingOf(got)) > 0 {
			break
		}
	}
	nFlush := nFlushTotal
	c.Eval(1)
	c.Count("concurrent-rounds", 1)
	c.Count("concurrent-round/acknowledged-writes", int64(len(acked)))
	c.Count("concurrent-round/forced-flushes", int64(nFlush))
	during, newDuring := 0, 0
	for _, p := range acked {
		if p.During {
			during++
			if p.NewSe {
				newDuring++
			}
		}
	}
	c.Count("concurrent-round/new-series-created-while-a-flush-was-running", int64(newDuring))
	c.Count("concurrent-round/writes-sent-while-a-flush-was-running", int64(during))
	if during > 0 {
		c.Nontrivial(fmt.Sprintf("concurrent-writers|kill-after-flush|flushes=%d", nFlush))
		c.Distinct("crash-position(step-kind|mutation|path-class)", "concurrent-writers|external-kill-after-forced-flush")
	}
	miss := missingOf(got)
	if len(miss) == 0 {
		return
	}
	sort.Slice(miss, func(i, j int) bool { return miss[i].Seq < miss[j].Seq })
	cls := "sent-after-the-last-flush"
	for _, p := range miss {
		if p.During {
			cls = "sent-while-a-forced-flush-was-running"
			if p.NewSe {
				cls += "|first-point-of-a-new-series"
			}
			break
		}
		if p.Phase == 0 {
			cls = "sent-before-the-first-flush-of-its-cycle"
		}
	}
	ex := miss
	if len(ex) > 10 {
		ex = ex[:10]
	}
	c.Violation("concurrent-writers|lost-acknowledged-value|"+cls,
		fmt.Sprintf("concurrent round %d: %d writers, %d forced flushes, SIGKILL after the last flush returned and all requests were answered: %d of %d acknowledged points are missing or differ after recovery, first: writer %d t=%d (acknowledgement #%d)",
			round, writers, nFlush, len(miss), len(acked), miss[0].W, miss[0].T, miss[0].Seq),
		map[string]any{"part": "concurrent-round", "round": round, "writers": writers, "forced_flushes": nFlush, "acknowledged": len(acked),
			"unanswered": len(unknown), "missing": len(miss), "missing_first_10": ex, "seed": c.Seed})
}
