// C01 — acknowledged writes survive a crash at any moment, with their latest values.
// Fault enumeration inside real executions: the real ts-server runs a seeded history and
// kills itself (SIGKILL) immediately before its k-th file-system mutation under the data
// and WAL directories (VFS recorder of lib/fileops, build tag verif), for chosen / all k;
// torn tails on WAL writes; second-order crashes during recovery; external SIGKILLs.
// After restart the recovered logical contents are compared with the last-write-wins
// model of the acknowledged prefix (the in-flight request may or may not have applied).
package main

import (
	"bufio"
	"encoding/json"
	"fmt"
	"math/rand/v2"
	"os"
	"path/filepath"
	"sort"
	"strconv"
	"strings"
	"sync"
	"time"

	"verifharness/kit"
	"verifharness/model"
	"verifharness/proc"
	"verifharness/vf"
)

type step struct {
	Op     string   `json:"op"` // write | flush | drop
	Mst    string   `json:"mst,omitempty"`
	Points []string `json:"points,omitempty"`
	pts    []model.Point
}

func (s *step) fill() error {
	s.pts = nil
	for _, ln := range s.Points {
		p, err := model.ParseLP(ln)
		if err != nil {
			return err
		}
		s.pts = append(s.pts, p)
	}
	return nil
}

// genHistory: single- and multi-point batches, overwrites of existing keys placed
// preferably right after a flush, 1..2N-1 single-point writes between flushes (uneven WAL
// partitions), drop and re-creation of a measurement.
// genChurnHistory: every batch creates new series and is followed by a flush, so that the
// series index writes a file part per flush and merges its parts in the background; the
// commits of those parts (tmp -> transaction file -> rename) are the crash positions the
// pattern cases aim at.
func genChurnHistory(r *rand.Rand, rounds int) []step {
	var h []step
	val := int64(0)
	for round := 0; round < rounds; round++ {
		var pts []model.Point
		for i := 0; i < 6; i++ {
			val++
			pts = append(pts, model.Point{Mst: "churn", Tags: map[string]string{"host": fmt.Sprintf("h%02d_%d", round, i), "dc": fmt.Sprintf("d%d", r.IntN(3))},
				T: kit.BaseTime + int64(round)*1_000_000_000 + int64(i), Fields: map[string]model.Value{"v": model.Int(val)}})
		}
		st := step{Op: "write", pts: pts}
		for _, p := range pts {
			st.Points = append(st.Points, p.LP())
		}
		h = append(h, st, step{Op: "flush"})
	}
	return h
}

func genHistory(r *rand.Rand, u *kit.Universe, nops, nParts int, manyFlushes bool) []step {
	var h []step
	add := func(op string, pts []model.Point, mst string) {
		st := step{Op: op, Mst: mst, pts: pts}
		for _, p := range pts {
			st.Points = append(st.Points, p.LP())
		}
		h = append(h, st)
	}
	add("write", u.SeedBatch(r, nil), "")
	if manyFlushes {
		// more than ten flush generations in one process lifetime (WAL file numbers cross a
		// digit boundary); a key written right before every flush is overwritten right after it,
		// so the old and the new WAL generation both hold it when the flush is held open
		for g := 0; g < 12; g++ {
			pre := u.GenBatch(r, kit.BatchOpts{MaxPoints: 2, FullRowProb: 0.6})
			add("write", pre, "")
			add("flush", nil, "")
			for _, q := range pre {
				p := model.Point{Mst: q.Mst, Tags: q.Tags, T: q.T, Fields: map[string]model.Value{}}
				for f, v := range q.Fields {
					p.Fields[f] = kit.Value(r, v.Kind)
				}
				add("write", []model.Point{p}, "")
			}
			add("write", u.GenBatch(r, kit.BatchOpts{MaxPoints: 1, FullRowProb: 0.5}), "")
		}
		return h
	}
	var recent []model.Point // keys written since the last flush and before
	dropped := map[string]bool{}
	for len(h) < nops {
		x := r.IntN(100)
		switch {
		case x < 18:
			add("flush", nil, "")
			// after a flush: a run of single-point writes, then two overwrites of one key
			n := 1 + r.IntN(2*nParts-1)
			if n > 12 {
				n = 1 + r.IntN(12)
			}
			for i := 0; i < n && len(h) < nops; i++ {
				pts := u.GenBatch(r, kit.BatchOpts{MaxPoints: 1, FullRowProb: 0.5})
				recent = append(recent, pts...)
				add("write", pts, "")
			}
			if len(recent) > 0 && r.IntN(4) != 0 {
				q := recent[r.IntN(len(recent))]
				for rep := 0; rep < 2; rep++ {
					p := model.Point{Mst: q.Mst, Tags: q.Tags, T: q.T, Fields: map[string]model.Value{}}
					for f, v := range q.Fields {
						p.Fields[f] = kit.Value(r, v.Kind)
					}
					add("write", []model.Point{p}, "")
				}
			}
		case x < 22 && len(u.Msts) > 1:
			m := u.Msts[r.IntN(len(u.Msts))]
			add("drop", nil, m)
			dropped[m] = true
			kept := recent[:0]
			for _, p := range recent {
				if p.Mst != m {
					kept = append(kept, p)
				}
			}
			recent = kept
		case x < 60:
			pts := u.GenBatch(r, kit.BatchOpts{MaxPoints: 1, FullRowProb: 0.4})
			recent = append(recent, pts...)
			add("write", pts, "")
		default:
			pts := u.GenBatch(r, kit.BatchOpts{MaxPoints: 5, FullRowProb: 0.3, DupInBatch: 0.1})
			recent = append(recent, pts...)
			add("write", pts, "")
		}
	}
	return h
}

type mutation struct {
	N    int64
	Kind string
	Path string
	Size int
}

func pathClass(p string) string {
	switch {
	case strings.Contains(p, "/wal/") && strings.HasSuffix(p, ".wal"):
		return "wal-file"
	case strings.Contains(p, "/wal/"):
		return "wal-dir"
	case strings.Contains(p, ".tssp.init"):
		return "tssp-init"
	case strings.Contains(p, ".tssp"):
		return "tssp"
	case strings.Contains(p, "mergeset/txn"):
		return "index-txn"
	case strings.Contains(p, "mergeset/tmp"):
		return "index-tmp"
	case strings.Contains(p, "/index/") || strings.Contains(p, "mergeset"):
		return "index"
	case strings.Contains(p, "compact_log") || strings.Contains(p, ".log"):
		return "compact-log"
	case strings.Contains(p, "/tssp/") || strings.Contains(p, "/tssp"):
		return "tssp-dir"
	}
	return "other"
}

func readTrace(path string) []mutation {
	f, err := os.Open(path)
	if err != nil {
		return nil
	}
	defer f.Close()
	var out []mutation
	sc := bufio.NewScanner(f)
	sc.Buffer(make([]byte, 1<<20), 1<<20)
	for sc.Scan() {
		parts := strings.SplitN(sc.Text(), " ", 4)
		if len(parts) < 4 {
			continue
		}
		n, _ := strconv.ParseInt(parts[0], 10, 64)
		// path may contain "->": last field is size
		rest := parts[2] + " " + parts[3]
		i := strings.LastIndexByte(rest, ' ')
		sz, _ := strconv.Atoi(rest[i+1:])
		out = append(out, mutation{N: n, Kind: parts[1], Path: rest[:i], Size: sz})
	}
	return out
}

type crashCase struct {
	K       int64 `json:"k"`
	Torn    int64 `json:"torn,omitempty"`
	K2      int64 `json:"k2,omitempty"`          // second crash: k-th mutation of the recovery run
	ExtStep int   `json:"ext_step,omitempty"`    // external SIGKILL issued while this step is in flight (thorough)
	Window  int   `json:"window_step,omitempty"` // flush step held open after its WAL switch (hook point) while the following writes are acknowledged, then SIGKILL
	// pattern crash: die before the PatN-th mutation of kind PatKind whose path contains
	// PatPath (background work such as index-part merges has no fixed position k)
	PatKind string `json:"pattern_kind,omitempty"`
	PatPath string `json:"pattern_path,omitempty"`
	PatNot  string `json:"pattern_not,omitempty"`
	PatN    int64  `json:"pattern_n,omitempty"`
	Why     string `json:"why,omitempty"`
}

type runner struct {
	c   *vf.Ctx
	bin string
}

const db = "db0"

type outcome struct {
	diedAtStep int    // -1 = never died
	dieLog     string // what the recorder wrote
	recovered  model.Contents
}

func (rn *runner) newServer(dir string, worker, cpus int) *proc.Server {
	return proc.New(proc.Config{BGOff: true, Bin: rn.bin, Dir: dir, IP: proc.IP(1, worker), CPUs: cpus, FS: true, FSMatch: "/data/",
		Extra: map[string][]string{"data.memtable": {`write-cold-duration = "1h"`, `force-snapShot-duration = "1h"`}}})
}

// applyStep sends one step; returns acked, and transport failure (outcome unknown).
func applyStep(s *proc.Server, st *step) (acked bool, unknown bool, msg string) {
	switch st.Op {
	case "write":
		wr := s.Write(db, model.LPBatch(st.pts), nil)
		if wr.Err != nil {
			return false, true, wr.Err.Error()
		}
		if wr.Status >= 500 && !s.Alive() {
			return false, true, wr.Body
		}
		return wr.Acked(), false, fmt.Sprintf("%d %s", wr.Status, wr.Body)
	case "flush":
		if err := s.Flush(); err != nil {
			return false, true, err.Error()
		}
		return true, false, ""
	case "drop":
		res, err := s.Query(db, "DROP MEASUREMENT "+st.Mst, nil)
		if err != nil {
			if res == nil {
				return false, true, err.Error()
			}
			return false, false, err.Error()
		}
		return true, false, ""
	}
	return false, false, "unknown op"
}

// dryRun executes the whole history with the recorder tracing, returns the mutation
// trace, the cumulative mutation count after each step and the model at the end.
func (rn *runner) dryRun(hidx int, h []step, worker, cpus int) (trace []mutation, after []int64, base int64, ok bool) {
	c := rn.c
	dir := filepath.Join(c.Scratch, fmt.Sprintf("h%d-dry", hidx))
	s := rn.newServer(dir, worker, cpus)
	tracePath := filepath.Join(dir, "fs.trace")
	_ = os.MkdirAll(dir, 0o755)
	if err := s.Start("VERIF_FS_TRACE=" + tracePath); err != nil {
		c.Broken("dry run start: %v", err)
		return
	}
	defer func() { s.Kill(); os.RemoveAll(dir) }()
	if err := s.WaitReady(180 * time.Second); err != nil {
		c.Broken("dry run: %v", err)
		return
	}
	if _, err := s.Query("", "CREATE DATABASE "+db, nil); err != nil {
		c.Broken("dry run create database: %v", err)
		return
	}
	base, _ = s.FsCount()
	m := model.New()
	for i := range h {
		acked, unknown, msg := applyStep(s, &h[i])
		if unknown || !acked {
			c.Broken("dry run history %d step %d (%s) not acknowledged: %s", hidx, i, h[i].Op, msg)
			return
		}
		applyModel(m, &h[i])
		if i == 0 {
			if _, err := kit.WaitSeries(s, db, h[i].pts, 60*time.Second); err != nil {
				c.Inconclusive("series-never-visible", 1)
				return
			}
		}
		n, _ := s.FsCount()
		after = append(after, n)
	}
	want := kit.Expect(m, allMsts(h), kit.DumpOpts{})
	got, _, err := kit.StableDump(s, db, allMsts(h), schemaOf(h), func(cur model.Contents) bool { return len(model.Diff(want, cur, "", 1)) == 0 }, 20*time.Second)
	if err != nil {
		c.Inconclusive("dry-run-dump-error", 1)
		return
	}
	if d := model.Diff(want, got, "", 5); len(d) > 0 {
		// a mismatch without any crash belongs to C02; C01 cannot use this history
		c.Inconclusive("dry-run-differs-from-model(C02-territory)", 1)
		fmt.Printf("INCONCLUSIVE C01 history %d: un-crashed run already differs from the model: %s\n", hidx, strings.Join(d, "; "))
		return
	}
	trace = readTrace(tracePath)
	return trace, after, base, true
}

func applyModel(m *model.Model, st *step) {
	switch st.Op {
	case "write":
		m.Apply(st.pts)
	case "drop":
		m.DropMeasurement(st.Mst)
	}
}

func allMsts(h []step) []string {
	set := map[string]bool{}
	for _, st := range h {
		for _, p := range st.pts {
			set[p.Mst] = true
		}
	}
	var out []string
	for k := range set {
		out = append(out, k)
	}
	sort.Strings(out)
	return out
}

// schemaOf gives the field kinds of every measurement over the whole history (a dropped
// and re-created measurement keeps the same kinds in these histories).
func schemaOf(h []step) map[string]map[string]byte {
	sc := map[string]map[string]byte{}
	for _, st := range h {
		for _, p := range st.pts {
			if sc[p.Mst] == nil {
				sc[p.Mst] = map[string]byte{}
			}
			for f, v := range p.Fields {
				sc[p.Mst][f] = v.Kind
			}
		}
	}
	return sc
}

// judge compares the recovered contents with the acknowledged prefix A = h[:j] and the
// in-flight step P = h[j] (j == len(h): nothing in flight). Returns diffs.
func judge(h []step, j int, got model.Contents) (diffs []string, pApplied, pTouched int) {
	m := model.New()
	for i := 0; i < j && i < len(h); i++ {
		applyModel(m, &h[i])
	}
	var P *step
	if j < len(h) {
		P = &h[j]
	}
	// alternative model: A then P
	mp := m.Clone()
	if P != nil {
		applyModel(mp, P)
	}
	msts := allMsts(h)
	wantA := kit.Expect(m, msts, kit.DumpOpts{})
	wantAP := kit.Expect(mp, msts, kit.DumpOpts{})
	keys := map[model.RowKey]bool{}
	for k := range wantA {
		keys[k] = true
	}
	for k := range wantAP {
		keys[k] = true
	}
	for k := range got {
		keys[k] = true
	}
	sorted := make([]model.RowKey, 0, len(keys))
	for k := range keys {
		sorted = append(sorted, k)
	}
	sort.Slice(sorted, func(a, b int) bool { return sorted[a].String() < sorted[b].String() })
	for _, k := range sorted {
		a, ap, g := wantA[k], wantAP[k], got[k]
		fields := map[string]bool{}
		for f := range a {
			fields[f] = true
		}
		for f := range ap {
			fields[f] = true
		}
		for f := range g {
			fields[f] = true
		}
		for f := range fields {
			av, aok := a[f]
			pv, pok := ap[f]
			gv, gok := g[f]
			same := aok == pok && (!aok || av.Equal(pv))
			if !same {
				pTouched++
			}
			okA := aok == gok && (!aok || av.Equal(gv))
			okP := pok == gok && (!pok || pv.Equal(gv))
			switch {
			case okA:
			case okP:
				pApplied++
			default:
				exp := "absent"
				if aok {
					exp = av.String()
				}
				if !same {
					if pok {
						exp += " or " + pv.String()
					} else {
						exp += " or absent"
					}
				}
				obs := "absent"
				if gok {
					obs = gv.String()
				}
				diffs = append(diffs, fmt.Sprintf("%s.%s recovered %s, acknowledged %s", k, f, obs, exp))
			}
		}
	}
	return
}

// signatureOf classifies a wrong recovered value: is it an OLDER acknowledged value of
// that key (reverted overwrite), absent (lost), or something never written?
func signatureOf(h []step, j int, diff string) string {
	// diff format: "<key>.<field> recovered X, acknowledged Y"
	i := strings.Index(diff, " recovered ")
	k := strings.Index(diff, ", acknowledged ")
	if i < 0 || k < 0 {
		return "recovery-mismatch"
	}
	keyField := diff[:i]
	obs := diff[i+len(" recovered ") : k]
	if obs == "absent" {
		if strings.HasSuffix(diff, "acknowledged absent") {
			return "recovery-mismatch"
		}
		return "lost-acknowledged-value"
	}
	if strings.Contains(diff, "acknowledged absent") {
		// value present that should be gone: dropped measurement resurrected or invented
		for x := 0; x < j && x < len(h); x++ {
			for _, p := range h[x].pts {
				for f, v := range p.Fields {
					if (model.RowKey{Mst: p.Mst, Series: model.SeriesKey(p.Tags), T: p.T}).String()+"."+f == keyField && v.String() == obs {
						return "resurrected-dropped-value"
					}
				}
			}
		}
		return "invented-value"
	}
	for x := 0; x < j && x < len(h); x++ {
		for _, p := range h[x].pts {
			for f, v := range p.Fields {
				if (model.RowKey{Mst: p.Mst, Series: model.SeriesKey(p.Tags), T: p.T}).String()+"."+f == keyField && v.String() == obs {
					return "reverted-to-older-acknowledged-value"
				}
			}
		}
	}
	return "invented-value"
}

func (rn *runner) runCase(hidx int, h []step, cc crashCase, worker, cpus int, caseNo int) {
	c := rn.c
	dir := filepath.Join(c.Scratch, fmt.Sprintf("h%d-c%d", hidx, caseNo))
	defer os.RemoveAll(dir)
	s := rn.newServer(dir, worker, cpus)
	if err := s.Start(); err != nil {
		c.Broken("start: %v", err)
		return
	}
	defer s.Kill()
	if err := s.WaitReady(180 * time.Second); err != nil {
		c.Broken("case start: %v", err)
		return
	}
	if _, err := s.Query("", "CREATE DATABASE "+db, nil); err != nil {
		c.Broken("create database: %v", err)
		return
	}
	if cc.K > 0 {
		if err := s.FsArm(cc.K, cc.Torn); err != nil {
			c.Broken("arm: %v", err)
			return
		}
	}
	if cc.PatN > 0 {
		if err := s.FsArmPattern(cc.PatKind, cc.PatPath, cc.PatNot, cc.PatN); err != nil {
			c.Broken("arm pattern: %v", err)
			return
		}
	}
	died := -1
	windowStep := -1
	for i := range h {
		if cc.K == 0 && cc.ExtStep > 0 && cc.ExtStep == i {
			// external SIGKILL racing with the request
			done := make(chan struct{})
			go func() {
				defer close(done)
				applyStep(s, &h[i])
			}()
			time.Sleep(time.Duration(c.Rand(uint64(hidx*1000+caseNo)).IntN(3000)) * time.Microsecond)
			s.Kill()
			<-done
			died = i
			break
		}
		if cc.Window > 0 && cc.Window == i && h[i].Op == "flush" {
			// hold the flush open right after its WAL switch; writes acknowledged meanwhile go
			// to the new WAL generation while the old one is still on disk
			_ = s.Points("flush-after-wal-switch=sleep(4000)")
			before := int64(0)
			if st, err := s.State(""); err == nil {
				before = st.Points["flush-after-wal-switch"]
			}
			go s.Flush()
			reached := false
			for t := 0; t < 100; t++ {
				if st, err := s.State(""); err == nil && st.Points["flush-after-wal-switch"] > before {
					reached = true
					break
				}
				time.Sleep(20 * time.Millisecond)
			}
			if !reached {
				c.Inconclusive("flush-window-not-reached", 1)
				return
			}
			last := i
			for k := i + 1; k < len(h) && h[k].Op == "write" && k <= i+24; k++ {
				acked, unknown, _ := applyStep(s, &h[k])
				if unknown || !acked {
					break
				}
				last = k
			}
			s.Kill()
			h = h[:last+1]
			died = len(h)
			windowStep = i
			c.Count("flush-window-cases", 1)
			c.Count("writes-acknowledged-inside-flush-window", int64(last-i))
			break
		}
		acked, unknown, msg := applyStep(s, &h[i])
		if unknown || !s.Alive() {
			// outcome of step i unknown: it is the in-flight request P
			s.WaitExit(10 * time.Second)
			died = i
			break
		}
		if !acked {
			c.Inconclusive("step-rejected", 1)
			fmt.Printf("INCONCLUSIVE C01 history %d case k=%d step %d (%s) rejected: %s\n", hidx, cc.K, i, h[i].Op, msg)
			return
		}
		if i == 0 {
			if _, err := kit.WaitSeries(s, db, h[i].pts, 60*time.Second); err != nil {
				if !s.Alive() {
					died = 1 // step 0 acknowledged, died while idle
					break
				}
				c.Inconclusive("series-never-visible", 1)
				return
			}
		}
	}
	if died < 0 && cc.PatN > 0 {
		// background work: give it a moment after the last step
		for t := 0; t < 60 && s.Alive(); t++ {
			time.Sleep(50 * time.Millisecond)
		}
	}
	if died < 0 {
		if s.Alive() {
			c.Inconclusive("arm-not-reached", 1)
			return
		}
		died = len(h)
	}
	if s.Alive() {
		s.Kill()
	}
	dl := s.DieLog()
	gens := walGenerations(s)
	cls := "external-kill"
	if cc.Window > 0 {
		cls = "external-kill-inside-flush-window"
	}
	if dl != "" {
		f := strings.Fields(dl)
		if len(f) >= 3 {
			cls = f[1] + "/" + pathClass(f[2])
			if strings.Contains(dl, "torn=") && !strings.HasSuffix(dl, "torn=0") {
				cls += "/torn"
			}
		}
	}
	stepKind := "idle"
	if died < len(h) {
		stepKind = h[died].Op
	}
	// recovery, possibly crashing once more
	var env []string
	if cc.K2 > 0 {
		env = append(env, fmt.Sprintf("VERIF_FS_ARM=%d", cc.K2))
	}
	if err := s.Start(env...); err != nil {
		c.Broken("restart: %v", err)
		return
	}
	second := ""
	if cc.K2 > 0 {
		// wait until it dies in recovery or becomes ready
		deadline := time.Now().Add(90 * time.Second)
		for s.Alive() && time.Now().Before(deadline) {
			if err := s.WaitReady(500 * time.Millisecond); err == nil {
				break
			}
		}
		if !s.Alive() {
			second = s.DieLog()
			if err := s.Start(); err != nil {
				c.Broken("second restart: %v", err)
				return
			}
		}
	}
	if err := s.WaitReady(120 * time.Second); err != nil {
		if !s.Alive() {
			c.Violation("recovery-crash:"+firstFatal(s.StdoutTail(1<<20)), fmt.Sprintf("history %d crash %s during %s: server cannot start after the crash: %s", hidx, cls, stepKind, firstFatal(s.StdoutTail(1<<20))),
				witness(hidx, h, cc, died, map[string]any{"died_before": dl, "stdout": tailFrom(s.StdoutTail(1<<20), 5000)}))
			return
		}
		c.Inconclusive("recovery-not-ready", 1)
		fmt.Printf("INCONCLUSIVE C01 history %d k=%d: %v\n", hidx, cc.K, err)
		return
	}
	msts := allMsts(h)
	got, probs, err := kit.StableDump(s, db, msts, schemaOf(h), func(cur model.Contents) bool {
		d, _, _ := judge(h, died, cur)
		return len(d) == 0
	}, 25*time.Second)
	if err != nil {
		if !s.Alive() {
			c.Violation("recovery-crash:"+firstFatal(s.StdoutTail(1<<20)), fmt.Sprintf("history %d crash %s: server died while answering after recovery", hidx, cls),
				witness(hidx, h, cc, died, map[string]any{"died_before": dl, "stdout": tailFrom(s.StdoutTail(1<<20), 5000)}))
			return
		}
		c.Inconclusive("recovery-dump-error", 1)
		return
	}
	c.Eval(1)
	key := fmt.Sprintf("%s|%s", stepKind, cls)
	if second != "" {
		f := strings.Fields(second)
		if len(f) >= 3 {
			key += "|recovery:" + f[1] + "/" + pathClass(f[2])
		}
		c.Count("double-crash-cases", 1)
	}
	c.Distinct("crash-position(step-kind|mutation|path-class)", key)
	c.Nontrivial(key)
	for _, p := range probs {
		c.Violation("structure:"+p.Kind, fmt.Sprintf("history %d after crash %s: %s", hidx, key, p.Msg), witness(hidx, h, cc, died, map[string]any{"died_before": dl}))
		return
	}
	diffs, pApplied, pTouched := judge(h, died, got)
	if pTouched > 0 {
		if pApplied > 0 {
			c.Count("in-flight-request-found-applied", 1)
		} else {
			c.Count("in-flight-request-found-not-applied", 1)
		}
	}
	c.Count("recovered-cells-compared", int64(len(got)))
	if len(diffs) > 0 {
		sig := signatureOf(h, died, diffs[0])
		if strings.HasPrefix(sig, "reverted-to-older") {
			// where do the winning (older) write and the lost (newer) write sit relative to the
			// last WAL switch (flush step) before the crash? Only two writes of the SAME WAL
			// generation can be swapped by the known replay-interleaving defect.
			sig += "|" + generationRelation(h, died, windowStep, diffs[0])
		}
		if len(diffs) > 6 {
			diffs = diffs[:6]
		}
		c.Violation(fmt.Sprintf("%s|wal-generations-on-disk=%d|died-before=%s", sig, gens, cls), fmt.Sprintf("history %d, died before [%s] during step %d (%s), recovery: %s", hidx, dl, died, stepKind, strings.Join(diffs, "; ")),
			witness(hidx, h, cc, died, map[string]any{"died_before": dl, "second_crash": second, "diff": diffs, "cpus": cpus, "wal_generations_on_disk": gens, "wal_partitions": walParts(cpus)}))
		return
	}
	// descending dump must be the reverse of the ascending one
	desc, dprobs, err := kit.Dump(s, db, msts, schemaOf(h), kit.DumpOpts{Desc: true})
	if err == nil {
		for _, p := range dprobs {
			c.Violation("structure-desc:"+p.Kind, fmt.Sprintf("history %d after crash %s: %s", hidx, key, p.Msg), witness(hidx, h, cc, died, nil))
			return
		}
		if d := model.Diff(got, desc, "", 4); len(d) > 0 {
			c.Violation("desc-differs-from-asc", fmt.Sprintf("history %d after crash %s: %s", hidx, key, strings.Join(d, "; ")), witness(hidx, h, cc, died, nil))
		}
	}
}

// walGenerations: the largest number of non-empty .wal files in one WAL partition
// directory at the moment of the crash (1 = one generation, 2 = the crash fell between the
// log switch of a flush and the removal of the old generation).
func walGenerations(s *proc.Server) int {
	dirs, _ := filepath.Glob(filepath.Join(s.DataDir(), "wal", "*", "*", "*", "*", "*"))
	max := 0
	for _, d := range dirs {
		files, _ := filepath.Glob(filepath.Join(d, "*.wal"))
		n := 0
		for _, f := range files {
			if st, err := os.Stat(f); err == nil && st.Size() > 0 {
				n++
			}
		}
		if n > max {
			max = n
		}
	}
	return max
}

func walParts(cpus int) string {
	if cpus <= 0 {
		return "16"
	}
	return strconv.Itoa(cpus)
}

func witness(hidx int, h []step, cc crashCase, died int, extra map[string]any) map[string]any {
	w := map[string]any{"history_index": hidx, "steps": h, "crash": cc, "died_during_step": died}
	for k, v := range extra {
		w[k] = v
	}
	return w
}

func firstFatal(s string) string {
	for _, ln := range strings.Split(s, "\n") {
		if strings.HasPrefix(ln, "panic:") || strings.HasPrefix(ln, "fatal error:") {
			if len(ln) > 140 {
				ln = ln[:140]
			}
			return ln
		}
	}
	return "no panic line"
}

func tailFrom(s string, n int) string {
	if i := strings.Index(s, "panic:"); i >= 0 {
		s = s[i:]
	}
	if len(s) > n {
		s = s[:n]
	}
	return s
}

// chooseCases picks crash positions from the dry-run trace.
func chooseCases(c *vf.Ctx, r *rand.Rand, h []step, trace []mutation, after []int64, base int64, exhaustive bool, patN int) []crashCase {
	stepOf := func(n int64) int {
		for i, a := range after {
			if n <= a {
				return i
			}
		}
		return len(after)
	}
	var cases []crashCase
	if exhaustive {
		for _, m := range trace {
			if m.N <= base {
				continue
			}
			cc := crashCase{K: m.N - base}
			cases = append(cases, cc)
			if m.Kind == "write" && pathClass(m.Path) == "wal-file" && m.Size > 6 {
				for _, t := range []int64{1, 4, 5, int64(m.Size / 2), int64(m.Size - 1)} {
					cases = append(cases, crashCase{K: m.N - base, Torn: t})
				}
			}
		}
		return cases
	}
	seen := map[string]bool{}
	var rest []mutation
	for _, m := range trace {
		if m.N <= base {
			continue
		}
		si := stepOf(m.N)
		kind := "idle"
		if si < len(h) {
			kind = h[si].Op
		}
		pc := pathClass(m.Path)
		if strings.HasPrefix(pc, "index-") {
			pc = "index" // the commit steps of index parts are targeted by pattern below
		}
		key := kind + "|" + m.Kind + "|" + pc
		if !seen[key] {
			seen[key] = true
			cases = append(cases, crashCase{K: m.N - base, Why: "first " + key})
		} else {
			rest = append(rest, m)
		}
	}
	// the series index commits its parts (flushes and background merges of parts) through
	// tmp -> transaction file -> rename; background merges have no fixed position in the
	// trace, so they are targeted by pattern: die before the n-th rename under mergeset/
	for n := int64(1); n <= int64(patN); n++ {
		// the rename that publishes a part: from mergeset/tmp/<id>, not the metadata file inside it
		cases = append(cases, crashCase{PatKind: "rename", PatPath: "/mergeset/tmp/", PatNot: "metadata.json", PatN: n, Why: "index part commit"})
	}
	// seeded extras, biased to WAL writes (torn tails) and flush protocol steps
	r.Shuffle(len(rest), func(i, j int) { rest[i], rest[j] = rest[j], rest[i] })
	torns := 0
	for _, m := range rest {
		if len(cases) >= c.Pick(22, 400) {
			break
		}
		cc := crashCase{K: m.N - base, Why: "seeded"}
		if m.Kind == "write" && pathClass(m.Path) == "wal-file" && m.Size > 6 && torns < 6 {
			cc.Torn = []int64{1, 4, 5, int64(m.Size / 2), int64(m.Size - 1)}[torns%5]
			cc.Why = "torn wal write"
			torns++
		}
		cases = append(cases, cc)
	}
	return cases
}

func main() {
	c := vf.New("C01", "fault_enumeration")
	c.SetRule("seeded histories (single/multi-point batches, overwrites placed after flushes, uneven WAL partitions, drop/re-create) run against a real ts-server that SIGKILLs itself before its k-th file-system mutation under data/ and wal/ (k chosen per distinct (step kind, mutation kind, path class) of a traced dry run plus seeded extras; thorough: every k), torn tails on WAL writes, second crashes during recovery, external SIGKILLs; a case = one crash+recovery+full dump judged against the LWW model of the acknowledged prefix; distinct non-trivial = distinct (in-flight step kind | mutation kind/path class [| recovery mutation])")
	c.Assume("process death (SIGKILL), not power loss: page-cache contents survive")
	c.Assume("HTTP 204 / control-port reply is the acknowledgement; an operation whose reply was not received is in flight and may or may not have applied")
	c.Assume("wal-replay-parallel stays at its default (false); the code documents the parallel mode as not order-preserving")
	bin, err := proc.Build(c.RepoDir, c.Scratch, "ts-server", false)
	if err != nil {
		c.Broken("build ts-server: %v", err)
		c.Finish()
	}
	rn := &runner{c: c, bin: bin}
	if c.ReplayIn != "" {
		replay(rn)
		c.Finish()
	}
	nh := c.Pick(3, 10)
	cpuChoices := []int{0, 3, 2}
	if c.Thorough() {
		cpuChoices = []int{0, 1, 2, 3}
	}
	par := c.Pick(8, 12)
	sem := make(chan int, par)
	for i := 0; i < par; i++ {
		sem <- i
	}
	var wg sync.WaitGroup
	var mu sync.Mutex
	totalCases := 0
	if os.Getenv("C01_ONLY_CONCURRENT") != "" { // development aid: the concurrent rounds alone
		nh = -1
	}
	for hi := 0; hi <= nh; hi++ {
		churn := hi == nh // the last one: series churn, crash positions by pattern only
		cpus := cpuChoices[hi%len(cpuChoices)]
		nparts := 16
		if cpus > 0 {
			nparts = cpus
		}
		r := c.Rand(uint64(100 + hi))
		u := kit.NewUniverse(2, 4, 8)
		many := hi == nh-1 || (c.Thorough() && hi%4 == 3)
		h := genHistory(r, u, c.Pick(36, 60), nparts, many)
		if churn {
			h = genChurnHistory(r, c.Pick(10, 16))
		}
		w := <-sem
		trace, after, base, ok := rn.dryRun(hi, h, w, cpus)
		sem <- w
		if !ok {
			continue
		}
		c.Count("dry-run-mutations", int64(len(trace)))
		exhaustive := c.Thorough() && hi < 2
		// index-part commits (renames under mergeset/) seen in the dry run bound the pattern cases
		patN := 0
		for _, m := range trace {
			if m.N > base && m.Kind == "rename" && strings.Contains(m.Path, "/mergeset/tmp/") && !strings.Contains(m.Path, "metadata.json") {
				patN++
			}
		}
		patN += 2 // background merges may add a few
		if !churn {
			patN = 0
		} else if patN > c.Pick(16, 40) {
			patN = c.Pick(16, 40)
		}
		cases := chooseCases(c, r, h, trace, after, base, exhaustive && !churn, patN)
		if churn {
			// only the pattern cases (and a few ordinary ones) for this history
			var keep []crashCase
			for _, cc := range cases {
				if cc.PatN > 0 || len(keep) < 4 {
					keep = append(keep, cc)
				}
			}
			cases = keep
		}
		// second-order crashes: recovery runs armed at seeded positions
		nd := c.Pick(2, 8)
		for i := 0; i < nd && len(cases) > 0; i++ {
			b := cases[r.IntN(len(cases))]
			cases = append(cases, crashCase{K: b.K, K2: int64(1 + r.IntN(40)), Why: "double crash"})
		}
		if c.Thorough() {
			for i := 0; i < 6; i++ {
				cases = append(cases, crashCase{ExtStep: 1 + r.IntN(len(h)-1), Why: "external kill"})
			}
		}
		// flush windows: every flush step that is followed by at least two writes
		nw := 0
		var flushSteps []int
		for i := 1; i+2 < len(h); i++ {
			if h[i].Op == "flush" && h[i+1].Op == "write" && h[i+2].Op == "write" {
				flushSteps = append(flushSteps, i)
			}
		}
		if many {
			// the 9th..12th flush of the process: file numbers 9/10 etc.
			for _, i := range flushSteps {
				if nw < c.Pick(5, 12) && len(flushSteps) > 4 && i >= flushSteps[len(flushSteps)-5] {
					cases = append(cases, crashCase{Window: i, Why: "kill inside the flush window of a late flush generation"})
					nw++
				}
			}
		} else {
			for _, i := range flushSteps {
				if nw < c.Pick(4, 12) {
					cases = append(cases, crashCase{Window: i, Why: "kill inside flush window after acknowledged writes"})
					nw++
				}
			}
		}
		if hi == 0 {
			var ops []string
			for _, st := range h {
				if st.Op == "write" {
					ops = append(ops, fmt.Sprintf("write(%d)", len(st.pts)))
				} else {
					ops = append(ops, st.Op)
				}
			}
			c.Sample(map[string]any{"history": hi, "ops": strings.Join(ops, " "), "mutations_in_dry_run": len(trace), "cases": cases[:min(8, len(cases))], "wal_partitions": nparts})
		}
		mu.Lock()
		totalCases += len(cases)
		mu.Unlock()
		for ci, cc := range cases {
			w := <-sem
			wg.Add(1)
			go func(hi, ci int, cc crashCase, w int, h []step, cpus int) {
				defer func() { sem <- w; wg.Done() }()
				rn.runCase(hi, h, cc, w, cpus, ci)
			}(hi, ci, cc, w, h, cpus)
		}
		c.Distinct("wal-partitions", strconv.Itoa(nparts))
	}
	// concurrent rounds (concurrent.go): writers racing forced flushes, then SIGKILL
	for round := 0; round < c.Pick(3, 12); round++ {
		w := <-sem
		wg.Add(1)
		go func(round, w int) {
			defer func() { sem <- w; wg.Done() }()
			rn.concurrentRound(round, w)
		}(round, w)
	}
	// big-batch round (bigbatch.go): one log record of several MiB, kill before any flush
	{
		w := <-sem
		wg.Add(1)
		go func(w int) {
			defer func() { sem <- w; wg.Done() }()
			rn.bigBatchRound(w)
		}(w)
	}
	wg.Wait()
	c.Extra("crash_cases_planned", totalCases)
	c.Finish()
}

func replay(rn *runner) {
	b, err := os.ReadFile(rn.c.ReplayIn)
	if err != nil {
		rn.c.Broken("replay: %v", err)
		return
	}
	var w struct {
		Witness struct {
			Steps []step    `json:"steps"`
			Crash crashCase `json:"crash"`
			CPUs  int       `json:"cpus"`
		} `json:"witness"`
	}
	if err := json.Unmarshal(b, &w); err != nil {
		rn.c.Broken("replay: %v", err)
		return
	}
	for i := range w.Witness.Steps {
		if err := w.Witness.Steps[i].fill(); err != nil {
			rn.c.Broken("replay: %v", err)
			return
		}
	}
	rn.runCase(0, w.Witness.Steps, w.Witness.Crash, 0, w.Witness.CPUs, 0)
	rn.c.Nontrivial("replay-a")
	rn.c.Nontrivial("replay-b")
}

// generationRelation: for a reverted key tells whether the winning older write and the
// lost newer write were both issued after the last WAL switch that preceded the crash
// ("same-wal-generation"), or the older one before it ("older-write-in-previous-generation").
// lastSwitch is the flush step held open in flush-window cases; otherwise the last
// completed flush step before the crash.
func generationRelation(h []step, died, lastSwitch int, diff string) string {
	i := strings.Index(diff, " recovered ")
	k := strings.Index(diff, ", acknowledged ")
	if i < 0 || k < 0 {
		return "unclassified"
	}
	keyField := diff[:i]
	obs := diff[i+len(" recovered ") : k]
	exp := diff[k+len(", acknowledged "):]
	if j := strings.Index(exp, " or "); j >= 0 {
		exp = exp[:j]
	}
	if lastSwitch < 0 {
		for x := 0; x < died && x < len(h); x++ {
			if h[x].Op == "flush" {
				lastSwitch = x
			}
		}
	}
	find := func(val string) int {
		at := -1
		for x := 0; x < died && x < len(h); x++ {
			for _, p := range h[x].pts {
				for f, v := range p.Fields {
					if (model.RowKey{Mst: p.Mst, Series: model.SeriesKey(p.Tags), T: p.T}).String()+"."+f == keyField && v.String() == val {
						at = x
					}
				}
			}
		}
		return at
	}
	so, sn := find(obs), find(exp)
	switch {
	case so < 0 || sn < 0:
		return "unclassified"
	case so > lastSwitch && sn > lastSwitch:
		return "same-wal-generation"
	case so <= lastSwitch && sn > lastSwitch:
		return "older-write-in-previous-generation"
	}
	return "both-writes-before-the-last-switch"
}
