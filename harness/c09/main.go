// C09 — aggregates served from stored statistics equal aggregates over the rows.
// Differential on the real server itself: for the same filter and time range the answer
// of SELECT f(x) must equal f applied (by the harness) to the rows SELECT x returns.
// Histories spread data over memtable, ordered, out-of-order and compacted files with
// small segments so that time ranges cut through segments and files.
package main

import (
	"encoding/json"
	"fmt"
	"math"
	"math/rand/v2"
	"os"
	"path/filepath"
	"sort"
	"strconv"
	"strings"
	"sync"
	"time"

	"verifharness/kit"
	"verifharness/model"
	"verifharness/proc"
	"verifharness/vf"
)

const db = "db0"

type step struct {
	Op     string   `json:"op"`
	Points []string `json:"points,omitempty"`
	pts    []model.Point
}

type history struct {
	Index     int    `json:"index"`
	Kind      string `json:"kind,omitempty"` // classic | late-fields | many-series
	Config    string `json:"config"`
	SingleGen bool   `json:"single_generation"`
	Steps     []step `json:"steps"`
}

var configs = []struct {
	Name  string
	Extra map[string][]string
}{
	{"small-segments-8", map[string][]string{"data": {"max-rows-per-segment = 8"}}},
	{"default", nil},
	{"small-segments-3", map[string][]string{"data": {"max-rows-per-segment = 3"}}},
}

// genDenseHistory: two series with many rows each in ONE ordered file (several full
// segments under the small-segment configurations), late rows for one of them that fall
// into the later segments only, flushed to an out-of-order file, then the out-of-order
// merge (leading full segments are written through untouched), a full compaction, with a
// check point after every reorganisation. Every key is written once.
func genDenseHistory(r *rand.Rand, idx int) *history {
	h := &history{Index: idx, Kind: "dense-merge", SingleGen: true, Config: configs[(idx%2)*2].Name} // small-segments-8 / -3
	add := func(op string, pts []model.Point) {
		h.Steps = append(h.Steps, step{Op: op, pts: pts, Points: lp(pts)})
	}
	base := kit.BaseTime
	hosts := []map[string]string{{"host": "a", "region": "x"}, {"host": "b", "region": "y"}}
	var first []model.Point
	n := 40 + r.IntN(16)
	for _, se := range hosts {
		for i := 0; i < n; i++ {
			p := model.Point{Mst: "m0", Tags: se, T: base + int64(i)*2_000_000_000, Fields: map[string]model.Value{"fi": kit.Value(r, 'i')}}
			if r.IntN(4) != 0 {
				p.Fields["ff"] = kit.Value(r, 'f')
			}
			resign(&p)
			first = append(first, p)
		}
	}
	add("write", first)
	add("flush", nil)
	var late []model.Point
	for k := 0; k < 3+r.IntN(4); k++ {
		i := n/2 + r.IntN(n/2-1) // second half only: the leading segments stay untouched
		late = append(late, model.Point{Mst: "m0", Tags: hosts[0], T: base + int64(i)*2_000_000_000 + 1_000_000_000,
			Fields: map[string]model.Value{"fi": kit.Value(r, 'i'), "ff": kit.Value(r, 'f')}})
	}
	// de-duplicate the late timestamps
	seen := map[int64]bool{}
	var uniq []model.Point
	for _, p := range late {
		if !seen[p.T] {
			seen[p.T] = true
			uniq = append(uniq, p)
		}
	}
	add("write", uniq)
	add("flush", nil)
	add("check", nil)
	add("merge", nil)
	add("check", nil)
	add("compact-full", nil)
	add("check", nil)
	return h
}

func lp(pts []model.Point) []string {
	out := make([]string, len(pts))
	for i, p := range pts {
		out[i] = p.LP()
	}
	return out
}

// genHistory. singleGen: every (series,timestamp) is written in exactly one flush
// generation (late data still exist: older timestamps of OTHER keys arrive after newer
// ones were flushed).
// kinds of history by index (mod 8); the even indexes are single-generation histories
var kinds = []string{"classic", "classic", "late-fields", "late-fields", "many-series", "classic", "late-fields", "many-series"}

// numericFields the queries of a history of this kind aggregate.
func numericFields(kind string) []callSpec {
	fs := []callSpec{{Field: "fi", Kind: 'i'}, {Field: "ff", Kind: 'f'}}
	if kind == "late-fields" || kind == "many-series" {
		fs = append(fs, callSpec{Field: "gi", Kind: 'i'}, callSpec{Field: "gf", Kind: 'f'})
	}
	return fs
}

var fieldKind = map[string]byte{"fi": 'i', "ff": 'f', "gi": 'i', "gf": 'f'}

// field subsets of the many-series kind: every series writes only its own subset, so
// the pieces folded together inside one cursor lack each other's fields
var subsets = [][]string{{"fi"}, {"ff"}, {"gi"}, {"gf"}, {"fi", "gf"}, {"ff", "gi"}, {"fi", "fb"}, {"gf", "fb"}}

// genHistory.
//   - classic: 5 series, four typed fields, every row a random subset of them.
//   - late-fields: the same, plus two numeric fields gi, gf that appear only after the
//     first flush, mostly in rows of their own: the older fields of a series sit in files
//     while the new ones are still in the memtable, and files differ in the fields they hold.
//   - many-series: 48 series (more than the query parallelism) under 5 host values, each
//     series writing only its own subset of the fields.
func genHistory(r *rand.Rand, idx int, singleGen bool, nops int) *history {
	h := &history{Index: idx, Kind: kinds[idx%len(kinds)], SingleGen: singleGen, Config: configs[idx%len(configs)].Name}
	u := kit.NewUniverse(1, 5, 24)
	kindOf := map[string]byte{"fi": 'i', "ff": 'f', "gi": 'i', "gf": 'f', "fb": 'b', "fs": 's'}
	if h.Kind == "many-series" {
		hosts := []string{"a", "b", "c", "d", "e"}
		u.Series = nil
		for i := 0; i < 48; i++ {
			u.Series = append(u.Series, map[string]string{"host": hosts[i%5], "region": []string{"x", "y"}[(i/5)%2], "n": fmt.Sprintf("%02d", i)})
		}
	}
	seriesNo := func(se map[string]string) int {
		n, _ := strconv.Atoi(se["n"])
		return n
	}
	flushed := false
	add := func(op string, pts []model.Point) {
		h.Steps = append(h.Steps, step{Op: op, pts: pts, Points: lp(pts)})
	}
	used := map[string]bool{} // keys written in an earlier generation
	cur := map[string]bool{}  // keys written in the current generation
	gen := func(n int, nullHeavy bool) []model.Point {
		var pts []model.Point
		for tries := 0; len(pts) < n && tries < n*20; tries++ {
			se := u.Series[r.IntN(len(u.Series))]
			t := u.Times[r.IntN(len(u.Times))]
			key := model.SeriesKey(se) + "@" + strconv.FormatInt(t, 10)
			if singleGen && used[key] {
				continue
			}
			p := model.Point{Mst: "m0", Tags: se, T: t, Fields: map[string]model.Value{}}
			switch {
			case h.Kind == "many-series":
				for _, f := range subsets[seriesNo(se)%len(subsets)] {
					if r.IntN(4) != 0 {
						p.Fields[f] = kit.Value(r, kindOf[f])
					}
				}
				if len(p.Fields) == 0 {
					f := subsets[seriesNo(se)%len(subsets)][0]
					p.Fields[f] = kit.Value(r, kindOf[f])
				}
			case h.Kind == "late-fields" && flushed && r.IntN(2) == 0:
				// a row of the late fields only (sometimes with one old field)
				for _, f := range []string{"gi", "gf"} {
					if r.IntN(3) != 0 {
						p.Fields[f] = kit.Value(r, kindOf[f])
					}
				}
				if len(p.Fields) == 0 {
					p.Fields["gf"] = kit.Value(r, 'f')
				}
				if r.IntN(4) == 0 {
					p.Fields["fi"] = kit.Value(r, 'i')
				}
			default:
				for _, f := range u.Fields {
					prob := 2
					if nullHeavy {
						prob = 4
					}
					if r.IntN(prob) == 0 || f.Name == "fb" && r.IntN(2) == 0 {
						p.Fields[f.Name] = kit.Value(r, f.Kind)
					}
				}
				if len(p.Fields) == 0 {
					p.Fields["fi"] = kit.Value(r, 'i')
				}
			}
			resign(&p)
			cur[key] = true
			pts = append(pts, p)
		}
		return pts
	}
	seed := u.SeedBatch(r, nil)
	if h.Kind == "many-series" {
		// the seed row of a series carries its own field subset only
		for i := range seed {
			fs := map[string]model.Value{}
			for _, f := range subsets[seriesNo(seed[i].Tags)%len(subsets)] {
				fs[f] = kit.Value(r, kindOf[f])
			}
			seed[i].Fields = fs
		}
	}
	for i := range seed {
		resign(&seed[i])
	}
	for _, p := range seed {
		cur[model.SeriesKey(p.Tags)+"@"+strconv.FormatInt(p.T, 10)] = true
	}
	add("write", seed)
	for len(h.Steps) < nops {
		x := r.IntN(100)
		switch {
		case x < 55:
			n := 2 + r.IntN(10)
			if h.Kind == "many-series" {
				n = 10 + r.IntN(30)
			}
			add("write", gen(n, r.IntN(3) == 0))
		case x < 78:
			add("flush", nil)
			flushed = true
			for k := range cur {
				used[k] = true
			}
			cur = map[string]bool{}
		case x < 84:
			add("compact-full", nil)
		case x < 92:
			add("merge", nil)
		case x < 96:
			add("compact-level", nil)
		default:
			add("check", nil)
		}
	}
	add("check", nil)
	return h
}

type runner struct {
	c   *vf.Ctx
	bin string
}

type rawRow struct {
	t    int64
	host string
	v    model.Value
}

var funcs = []string{"count", "sum", "mean", "min", "max", "first", "last"}

// callSpec is one aggregate call of a statement.
type callSpec struct {
	Func  string `json:"func"`
	Field string `json:"field"`
	Kind  byte   `json:"-"`
}

// Group: "" overall | "host" per tag | "time" per bucket | "time,host" per bucket and tag.
// Func/Field is the first call; More holds the further calls of a multi-call statement
// (SELECT f(a) AS c0, g(b) AS c1 ...).
type querySpec struct {
	Func   string     `json:"func"`
	Field  string     `json:"field"`
	Kind   byte       `json:"-"`
	More   []callSpec `json:"more_calls,omitempty"`
	TMin   int64      `json:"tmin"`
	TMax   int64      `json:"tmax"`
	Bound  bool       `json:"time_bounded"`
	Filter string     `json:"filter,omitempty"` // field filter text
	Group  string     `json:"group"`
	Width  int64      `json:"bucket_ns,omitempty"`
	Hint   bool       `json:"exact_hint"`
	Desc   bool       `json:"desc"`
}

func (q querySpec) calls() []callSpec {
	return append([]callSpec{{Func: q.Func, Field: q.Field, Kind: q.Kind}}, q.More...)
}
func (q querySpec) multi() bool { return len(q.More) > 0 }

// column names the output column of call i.
func (q querySpec) column(i int) string {
	if q.multi() {
		return fmt.Sprintf("c%d", i)
	}
	return q.Func
}

func (q querySpec) callsText() string {
	var ps []string
	for _, c := range q.calls() {
		ps = append(ps, fmt.Sprintf("%s(%s)", c.Func, c.Field))
	}
	return strings.Join(ps, ",")
}

func (q *querySpec) restoreKinds() {
	q.Kind = fieldKind[q.Field]
	for i := range q.More {
		q.More[i].Kind = fieldKind[q.More[i].Field]
	}
}

func (q querySpec) byTime() bool { return strings.HasPrefix(q.Group, "time") }
func (q querySpec) byHost() bool { return strings.HasSuffix(q.Group, "host") }

func (q querySpec) where() string {
	var cs []string
	if q.Bound {
		cs = append(cs, fmt.Sprintf("time >= %d AND time <= %d", q.TMin, q.TMax))
	}
	if q.Filter != "" {
		cs = append(cs, q.Filter)
	}
	if len(cs) == 0 {
		return ""
	}
	return " WHERE " + strings.Join(cs, " AND ")
}

func (q querySpec) aggText() string {
	hint := ""
	if q.Hint {
		hint = "/*+ Exact_Statistic_Query */ "
	}
	sel := fmt.Sprintf("%s(%s)", q.Func, q.Field)
	if q.multi() {
		var ps []string
		for i, c := range q.calls() {
			ps = append(ps, fmt.Sprintf("%s(%s) AS %s", c.Func, c.Field, q.column(i)))
		}
		sel = strings.Join(ps, ", ")
	}
	s := fmt.Sprintf("SELECT %s%s FROM m0%s", hint, sel, q.where())
	switch q.Group {
	case "host":
		s += " GROUP BY host"
	case "time":
		s += fmt.Sprintf(" GROUP BY time(%dns) fill(none)", q.Width)
	case "time,host":
		s += fmt.Sprintf(" GROUP BY time(%dns), host fill(none)", q.Width)
	}
	if q.Desc {
		s += " ORDER BY time DESC"
	}
	return s
}

func (q querySpec) rawFields() []string {
	var fs []string
	seen := map[string]bool{}
	for _, c := range q.calls() {
		if !seen[c.Field] {
			seen[c.Field] = true
			fs = append(fs, c.Field)
		}
	}
	return fs
}

func (q querySpec) rawText() string {
	return fmt.Sprintf("SELECT %s FROM m0%s GROUP BY *", strings.Join(q.rawFields(), ", "), q.where())
}

// must tells whether the property demands equality for this query in this history.
func (q querySpec) must(singleGen bool) bool {
	return q.Hint || q.Filter != "" || q.byTime() || singleGen
}

// statisticsEligible: the shape for which the engine may answer from per-segment
// statistics instead of data (calls only, no bucket, no field filter, no exact hint).
func (q querySpec) statisticsEligible() bool {
	return !q.Hint && q.Filter == "" && !q.byTime()
}

func (q querySpec) key(host string, t int64) string {
	var parts []string
	if q.byHost() {
		parts = append(parts, host)
	}
	if q.byTime() {
		parts = append(parts, strconv.FormatInt(t-mod(t, q.Width), 10))
	}
	return strings.Join(parts, "|")
}

func parseCell(cell any, kind byte) (model.Value, bool) {
	if cell == nil {
		return model.Value{}, false
	}
	v, err := model.ParseValue(cell, kind)
	return v, err == nil
}

func num(v model.Value) float64 {
	if v.Kind == 'i' {
		return float64(v.I)
	}
	return v.F
}

// answer: the admissible values of f over the rows of one group (more than one only for
// first/last when several series hold the extreme timestamp).
type answer struct {
	vals []float64
}

func applyFunc(f string, kind byte, rs []rawRow) answer {
	var a answer
	if len(rs) == 0 {
		return a
	}
	switch f {
	case "count":
		a.vals = []float64{float64(len(rs))}
	case "sum":
		s := 0.0
		var si int64
		for _, r := range rs {
			s += num(r.v)
			si += r.v.I
		}
		if kind == 'i' {
			a.vals = []float64{float64(si)}
		} else {
			a.vals = []float64{s}
		}
	case "mean":
		s := 0.0
		for _, r := range rs {
			s += num(r.v)
		}
		a.vals = []float64{s / float64(len(rs))}
	case "min", "max":
		m := num(rs[0].v)
		for _, r := range rs {
			if f == "min" && num(r.v) < m || f == "max" && num(r.v) > m {
				m = num(r.v)
			}
		}
		a.vals = []float64{m}
	case "first", "last":
		bt := rs[0].t
		for _, r := range rs {
			if f == "first" && r.t < bt || f == "last" && r.t > bt {
				bt = r.t
			}
		}
		for _, r := range rs {
			if r.t == bt {
				a.vals = append(a.vals, num(r.v))
			}
		}
	}
	return a
}

func mod(a, b int64) int64 {
	m := a % b
	if m < 0 {
		m += b
	}
	return m
}

func closeEnough(a, b float64) bool {
	if a == b {
		return true
	}
	d := math.Abs(a - b)
	return d <= 1e-12*math.Max(math.Abs(a), math.Abs(b))
}

func (a answer) admits(g float64) bool {
	for _, v := range a.vals {
		if closeEnough(v, g) {
			return true
		}
	}
	return false
}

// observation of one query pair.
type observation struct {
	nrows    int // rows of the plain select with a value in x
	nullRows int // rows of the plain select that pass the filter but have a null in x
	groups   map[string][]rawRow
	want     map[string]answer
	got      map[string]float64
	gotTime  map[string]int64 // the time column of the aggregate's row
	gotRaw   map[string]string
	dup      []string // group keys the aggregate returned more than once
	missing  []string // rows exist, the aggregate has no value
	extra    []string // the aggregate has a value, the plain select has no row
	wrong    []string // both exist and differ
	diff     []string // human-readable, capped
	aggBody  string
	rawBody  string
}

func (o *observation) differs() bool {
	return len(o.dup)+len(o.missing)+len(o.extra)+len(o.wrong) > 0
}

// observe runs the pair. With several calls every call is judged on its own against the
// rows that hold a value of its field; group keys are then prefixed with "c<i>:".
func (rn *runner) observe(s *proc.Server, q querySpec) (*observation, error) {
	o := &observation{groups: map[string][]rawRow{}, want: map[string]answer{}, got: map[string]float64{},
		gotTime: map[string]int64{}, gotRaw: map[string]string{}}
	calls := q.calls()
	prefix := func(ci int) string {
		if q.multi() {
			return fmt.Sprintf("c%d:", ci)
		}
		return ""
	}
	raw, err := s.Query(db, q.rawText(), nil)
	if err != nil {
		return nil, err
	}
	o.rawBody = raw.Raw
	if len(raw.Results) > 0 {
		for _, se := range raw.Results[0].Series {
			col := map[string]int{}
			for i, cn := range se.Columns {
				col[cn] = i
			}
			for _, row := range se.Values {
				t, _ := strconv.ParseInt(fmt.Sprint(row[0]), 10, 64)
				for ci, c := range calls {
					idx, ok := col[c.Field]
					var v model.Value
					if ok && idx < len(row) {
						v, ok = parseCell(row[idx], c.Kind)
					}
					if !ok {
						// openGemini returns the rows that pass the filter (or hold another
						// selected field) even when this field is null in them; they hold no
						// value of x and count for nothing
						if ci == 0 {
							o.nullRows++
						}
						continue
					}
					r := rawRow{t: t, host: se.Tags["host"], v: v}
					k := prefix(ci) + q.key(r.host, r.t)
					o.groups[k] = append(o.groups[k], r)
					if ci == 0 {
						o.nrows++
					}
				}
			}
		}
	}
	callOf := func(k string) callSpec {
		if q.multi() {
			ci, _ := strconv.Atoi(k[1:strings.IndexByte(k, ':')])
			return calls[ci]
		}
		return calls[0]
	}
	for k, rs := range o.groups {
		c := callOf(k)
		o.want[k] = applyFunc(c.Func, c.Kind, rs)
	}
	agg, err := s.Query(db, q.aggText(), nil)
	if err != nil {
		return nil, err
	}
	o.aggBody = agg.Raw
	dup := map[string]bool{}
	if len(agg.Results) > 0 {
		for _, se := range agg.Results[0].Series {
			for ci := range calls {
				idx := -1
				for i, cn := range se.Columns {
					if cn == q.column(ci) {
						idx = i
					}
				}
				if idx < 0 {
					continue
				}
				for _, row := range se.Values {
					if row[idx] == nil {
						// a null is "no value" (an empty bucket or group); never compared
						continue
					}
					t, _ := strconv.ParseInt(fmt.Sprint(row[0]), 10, 64)
					var parts []string
					if q.byHost() {
						parts = append(parts, se.Tags["host"])
					}
					if q.byTime() {
						// the bucket start as the server reports it
						parts = append(parts, strconv.FormatInt(t, 10))
					}
					key := prefix(ci) + strings.Join(parts, "|")
					f, perr := strconv.ParseFloat(fmt.Sprint(row[idx]), 64)
					if perr != nil {
						o.wrong = append(o.wrong, key)
						o.diff = append(o.diff, fmt.Sprintf("group %q: unparsable value %v", key, row[idx]))
						continue
					}
					if _, seen := o.got[key]; seen && !dup[key] {
						dup[key] = true
						o.dup = append(o.dup, key)
						o.diff = append(o.diff, fmt.Sprintf("group %q returned more than once", key))
					}
					o.got[key] = f
					o.gotTime[key] = t
					o.gotRaw[key] = fmt.Sprint(row[idx])
				}
			}
		}
	}
	keys := map[string]bool{}
	for k := range o.want {
		keys[k] = true
	}
	for k := range o.got {
		keys[k] = true
	}
	var ks []string
	for k := range keys {
		ks = append(ks, k)
	}
	sort.Strings(ks)
	for _, k := range ks {
		w, wok := o.want[k]
		g, gok := o.got[k]
		c := callOf(k)
		switch {
		case wok && !gok:
			o.missing = append(o.missing, k)
			o.diff = append(o.diff, fmt.Sprintf("group %q: %s(%s) has no value, rows give %v", k, c.Func, c.Field, w.vals))
		case !wok && gok:
			if c.Func == "count" && g == 0 {
				continue // count over no row may be reported as 0
			}
			o.extra = append(o.extra, k)
			o.diff = append(o.diff, fmt.Sprintf("group %q: %s(%s) = %s but the plain select returns no row there", k, c.Func, c.Field, o.gotRaw[k]))
		default:
			if !w.admits(g) {
				o.wrong = append(o.wrong, k)
				o.diff = append(o.diff, fmt.Sprintf("group %q: %s(%s) = %s, over the rows of the plain select = %v", k, c.Func, c.Field, o.gotRaw[k], w.vals))
			}
		}
	}
	if len(o.diff) > 5 {
		o.diff = o.diff[:5]
	}
	if o.differs() && os.Getenv("VERIF_C09_DEBUG") != "" {
		fmt.Printf("DEBUG agg: %s\n  %s\nDEBUG raw: %s\n  %s\n", q.aggText(), agg.Raw, q.rawText(), raw.Raw)
	}
	return o, nil
}

// classify derives the finding signature from the observation. Each named class is the
// footprint of one root cause (see known_findings.d/c09.json); everything else keeps the
// generic signature, which no known finding matches.
func (rn *runner) classify(s *proc.Server, q querySpec, o *observation, l kit.Layout) string {
	why := "single-generation-history"
	switch {
	case q.Hint:
		why = "exact-hint"
	case q.Filter != "":
		why = "field-filter"
	case q.byTime():
		why = "time-bucket"
	}
	generic := fmt.Sprintf("aggregate-differs-from-rows|%s|group=%s|%s", q.Func, q.Group, why)
	if q.multi() {
		// several calls in one statement: no named class
		return fmt.Sprintf("aggregate-differs-from-rows|multi-call|%s|group=%s|%s", q.callsText(), q.Group, why)
	}
	onlyWrong := len(o.wrong) > 0 && len(o.dup)+len(o.missing)+len(o.extra) == 0

	// (1) descending order: first/last exchanged (with and without time buckets) ...
	if q.Desc && (q.Func == "first" || q.Func == "last") && onlyWrong {
		opposite := map[string]string{"first": "last", "last": "first"}[q.Func]
		all := true
		for _, k := range o.wrong {
			if !applyFunc(opposite, q.Kind, o.groups[k]).admits(o.got[k]) {
				all = false
			}
		}
		if all {
			return "first-last-swapped-under-order-by-time-desc|group=" + q.Group
		}
	}
	// ... or buckets mixed up although the same query in ascending order agrees
	if q.Desc && q.byTime() {
		asc := q
		asc.Desc = false
		if ao, err := rn.observe(s, asc); err == nil && !ao.differs() && l.Ordered >= 2 && (l.ActiveMem || l.Unordered > 0) {
			return "order-by-time-desc-differs-while-asc-agrees|several-ordered-files-plus-late-rows|group=" + q.Group
		}
		return generic
	}
	// (2) rows that pass the field filter but hold a null in the aggregated field
	if q.Filter != "" && o.nullRows > 0 {
		shape := ""
		switch {
		case len(o.dup) > 0:
			shape = "group-returned-more-than-once"
		case len(o.extra)+len(o.wrong) == 0:
			shape = "values-lost"
		default:
			// every returned value is the correct value of some group
			shifted := true
			for _, k := range append(append([]string{}, o.extra...), o.wrong...) {
				found := false
				for _, w := range o.want {
					if w.admits(o.got[k]) {
						found = true
					}
				}
				if !found {
					shifted = false
				}
			}
			if shifted {
				shape = "values-attributed-to-another-group"
			}
		}
		if shape != "" {
			return fmt.Sprintf("null-in-aggregated-field-with-field-filter|group=%s|%s", q.Group, shape)
		}
		return generic
	}
	// (3) first/last answered from file statistics: the value of one row with the time of
	// another one
	if (q.Func == "first" || q.Func == "last") && q.statisticsEligible() && onlyWrong {
		all := true
		for _, k := range o.wrong {
			found := false
			for _, r := range o.groups[k] {
				if closeEnough(num(r.v), o.got[k]) && r.t != o.gotTime[k] {
					found = true
				}
			}
			if !found {
				all = false
			}
		}
		if all {
			return "first-last-from-statistics-carries-time-of-another-row|group=" + q.Group
		}
	}
	return generic
}

var filters = []string{"fi > 0", "ff >= 0", "fb = true", "fi % 2 = 0"}

func genQuery(r *rand.Rand, times []int64, fields []callSpec) querySpec {
	f := fields[r.IntN(len(fields))]
	q := querySpec{Func: funcs[r.IntN(len(funcs))], Field: f.Field, Kind: f.Kind}
	// time range: ends inside, on the edge of, outside the stored range
	lo, hi := times[0], times[len(times)-1]
	pick := func() int64 {
		switch r.IntN(4) {
		case 0:
			return times[r.IntN(len(times))] // on a stored timestamp
		case 1:
			return times[r.IntN(len(times))] + 500_000_000 // between
		case 2:
			return lo - 5_000_000_000
		}
		return hi + 5_000_000_000
	}
	a, b := pick(), pick()
	if a > b {
		a, b = b, a
	}
	q.TMin, q.TMax = a, b
	q.Bound = r.IntN(5) != 0
	switch r.IntN(4) {
	case 1:
		q.Group = "host"
	case 2:
		q.Group = "time"
	case 3:
		q.Group = "time,host"
	}
	if q.byTime() {
		q.Bound = true
		q.Width = []int64{1_000_000_000, 2_000_000_000, 5_000_000_000, 7_000_000_000}[r.IntN(4)]
		if q.TMin < lo-5_000_000_000 {
			q.TMin = lo - 5_000_000_000
		}
	}
	if r.IntN(4) == 0 {
		q.Filter = filters[r.IntN(len(filters))]
	}
	q.Hint = r.IntN(3) == 0
	q.Desc = r.IntN(4) == 0
	// a third of the statements carry two or three calls, over different fields where
	// possible (sum / mean preferred: their statistics are folded by addition)
	if r.IntN(3) == 0 {
		pickFunc := func() string {
			if r.IntN(2) == 0 {
				return []string{"sum", "mean"}[r.IntN(2)]
			}
			return funcs[r.IntN(len(funcs))]
		}
		q.Func = pickFunc()
		n := 1 + r.IntN(2)
		used := map[string]bool{q.Field: true}
		for i := 0; i < n; i++ {
			g := fields[r.IntN(len(fields))]
			for tries := 0; used[g.Field] && tries < 8; tries++ {
				g = fields[r.IntN(len(fields))]
			}
			used[g.Field] = true
			q.More = append(q.More, callSpec{Func: pickFunc(), Field: g.Field, Kind: g.Kind})
		}
	}
	return q
}

// genEdgeProbe: a single call whose time range ends (or starts) exactly on the row with
// which a stored segment of the series begins (or ends) — row positions that are multiples of
// max-rows-per-segment — and is as narrow as that one row, its neighbour, or reaches back to
// the beginning: the statistics path decides per segment whether to read it, skip it or take
// its stored statistics, and the edges of those decisions are where it goes wrong.
// resign gives the numeric values a sign by series: the shared value source only produces
// positive, ever growing numbers, and extremes that start from 0 (or from the smallest positive
// float) are only wrong for data that never rises above it. Series of host b carry negative
// values only, those of host c (and region y of the wider histories) alternate by timestamp,
// the others stay positive. Negation keeps the values distinct.
func resign(p *model.Point) {
	neg := false
	switch p.Tags["host"] {
	case "b":
		neg = true
	case "c":
		neg = (p.T/1_000_000_000)%2 == 0
	}
	if !neg {
		return
	}
	for k, v := range p.Fields {
		switch v.Kind {
		case 'i':
			p.Fields[k] = model.Int(-v.I)
		case 'f':
			p.Fields[k] = model.Float(-v.F)
		}
	}
}

func genEdgeProbe(r *rand.Rand, times []int64, fields []callSpec, seg, k int) querySpec {
	f := fields[r.IntN(len(fields))]
	q := querySpec{Func: []string{"max", "min", "last", "first", "count", "sum"}[k%6], Field: f.Field, Kind: f.Kind, Bound: true}
	if (k/6)%2 == 1 {
		q.Group = "host"
	}
	if seg <= 0 || seg >= len(times) {
		seg = 8
	}
	n := len(times) / seg
	if n < 1 {
		n = 1
	}
	i := seg * (1 + r.IntN(n)) // first row of a segment (never the very first row)
	if i >= len(times) {
		i = len(times) - 1
	}
	lo := times[0] - 5_000_000_000
	if (k/3)%2 == 0 {
		// the range ENDS on the first row of a segment
		q.TMax = times[i]
		q.TMin = []int64{times[i], times[i-1], times[i/2], lo}[r.IntN(4)]
	} else {
		// the range STARTS on the last row of a segment
		q.TMin = times[i-1]
		hi := times[len(times)-1] + 5_000_000_000
		q.TMax = []int64{times[i-1], times[i], times[(i+len(times))/2], hi}[r.IntN(4)]
	}
	q.Desc = r.IntN(4) == 0
	return q
}

func segmentRows(config string) int {
	switch {
	case strings.HasSuffix(config, "-8"):
		return 8
	case strings.HasSuffix(config, "-3"):
		return 3
	}
	return 0
}

func rangeClass(q querySpec, times []int64) string {
	if !q.Bound {
		return "unbounded"
	}
	cl := func(t int64) string {
		switch {
		case t < times[0]:
			return "below-data"
		case t > times[len(times)-1]:
			return "above-data"
		case mod(t, 1_000_000_000) == 0:
			return "on-a-timestamp"
		}
		return "between-timestamps"
	}
	return cl(q.TMin) + ".." + cl(q.TMax)
}

func disableBackground(s *proc.Server) {
	s.HTTP.Post(s.URL()+"/debug/ctrl?mod=compen&switchon=false&allshards=true", "", nil)
	s.HTTP.Post(s.URL()+"/debug/ctrl?mod=merge&switchon=false&allshards=true", "", nil)
}

const maxUnknownPerHistory = 2

var layoutCats = []string{"memtable-rows", "ordered-files", "out-of-order-files", "compacted-files"}
var reached sync.Map // layout category -> true

func (rn *runner) run(h *history, worker int, only *querySpec) {
	c := rn.c
	r := c.Rand(uint64(9000 + h.Index))
	dir := filepath.Join(c.Scratch, fmt.Sprintf("h%d", h.Index))
	defer os.RemoveAll(dir)
	// automatic flush off: the keys live in [data.memtable] (defaults 5 s / 20 s); the
	// harness must know the flush generation of every write
	extra := map[string][]string{"data.memtable": {`write-cold-duration = "1h"`, `force-snapShot-duration = "1h"`}}
	for _, cf := range configs {
		if cf.Name == h.Config {
			for k, v := range cf.Extra {
				extra[k] = append(extra[k], v...)
			}
		}
	}
	s := proc.New(proc.Config{BGOff: true, Bin: rn.bin, Dir: dir, IP: proc.IP(9, worker), Extra: extra})
	if err := s.Start(); err != nil {
		c.Broken("start: %v", err)
		return
	}
	defer s.Kill()
	if err := s.WaitReady(180 * time.Second); err != nil {
		c.Broken("history %d: %v", h.Index, err)
		return
	}
	if _, err := s.Query("", "CREATE DATABASE "+db, nil); err != nil {
		c.Broken("create database: %v", err)
		return
	}
	disableBackground(s)
	u := kit.NewUniverse(1, 5, 24)
	unknown := 0
	edgeSeq := 0
	// files may change only at the flush / compact / merge steps the history asks for; a
	// change seen elsewhere means the server flushed on its own and the harness no longer
	// knows the flush generation of every write: the history is then judged as
	// multi-generation
	singleGen := h.SingleGen
	files := tsspFiles(s)
	selfFlushed := func() bool {
		if cur := tsspFiles(s); cur != files {
			files = cur
			if singleGen {
				singleGen = false
				c.Inconclusive("server-flushed-on-its-own(history-judged-as-multi-generation)", 1)
			}
			return true
		}
		return false
	}
	for i := range h.Steps {
		st := &h.Steps[i]
		if st.Op != "write" && st.Op != "check" {
			selfFlushed()
		}
		switch st.Op {
		case "write":
			selfFlushed()
			wr := s.Write(db, model.LPBatch(st.pts), nil)
			if !wr.Acked() {
				c.Inconclusive("write-not-acknowledged", 1)
				return
			}
			if i == 0 {
				if _, err := kit.WaitSeries(s, db, st.pts, 60*time.Second); err != nil {
					c.Inconclusive("series-never-visible", 1)
					return
				}
			}
		case "flush":
			_ = s.Flush()
			files = tsspFiles(s)
		case "compact-level":
			_ = s.Compact("level")
			files = tsspFiles(s)
		case "compact-full":
			_ = s.Compact("full")
			files = tsspFiles(s)
		case "merge":
			_ = s.Merge()
			files = tsspFiles(s)
		case "check":
			selfFlushed()
			l := kit.ReadLayout(s, db)
			c.Distinct("layout-vector", l.String())
			for j, have := range []bool{l.ActiveMem, l.Ordered > 0, l.Unordered > 0, l.MaxLevel > 0} {
				if have {
					c.Count("checkpoints-with-"+layoutCats[j], 1)
					reached.Store(layoutCats[j], true)
				}
			}
			nq := c.Pick(14, 40)
			nEdge := c.Pick(6, 12) // the last nEdge statements are segment-edge probes
			nq += nEdge
			for k := 0; k < nq; k++ {
				q := genQuery(r, u.Times, numericFields(h.Kind))
				if k >= nq-nEdge {
					q = genEdgeProbe(r, u.Times, numericFields(h.Kind), segmentRows(h.Config), edgeSeq)
					edgeSeq++
					c.Count("segment-edge-probes", 1)
				}
				if only != nil {
					if k > 0 {
						break
					}
					q = *only
					q.restoreKinds()
				}
				o, err := rn.observe(s, q)
				if err != nil {
					if !s.Alive() {
						c.Violation("server-died:"+firstFatal(s.StdoutTail(1<<20)), fmt.Sprintf("history %d: server died answering %s", h.Index, q.aggText()),
							map[string]any{"history": history{Index: h.Index, Kind: h.Kind, Config: h.Config, SingleGen: h.SingleGen, Steps: h.Steps[:i+1]}, "query": q, "stdout": s.StdoutTail(5000)})
						return
					}
					c.Inconclusive("query-error", 1)
					fmt.Printf("INCONCLUSIVE C09 history %d: %s: %v\n", h.Index, q.aggText(), err)
					continue
				}
				c.Eval(1)
				fn := q.Func
				if q.multi() {
					var fs []string
					for _, cl := range q.calls() {
						fs = append(fs, cl.Func)
					}
					fn = strings.Join(fs, "+")
				}
				shape := fmt.Sprintf("%s|group=%s|bounded=%v|filter=%v|hint=%v|desc=%v", fn, q.Group, q.Bound, q.Filter != "", q.Hint, q.Desc)
				c.Distinct("query-shape", shape)
				c.Distinct("history-kind", h.Kind)
				c.Distinct("time-range-ends", rangeClass(q, u.Times))
				if o.nrows > 0 {
					c.Nontrivial(shape + "|" + l.String())
				}
				if o.differs() && !q.must(false) {
					selfFlushed() // the verdict below rests on the generation bookkeeping
				}
				if !q.must(singleGen) && only == nil {
					c.Count("pairs-not-demanded-by-the-property(multi-generation,no-hint)", 1)
					if o.differs() {
						c.Count("pairs-not-demanded-that-differ", 1)
					}
					continue
				}
				c.Count("pairs-judged", 1)
				c.Count("rows-compared", int64(o.nrows))
				c.Count("groups-compared", int64(len(o.want)))
				if o.nrows > 0 {
					if o.nullRows > 0 {
						c.Count("pairs-judged-with-null-in-aggregated-field-among-filtered-rows", 1)
					}
					if q.statisticsEligible() {
						c.Count("pairs-judged-eligible-for-stored-statistics(no-hint,no-filter,no-bucket)", 1)
						if q.Bound && l.Ordered > 0 {
							c.Count("pairs-judged-eligible-for-stored-statistics-with-bounded-range-over-files", 1)
						}
					}
					if q.Desc {
						c.Count("pairs-judged-descending", 1)
					}
					if q.multi() {
						c.Count("pairs-judged-multi-call", 1)
						if q.statisticsEligible() {
							c.Count("pairs-judged-multi-call-eligible-for-stored-statistics", 1)
							if h.Kind != "classic" {
								c.Count("pairs-judged-multi-call-eligible-for-stored-statistics-over-sparse-fields", 1)
							}
						}
					}
				}
				if o.differs() {
					sig := rn.classify(s, q, o, l)
					known := c.Violation(sig,
						fmt.Sprintf("history %d (%s, layout %s): %s  vs  %s: %s", h.Index, h.Config, l.String(), q.aggText(), q.rawText(), strings.Join(o.diff, "; ")),
						map[string]any{"history": history{Index: h.Index, Kind: h.Kind, Config: h.Config, SingleGen: h.SingleGen, Steps: h.Steps[:i+1]}, "query": q, "diff": o.diff,
							"aggregate_response": o.aggBody, "plain_response": o.rawBody})
					if !known {
						unknown++
						if unknown >= maxUnknownPerHistory {
							c.Count("histories-abandoned-after-unknown-violations", 1)
							return
						}
					}
				}
			}
		}
	}
	c.Count("histories-completed", 1)
	if h.Index < 2 {
		var ops []string
		for _, st := range h.Steps {
			if st.Op == "write" {
				ops = append(ops, fmt.Sprintf("write(%d)", len(st.pts)))
			} else {
				ops = append(ops, st.Op)
			}
		}
		q := genQuery(r, u.Times, numericFields(h.Kind))
		c.Sample(map[string]any{"history": h.Index, "config": h.Config, "kind": h.Kind, "single_generation": h.SingleGen, "ops": strings.Join(ops, " "), "a_query_pair": []string{q.aggText(), q.rawText()}})
	}
}

// tsspFiles names the data files of the instance (ordered and out-of-order).
func tsspFiles(s *proc.Server) string {
	a, _ := filepath.Glob(s.DataDir() + "/data/" + db + "/*/*/*/tssp/*/*.tssp")
	b, _ := filepath.Glob(s.DataDir() + "/data/" + db + "/*/*/*/tssp/*/out-of-order/*.tssp")
	a = append(a, b...)
	sort.Strings(a)
	return strings.Join(a, "\n")
}

func firstFatal(s string) string {
	for _, ln := range strings.Split(s, "\n") {
		if strings.HasPrefix(ln, "panic:") || strings.HasPrefix(ln, "fatal error:") {
			if len(ln) > 140 {
				ln = ln[:140]
			}
			return ln
		}
	}
	return "no panic line"
}

func main() {
	c := vf.New("C09", "exploration")
	c.SetRule("seeded histories of three kinds — classic: 5 series × 24 timestamps, four typed fields, null-heavy; late-fields: two more numeric fields that appear only after the first flush (old fields in files, new ones in the memtable, files holding different fields); many-series: 48 series under 5 host values, every series writing only its own field subset — (late data, max-rows-per-segment 3 / 8 / default) with flush / level+full compaction / out-of-order merge at seeded positions on a real ts-server; at check points generated query pairs (one to three calls per statement over different int/float fields, each call judged on its own; f ∈ count,sum,mean,min,max,first,last; overall / per tag / per epoch-aligned time bucket / per bucket and tag; time ranges ending on a stored timestamp, between two, below and above the data; four field filters; exact hint on/off; asc/desc): SELECT f(x) must equal f over the rows SELECT x returns; pairs the property does not demand (multi-generation history, no hint/filter/bucket) are counted separately; distinct non-trivial = distinct (query shape, layout vector) with at least one row")
	c.Assume("the plain select is the reference (its own correctness is C02/C08); rows it returns with a null in x hold no value of x; first/last ties across series admit any of the tied values; a null in the aggregate's answer means no value; count = 0 for a group without rows is accepted")
	bin, err := proc.Build(c.RepoDir, c.Scratch, "ts-server", false)
	if err != nil {
		c.Broken("build ts-server: %v", err)
		c.Finish()
	}
	rn := &runner{c: c, bin: bin}
	if c.ReplayIn != "" {
		b, err := os.ReadFile(c.ReplayIn)
		if err != nil {
			c.Broken("replay: %v", err)
			c.Finish()
		}
		var w struct {
			Witness struct {
				History history   `json:"history"`
				Query   querySpec `json:"query"`
			} `json:"witness"`
		}
		if err := json.Unmarshal(b, &w); err != nil {
			c.Broken("replay: %v", err)
			c.Finish()
		}
		h := &w.Witness.History
		// only the final check point is replayed, with the recorded query
		var kept []step
		for i, st := range h.Steps {
			if st.Op == "check" && i != len(h.Steps)-1 {
				continue
			}
			for _, ln := range st.Points {
				p, err := model.ParseLP(ln)
				if err != nil {
					c.Broken("replay: %v", err)
					c.Finish()
				}
				st.pts = append(st.pts, p)
			}
			kept = append(kept, st)
		}
		h.Steps = kept
		if len(h.Steps) == 0 || h.Steps[len(h.Steps)-1].Op != "check" {
			h.Steps = append(h.Steps, step{Op: "check"})
		}
		rn.run(h, 0, &w.Witness.Query)
		if c.Violations() == 0 {
			fmt.Println("REPLAY C09: the recorded pair agrees now")
		}
		c.Nontrivial("replay-a")
		c.Nontrivial("replay-b")
		c.Finish()
	}
	n := c.Pick(8, 48)
	par := 8
	sem := make(chan int, par)
	for i := 0; i < par; i++ {
		sem <- i
	}
	var wg sync.WaitGroup
	for i := 0; i < n; i++ {
		h := genHistory(c.Rand(uint64(8000+i)), i, i%2 == 0, c.Pick(40, 70))
		w := <-sem
		wg.Add(1)
		go func(h *history, w int) {
			defer func() { sem <- w; wg.Done() }()
			rn.run(h, w, nil)
		}(h, w)
	}
	for k := 0; k < c.Pick(2, 6); k++ {
		h := genDenseHistory(c.Rand(uint64(8800+k)), n+k)
		w := <-sem
		wg.Add(1)
		go func(h *history, w int) {
			defer func() { sem <- w; wg.Done() }()
			rn.run(h, w, nil)
		}(h, w)
	}
	wg.Wait()
	// data layouts the design requires
	for _, cat := range layoutCats {
		if _, ok := reached.Load(cat); !ok {
			c.Inconclusive("category-not-reached:"+cat, 1)
		}
	}
	c.Finish()
}
