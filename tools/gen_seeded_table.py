#!/usr/bin/env python3
"""Rewrites the seeded-change table of DESIGN.md section 12 from seeded/*/meta.json and seeded/results.json."""
import json, os, re, glob
V=os.path.dirname(os.path.dirname(os.path.abspath(__file__)))
res=json.load(open(os.path.join(V,'seeded','results.json')))
rows=[]
for m in sorted(glob.glob(os.path.join(V,'seeded','*','meta.json'))):
    d=json.load(open(m)); r=res.get(d['id'],{"verdict":"not run","by":"","signature":"","note":""})
    needs=d['needs_to_manifest'].replace('|','/').replace('\n',' ')
    if len(needs)>220: needs=needs[:217]+'...'
    verdict=r['verdict']+(' by '+r['by'] if r.get('by') else '')
    sig=r.get('signature','').replace('|','\\|')
    note=r.get('note','').replace('|','\\|')
    rows.append(f"| {d['id']} ({d['property']}) | {needs} | {verdict}{' — `'+sig+'`' if sig else ''} | {note} |")
table="| seeded change | needs to manifest | verdict | what had to be strengthened |\n|---|---|---|---|\n"+"\n".join(rows)+"\n"
p=os.path.join(V,'DESIGN.md'); s=open(p).read()
b,e='<!-- SEEDED-TABLE-BEGIN -->','<!-- SEEDED-TABLE-END -->'
if b in s:
    s=s[:s.index(b)+len(b)]+"\n"+table+s[s.index(e):]
else:
    # replace the first markdown table after the section-12 heading
    i=s.index('## 12. Seeded changes')
    j=s.index('| seeded change |',i)
    k=j
    lines=s[j:].split('\n')
    n=0
    for ln in lines:
        if ln.startswith('|'): n+=len(ln)+1
        else: break
    s=s[:j]+b+"\n"+table+e+"\n"+s[j+n:]
open(p,'w').write(s)
caught=sum(1 for r in res.values() if r['verdict']=='caught'); print(len(rows),'seeded;',caught,'caught')
