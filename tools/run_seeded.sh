#!/bin/bash
# tools/run_seeded.sh <seeded-id> [quick|thorough] [seed]
# Applies /verif/seeded/<id>/patch.diff to a scratch worktree of /repo's HEAD, runs the
# check of the property it breaks against that tree (VERIF_REPO), prints the verdict and
# removes the worktree. Expected: exit 1 with a VIOLATION line.
set -u
cd "$(dirname "$0")/.."
id="$1"; tier="${2:-quick}"; seed="${3:-1}"
meta="seeded/$id/meta.json"
prop="$(jq -r .property "$meta")"
wt="/var/tmp/seeded-wt-$id-$$"; out="/var/tmp/seeded-out-$id-$$"
git -C /repo worktree add --detach "$wt" HEAD >/dev/null 2>&1 || { echo "cannot create worktree"; exit 2; }
trap 'git -C /repo worktree remove --force "$wt" >/dev/null 2>&1; rm -rf "$out"' EXIT
if ! git -C "$wt" apply "$PWD/seeded/$id/patch.diff"; then echo "seeded $id: patch does not apply to HEAD"; exit 2; fi
VERIF_SEED="$seed" VERIF_REPO="$wt" VERIF_OUT="$out" ./run "$prop" "$tier" > "$out.log" 2>&1
rc=$?
grep -aE "VIOLATION|signature:|BROKEN" "$out.log" | cut -c1-300 | head -10
grep -aE "SUMMARY" "$out.log" | cut -c1-300 | head -2
echo "SEEDED id=$id property=$prop tier=$tier seed=$seed exit=$rc $( [ $rc -eq 1 ] && echo CAUGHT || echo MISSED )"
rm -f "$out.log"
exit 0
