#!/bin/bash
# tools/sweep.sh <Cnn> <tier> <seed...>  — runs a check at several seeds, prints one line per VIOLATION signature / summary
p=$1; t=$2; shift 2
for s in "$@"; do
  VERIF_SEED=$s ./run $p $t 2>&1 | grep -E "signature:|SUMMARY|BROKEN|KNOWN-FINDING" | cut -c1-260 | sed "s/^/[seed $s] /"
done
