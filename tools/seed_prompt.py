#!/usr/bin/env python3
"""tools/seed_prompt.py <Cnn> <worktree> [avoid text]  — prints the brief for an independent
sub-agent that is asked for a property-breaking change (it gets the property text and a
private worktree only, nothing from /verif)."""
import json, sys
pid, wt = sys.argv[1], sys.argv[2]
avoid = sys.argv[3] if len(sys.argv) > 3 else ""
p = next(json.loads(l) for l in open('/verif/properties.jsonl') if json.loads(l)['id'] == pid)
print(f"""You are helping to evaluate a verification effort for openGemini (a distributed time-series database written in Go). Your job is to play the part of a plausible regression: produce ONE change to the openGemini source that breaks the semantic property quoted below, while the code still compiles and the existing tests of the packages you touch still pass.

Work ONLY inside your private git worktree: {wt} (a checkout of the repository). Do not read or write anything under /verif or /repo, and do not look at any other directory under /tmp or /var/tmp: your work must be independent.

The property (id {pid}): {p['title']}
Statement: {p['statement']}
Quantified: {p['quantifier']['text']}
Code anchors: {json.dumps(p.get('anchors'))}

Requirements for the change:
* It must be realistic: the kind of slip a maintainer could make in a refactoring, an optimisation or a bug fix (an off-by-one on a boundary, a dropped lock or reordered pair of steps, a cache that is not invalidated, a condition simplified too far, a fast path that skips a step, a field forgotten in a copy/codec) - not sabotage that ordinary use would expose at once.
* It must need something SPECIFIC to manifest: a particular interleaving, a crash or fault at a particular point, a multi-step sequence of operations, an unusual input or boundary value, or two cooperating sites that each look fine alone. Simple smoke use (write a few points, read them back) must still work.
* It must compile (`go build ./...` in the touched module) and the existing unit tests of every package you touch must still pass (`go test -count=1 -vet=off <pkg>`); run them and report the result. Do not edit existing tests.
* Keep it small (typically 1-15 changed lines in 1-2 files). Do not touch files whose name starts with verif_ or that carry the build tag `verif`.
{('* Choose a different mechanism / code site from these, which are already taken: ' + avoid) if avoid else ''}

Also write a DEMONSTRATION: a new Go test file (or a small program/script driving the built binaries) that FAILS with your change and PASSES without it. Verify both directions yourself (save your diff with `git diff > /tmp/<your-own-name>.patch`, then `git apply -R` / `git apply` it; NEVER use `git stash`: the stash is shared by all worktrees of the repository and other agents are working in sibling worktrees) and report the exact commands. Put the demonstration in new files only.

Toolchain (no network; every shell call needs this):
  export PATH=/root/go/pkg/mod/golang.org/toolchain@v0.0.1-go1.25.0.linux-amd64/bin:$PATH GOTOOLCHAIN=local GOFLAGS=-mod=mod GOPROXY=off GOSUMDB=off
The main module is the worktree root; `go build ./app/ts-server` etc. work offline. A single-node server can be run with `ts-server run -config <copy of config/openGemini.singlenode.conf with /tmp/openGemini replaced by a private directory and ports/addresses changed to a private loopback address such as 127.77.<n>.1>`. Use only loopback addresses in 127.77.0.0/16 picked at random to avoid clashing with other users of this machine, and kill every process you start.

When you are done, leave in the worktree (uncommitted is fine): the source change, and the demonstration files. Then reply with:
1. `git diff` of the source change (without the demonstration),
2. the list of demonstration files and the exact commands to run the demonstration,
3. what you ran to confirm: build, existing package tests (pass with the change), demonstration fails with / passes without the change,
4. one paragraph: what exactly is needed for the breakage to manifest and what a user would observe.
""")
