#!/bin/bash
# tools/sweep_all.sh <tier> <seed...> — every registered check at the given seeds
t=$1; shift
for s in "$@"; do
  for p in $(jq -r '.checks[].property_id' MANIFEST.json); do
    start=$(date +%s)
    VERIF_SEED=$s ./run $p $t > /tmp/sweep-$p-$s.log 2>&1; rc=$?
    echo "[seed $s] $p rc=$rc $(( $(date +%s) - start ))s $(grep -E 'SUMMARY' /tmp/sweep-$p-$s.log | cut -c1-160)"
    grep -E "VIOLATION|signature:|BROKEN" /tmp/sweep-$p-$s.log | cut -c1-240 | head -6
  done
done
