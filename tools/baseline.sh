#!/bin/bash
# tools/baseline.sh [outdir]  — runs the repository's pinned test suite with the verif tag OFF
# (the MANIFEST baseline_off_cmd) on /repo's working tree and lists every test of
# BASELINE.json's stable_pass set that did not pass. Takes 10-25 minutes.
set -u
out="${1:-/var/tmp/verif-baseline}"
mkdir -p "$out"
. "$(dirname "$0")/../env.sh"
cd /repo
: > "$out/gotest.json"
for m in . ./lib/util/lifted/VictoriaMetrics ./lib/util/lifted/influxdb; do
  (cd $m && go test -mod=mod -json -vet=off -count=1 -timeout 25m ./... >> "$out/gotest.json" 2>"$out/stderr.$(echo $m | tr -c 'a-zA-Z' _).log")
done
python3 - "$out/gotest.json" <<'EOF'
import json, sys
base = json.load(open('/root/.vp/BASELINE.json'))
stable = set(base['stable_pass'])
res = {}
for line in open(sys.argv[1], errors='replace'):
    line = line.strip()
    if not line.startswith('{'):
        continue
    try:
        e = json.loads(line)
    except Exception:
        continue
    if e.get('Action') in ('pass', 'fail', 'skip') and e.get('Test'):
        res[e['Package'] + '::' + e['Test']] = e['Action']
bad = sorted(t for t in stable if res.get(t) != 'pass')
print(f"stable_pass={len(stable)} observed={len(res)} not-passing-stable={len(bad)}")
for t in bad[:80]:
    print("  ", res.get(t, 'MISSING'), t)
sys.exit(1 if bad else 0)
EOF
