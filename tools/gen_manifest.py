#!/usr/bin/env python3
"""Regenerates /verif/MANIFEST.json from tools/checks.json (one entry per claimed property)."""
import json, subprocess, os
V = os.path.dirname(os.path.dirname(os.path.abspath(__file__)))
props = [json.loads(l) for l in open(os.path.join(V, 'properties.jsonl'))]
checks = json.load(open(os.path.join(V, 'tools', 'checks.json')))
hook_commits = [l.split()[0] for l in subprocess.run(
    ['git', '-C', '/repo', 'log', '--format=%h %s'], capture_output=True, text=True).stdout.splitlines()
    if ' verif hooks' in l or 'verif hook' in l]
m = {
 "version": 1,
 "setup_cmd": "./setup.sh",
 "hooks": {
  "guard": "verif",
  "enable": "go build -tags verif (every check builds /repo's working tree with -tags verif, plus -race where stated); runtime switches are environment variables read only by verif-tagged files: VERIF_CTL, VERIF_FS*, VERIF_POINTS",
  "baseline_off_cmd": "bash -c 'cd /repo && . /verif/env.sh && for m in . ./lib/util/lifted/VictoriaMetrics ./lib/util/lifted/influxdb; do (cd $m && go test -mod=mod -json -vet=off -count=1 -timeout 25m ./...); done'",
  "source_commits": hook_commits,
  "add_only": True
 },
 "engines": [
  {"name": "vf", "path": "harness/vf", "serves_properties": [c["property_id"] for c in checks["checks"]],
   "kind_free_text": "shared runtime of all drivers: seeds, coverage counters, known-finding matcher, witness files, evidence writer, child-worker protocol for process-fatal sanitizer reports"},
  {"name": "proc+kit+model", "path": "harness/proc harness/kit harness/model", "serves_properties": [c["property_id"] for c in checks["checks"] if c.get("blackbox")],
   "kind_free_text": "black-box runner of real ts-server / cluster processes built with -tags verif on private loopback addresses; last-write-wins reference model; dump/visibility/readiness rules"}
 ],
 "checks": [],
 "notes": checks.get("notes", ""),
 "not_applicable": []
}
claimed = set()
for c in checks["checks"]:
    pid = c["property_id"]; claimed.add(pid)
    m["checks"].append({
      "property_id": pid,
      "quick_cmd": f"./run {pid} quick",
      "thorough_cmd": f"./run {pid} thorough",
      "evidence_file": f"/verif/evidence/{pid}.json",
      "replay_cmd_template": f"./run {pid} replay {{path}}",
      "engine": c.get("engine", "vf"),
      "level_claimed": {"category": c["category"], "text": c["text"], "design_ref": f"DESIGN.md section 5, {pid}"},
      "level_note": c["note"],
      "technique": c["technique"],
    })
for p in props:
    if p["id"] not in claimed:
        m["not_applicable"].append({"property_id": p["id"], "reason": checks.get("pending", {}).get(p["id"], "check not yet implemented in this revision (pending; runtime monitoring applies, see DESIGN.md section 5)")})
json.dump(m, open(os.path.join(V, 'MANIFEST.json'), 'w'), indent=1)
print("claimed:", sorted(claimed))
