#!/bin/bash
# tools/import_seeded.sh <worktree> <seeded-id> <Cnn>  — copies a sub-agent's change out of its worktree:
# seeded/<id>/patch.diff (tracked-file changes only) and seeded/<id>/demo/ (untracked files = the demonstration)
set -eu
wt="$1"; id="$2"; prop="$3"
d="$(cd "$(dirname "$0")/.." && pwd)/seeded/$id"
mkdir -p "$d/demo"
git -C "$wt" diff > "$d/patch.diff"
git -C "$wt" ls-files --others --exclude-standard | while read -r f; do
  case "$f" in *.log|*/mst/*|*.bf.init|*go.sum) continue;; esac
  if [ -f "$wt/$f" ] && [ "$(stat -c %s "$wt/$f")" -lt 200000 ]; then
    mkdir -p "$d/demo/$(dirname "$f")"; cp "$wt/$f" "$d/demo/$f.txt"
  fi
done
echo "patch: $(grep -c '^@@' "$d/patch.diff") hunks, files: $(grep '^+++ ' "$d/patch.diff" | tr '\n' ' ')"
find "$d/demo" -type f | head -20
