#!/bin/bash
# run once after a fresh restore, offline: builds the harness packages (warms the build cache)
set -u
cd "$(dirname "$0")"
. ./env.sh
mkdir -p bin evidence replays
cp /repo/go.sum harness/go.sum
cd harness && go build -tags verif ./... 2>&1 | tail -20
exit 0
