#!/bin/bash
# run once after a fresh restore, offline: builds the harness and warms the Go build cache
# (plain and race-instrumented) so that the checks' own rebuilds are incremental
set -u
cd "$(dirname "$0")"
. ./env.sh
mkdir -p bin evidence replays
cp /repo/go.sum harness/go.sum
( cd harness && go build -tags verif ./... 2>&1 | tail -20 )
for d in harness/c*/; do
  p=$(basename "$d")
  if [ -f "$d/RACE" ]; then ( cd harness && go build -race -tags verif -o /dev/null "./$p" 2>&1 | tail -5 ); fi
done
( cd /repo && go build -tags verif -o /dev/null ./app/ts-server ./app/ts-meta ./app/ts-store ./app/ts-sql 2>&1 | tail -5 )
( cd /repo && go build -race -tags verif -o /dev/null ./app/ts-server 2>&1 | tail -5 )
exit 0
