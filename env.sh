# environment of every command of this machinery (DESIGN.md §2)
GO125=/root/go/pkg/mod/golang.org/toolchain@v0.0.1-go1.25.0.linux-amd64/bin
if [ -x "$GO125/go" ]; then export PATH="$GO125:$PATH"; else export PATH="/opt/veriftools/go1.26.8/bin:$PATH"; fi
export GOTOOLCHAIN=local GOFLAGS=-mod=mod GOPROXY=off GOSUMDB=off
export GORACE="${GORACE:-halt_on_error=1}"
